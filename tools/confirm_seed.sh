#!/bin/bash
# tools/confirm_seed.sh <worktree dir> <k> <seed id> <property>   -- independently confirm a sub-agent's seeded change and file it under /verif/seeded/<id>/
wt="$1"; k="$2"; id="$3"; prop="$4"
dest=/verif/seeded/$id; mkdir -p "$dest"
cd "$wt" || exit 2
git checkout -q -- . ; git status --porcelain --untracked-files=no | grep -q . && { echo "$id: worktree dirty"; exit 2; }
export PYTHONPATH="$wt"
PY=/venv/bin/python
$PY seeded/demo$k.py > "$dest/demo_clean.log" 2>&1; clean_rc=$?
git apply seeded/patch$k.diff || { echo "$id: patch does not apply"; exit 2; }
imp=$($PY -c "import pyrex,sys; print(pyrex.__file__)" 2>&1 | tail -1)
$PY -m pytest -q -p no:cacheprovider --timeout=900 tests > "$dest/tests_patched.log" 2>&1; tests_rc=$?
summary=$(tail -1 "$dest/tests_patched.log")
$PY seeded/demo$k.py > "$dest/demo_patched.log" 2>&1; patched_rc=$?
git checkout -q -- .
cp seeded/patch$k.diff "$dest/patch.diff"; cp seeded/demo$k.py "$dest/demo.py"; cp seeded/notes$k.md "$dest/notes.md"
tail -c 1500 "$dest/tests_patched.log" > "$dest/tests_patched.tail"; rm -f "$dest/tests_patched.log"
$PY - "$dest" "$id" "$prop" "$clean_rc" "$tests_rc" "$patched_rc" "$summary" "$imp" <<'PYEOF'
import json, sys, pathlib
dest, sid, prop, clean_rc, tests_rc, patched_rc, summary, imp = sys.argv[1:9]
notes = pathlib.Path(dest, "notes.md").read_text()
meta = {"id": sid, "property": prop, "origin": "independent sub-agent given only the property text and a scratch worktree",
        "breaks": prop, "needs_to_manifest": notes.strip().splitlines()[-6:],
        "confirmed": {"demo_exit_on_clean_tree": int(clean_rc), "test_suite_exit_with_patch": int(tests_rc), "test_suite_summary": summary,
                      "demo_exit_with_patch": int(patched_rc), "import_path_with_patch": imp,
                      "commands": ["git apply patch.diff", "PYTHONPATH=<wt> /venv/bin/python -m pytest -q -p no:cacheprovider tests", "PYTHONPATH=<wt> /venv/bin/python demo.py"]},
        "valid": int(clean_rc) == 0 and int(tests_rc) == 0 and int(patched_rc) == 1}
pathlib.Path(dest, "meta.json").write_text(json.dumps(meta, indent=1) + "\n")
print(sid, "valid" if meta["valid"] else "INVALID", clean_rc, tests_rc, patched_rc, summary)
PYEOF
