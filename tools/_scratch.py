"""Scratch copies of /repo for the variant experiments.  A patch is NEVER applied inside /repo: a run that is cut off between `git apply` and the
restore leaves the variant in /repo's working tree (this happened once: benign/C19-r3 was committed there by the session driver).  Every
experiment copies the analysed part of /repo (pyrex/, setup.py -- 1.5 MB) to a private directory outside /repo and /verif, applies the patch
there, points the checks at it with PVX_ROOT and removes the directory afterwards."""
import contextlib, os, pathlib, shutil, subprocess, tempfile

REPO = pathlib.Path(os.environ.get("PVX_BASE_REPO", "/repo"))


@contextlib.contextmanager
def scratch(patch=None):
    base = "/dev/shm" if os.path.isdir("/dev/shm") and os.access("/dev/shm", os.W_OK) else "/var/tmp"
    d = pathlib.Path(tempfile.mkdtemp(prefix="pvx_scratch_", dir=base))
    try:
        shutil.copytree(REPO / "pyrex", d / "pyrex", ignore=shutil.ignore_patterns("__pycache__"))
        shutil.copy2(REPO / "setup.py", d / "setup.py")
        err = None
        if patch is not None:
            r = subprocess.run(["git", "apply", "--include=pyrex/*", "--include=setup.py", str(patch)], cwd=d, capture_output=True, text=True)
            if r.returncode:
                err = r.stderr.strip()
        yield d, err
    finally:
        shutil.rmtree(d, ignore_errors=True)


if __name__ == "__main__":      # tools/_scratch.py <patch>  -> prints the directory, waits for a line on stdin, removes it (used by the shell tools)
    import sys
    with scratch(sys.argv[1] if len(sys.argv) > 1 else None) as (d, err):
        print(d if err is None else "ERROR " + err, flush=True)
        sys.stdin.readline()
