#!/venv/bin/python
"""tools/run_benign.py [ids...] -- apply every confirmed behaviour-preserving refactoring under /verif/benign to a scratch copy of /repo in turn (never to /repo itself), run all 20 quick
checks on it, and record in each meta.json which checks (wrongly) report it (exit 1) or lose decidability (exit 2)."""
import json, os, pathlib, subprocess, sys, re
sys.path.insert(0, str(pathlib.Path(__file__).resolve().parent))
from _scratch import scratch
from concurrent.futures import ThreadPoolExecutor
V = pathlib.Path("/verif"); R = "/repo"
PROPS = [f"C{i:02d}" for i in range(1, 21)]
def sh(*a, **k): return subprocess.run(a, capture_output=True, text=True, **k)
ids = sys.argv[1:] or sorted(p.name for p in (V / "benign").iterdir() if (p / "patch.diff").exists())
if sh("git", "-C", R, "status", "--porcelain", "--untracked-files=no").stdout.strip():
    sys.exit("/repo is not clean")
n_alarm = n_undec = 0
for sid in ids:
    d = V / "benign" / sid
    meta = json.loads((d / "meta.json").read_text())
    if not meta.get("valid"):
        print(sid, "not a confirmed refactoring; skipped"); continue
    det, err, rules = [], [], {}
    with scratch(d / "patch.diff") as (root, perr):
        if perr is not None:
            print(sid, "patch does not apply:", perr[:100]); continue
        env = dict(os.environ, PVX_ROOT=str(root))
        with ThreadPoolExecutor(16) as ex:
            outs = list(ex.map(lambda p: sh(str(V / "check"), p, "--tier", "quick", "--no-evidence", env=env), PROPS))
        for p, o in zip(PROPS, outs):
            if o.returncode == 1:
                det.append(p); rules[p] = sorted(set(re.findall(r"rule=(\S+) construct=(\S+)", o.stdout)))
            elif o.returncode != 0:
                err.append(p); rules[p] = re.findall(r"ANALYSIS-ERROR[^\n]{0,200}", o.stdout)[:3]
    meta["checks"] = {"false_alarm_in": det, "undecided_in": err, "detail": {k: [list(x) if isinstance(x, tuple) else x for x in v] for k, v in rules.items()}}
    (d / "meta.json").write_text(json.dumps(meta, indent=1) + "\n")
    n_alarm += bool(det); n_undec += bool(err and not det)
    print(f"{sid:10s} {'ALARM ' + str(det) if det else 'silent':30s} {'undecided ' + str(err) if err else ''}  {[(p, [r[0] for r in rules[p]][:4]) for p in det]}")
print(f"{len(ids)} refactorings: {n_alarm} with a false alarm, {n_undec} undecided only")
assert not sh("git", "-C", R, "status", "--porcelain", "--untracked-files=no").stdout.strip()
