#!/venv/bin/python
"""Regenerate pvx/fixtures/local_names.json: for every function of /repo/pyrex (nested ones included) the ordered list of its local
variable names on the reference tree.  Run after a `fix:` commit in /repo changes a function's locals."""
import json, pathlib, sys
HERE = pathlib.Path(__file__).resolve().parents[1]
sys.path.insert(0, str(HERE))
from pvx.core.source import Repo, function_quals, ordered_locals
repo = Repo(sys.argv[1] if len(sys.argv) > 1 else "/repo", restore_names=False)
out = {}
for m, tree in sorted(repo.modules.items()):
    for q, fn in function_quals(tree, m):
        loc = ordered_locals(fn)
        if loc:
            out[q] = loc
f = HERE / "pvx" / "fixtures" / "local_names.json"
f.write_text(json.dumps(out, indent=0, sort_keys=True) + "\n")
print("wrote", f, len(out), "functions with locals")

# reference spelling of every module-level function and method (pvx/core/canon.py): the analysis view (logging stripped, if-polarity
# normalised) of the tree the rules were confirmed on
import ast
from pvx.core import canon
ref = {}
n_canon = 0
for m, tree in sorted(repo.modules.items()):
    for q, body, i, fn in canon.outer_functions(tree, m):
        src = ast.unparse(fn)
        ref[q] = {"raw": canon.raw_digest(fn), "src": src}
        if canon.canonical(src) is not None:
            n_canon += 1
f = HERE / "pvx" / "fixtures" / "reference_functions.json"
f.write_text(json.dumps(ref, indent=0, sort_keys=True) + "\n")
print("wrote", f, len(ref), "functions;", n_canon, "have a canonical form")
