#!/venv/bin/python
"""Regenerate pvx/fixtures/local_names.json: for every function of /repo/pyrex (nested ones included) the ordered list of its local
variable names on the reference tree.  Run after a `fix:` commit in /repo changes a function's locals."""
import json, pathlib, sys
HERE = pathlib.Path(__file__).resolve().parents[1]
sys.path.insert(0, str(HERE))
from pvx.core.source import Repo, function_quals, ordered_locals
repo = Repo(sys.argv[1] if len(sys.argv) > 1 else "/repo", restore_names=False)
out = {}
for m, tree in sorted(repo.modules.items()):
    for q, fn in function_quals(tree, m):
        loc = ordered_locals(fn)
        if loc:
            out[q] = loc
f = HERE / "pvx" / "fixtures" / "local_names.json"
f.write_text(json.dumps(out, indent=0, sort_keys=True) + "\n")
print("wrote", f, len(out), "functions with locals")
