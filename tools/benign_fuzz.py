#!/venv/bin/python
"""Robustness battery (development aid, not a registered check): apply behaviour-preserving transformations to one module at a
time, in memory, and run every property's rules on the variant.  Any new VIOLATION or analysis problem on a benign variant is a
brittle rule that must be hardened.

usage: tools/benign_fuzz.py [--props C01,C02] [--kinds rename,log,reformat,negate,flipcmp,commute,hoist,inline,elseret,annotate,raisemsg,shuffle,extract,combo] [--files pyrex/signals.py,...] [-j 16]
"""
import argparse
import ast
import importlib
import multiprocessing as mp
import sys
import pathlib
import itertools

HERE = pathlib.Path(__file__).resolve().parents[1]
sys.path.insert(0, str(HERE))
from pvx.core.source import Repo              # noqa: E402
from pvx.core import report                   # noqa: E402
from pvx.cli import analysis_problems, new_guard_rule         # noqa: E402

PROPS = [f"C{i:02d}" for i in range(1, 21)]


from pvx.variants import transform, KINDS      # noqa: E402


# ------------------------------------------------------------------------------------------------ driver
_G = {}


def base_results(repo, props):
    res = {}
    for p in props:
        mod = importlib.import_module(f"pvx.rules.{p.lower()}")
        ctx = report.Ctx(repo, p, "quick")
        mod.run(ctx)
        res[p] = (set(ctx.finding_keys()), set(analysis_problems(ctx)))
    return res


def one(job):
    rel, kind, arg = job
    repo, props, base = _G["repo"], _G["props"], _G["base"]
    try:
        new = transform(repo.sources_by_path[rel], kind, arg)
    except Exception as e:
        return (rel, kind, arg, [("TRANSFORM", f"{type(e).__name__}: {e}")], 0)
    if new is None:
        return (rel, kind, arg, [], 0)
    out = []
    try:
        r2 = Repo(repo.root, overrides={rel: new}, base=repo)
    except Exception as e:
        return (rel, kind, arg, [("LOAD", str(e))], 0)
    for p in props:
        mod = importlib.import_module(f"pvx.rules.{p.lower()}")
        ctx = report.Ctx(r2, p, "quick")
        try:
            mod.run(ctx)
            new_guard_rule(ctx, p)
        except Exception as e:
            out.append((p, f"ANALYSIS-ERROR {type(e).__name__}: {e}"))
            continue
        bk, bp = base[p]
        for k in sorted(set(ctx.finding_keys()) - bk):
            out.append((p, "VIOLATION " + k))
        for k in sorted(set(analysis_problems(ctx)) - bp):
            out.append((p, "UNDECIDED " + k[:160]))
    return (rel, kind, arg, out, sum(len(v) for v in r2.restored.values()))


def main():
    ap = argparse.ArgumentParser()
    ap.add_argument("--props", default=",".join(PROPS))
    ap.add_argument("--kinds", default=",".join(KINDS))
    ap.add_argument("--files", default="")
    ap.add_argument("-j", type=int, default=16)
    ap.add_argument("--root", default="/repo")
    args = ap.parse_args()
    props = args.props.split(",")
    repo = Repo(args.root)
    files = args.files.split(",") if args.files else sorted(repo.sources_by_path)
    base = base_results(repo, props)
    _G.update(repo=repo, props=props, base=base)
    jobs = []
    for rel in files:
        for kind in args.kinds.split(","):
            jobs.append((rel, kind, None))
    with mp.get_context("fork").Pool(args.j) as pool:
        res = pool.map(one, jobs, chunksize=1)
    n_bad = 0
    per_kind = {}
    for rel, kind, arg, out, n_restored in res:
        per_kind[kind] = per_kind.get(kind, 0) + n_restored
        for p, msg in out:
            n_bad += 1
            print(f"{rel:45s} {kind:9s} {p}: {msg}")
    print("functions recognised as equivalent to their reference, per kind:", per_kind)
    print(f"{len(jobs)} variants x {len(props)} properties; {n_bad} false alarms / undecided")
    return 1 if n_bad else 0


if __name__ == "__main__":
    sys.exit(main())
