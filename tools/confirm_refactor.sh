#!/bin/bash
# tools/confirm_refactor.sh <worktree dir> <k> <id> <property>  -- independently confirm a sub-agent's behaviour-preserving refactoring
# (suite green with the patch, equivalence digest identical on the clean and the patched tree) and file it under /verif/benign/<id>/
wt="$1"; k="$2"; id="$3"; prop="$4"
dest=/verif/benign/$id; mkdir -p "$dest"
cd "$wt" || exit 2
git checkout -q -- . ; git status --porcelain --untracked-files=no | grep -q . && { echo "$id: worktree dirty"; exit 2; }
export PYTHONPATH="$wt"
PY=/venv/bin/python
d_clean=$($PY seeded/equiv$k.py 2>/dev/null | grep '^DIGEST' | tail -1)
git apply seeded/patch$k.diff || { echo "$id: patch does not apply"; exit 2; }
imp=$($PY -c "import pyrex,sys; print(pyrex.__file__)" 2>&1 | tail -1)
$PY -m pytest -q -p no:cacheprovider --timeout=900 tests > "$dest/tests_patched.log" 2>&1; tests_rc=$?
summary=$(tail -1 "$dest/tests_patched.log")
d_patched=$($PY seeded/equiv$k.py 2>/dev/null | grep '^DIGEST' | tail -1)
git checkout -q -- .
cp seeded/patch$k.diff "$dest/patch.diff"; cp seeded/equiv$k.py "$dest/equiv.py"; cp seeded/notes$k.md "$dest/notes.md"
tail -c 600 "$dest/tests_patched.log" > "$dest/tests_patched.tail"; rm -f "$dest/tests_patched.log"
$PY - "$dest" "$id" "$prop" "$tests_rc" "$summary" "$imp" "$d_clean" "$d_patched" <<'PYEOF'
import json, sys, pathlib
dest, sid, prop, tests_rc, summary, imp, d_clean, d_patched = sys.argv[1:9]
meta = {"id": sid, "property": prop, "kind": "behaviour-preserving refactoring",
        "origin": "independent sub-agent given only the property text and a scratch worktree",
        "confirmed": {"test_suite_exit_with_patch": int(tests_rc), "test_suite_summary": summary, "digest_clean": d_clean, "digest_patched": d_patched,
                      "import_path_with_patch": imp,
                      "commands": ["PYTHONPATH=<wt> /venv/bin/python equiv.py   (clean tree)", "git apply patch.diff", "PYTHONPATH=<wt> /venv/bin/python -m pytest -q -p no:cacheprovider tests",
                                   "PYTHONPATH=<wt> /venv/bin/python equiv.py   (patched tree)"]},
        "valid": int(tests_rc) == 0 and d_clean.startswith("DIGEST") and d_clean == d_patched}
pathlib.Path(dest, "meta.json").write_text(json.dumps(meta, indent=1) + "\n")
print(sid, "valid" if meta["valid"] else "INVALID", tests_rc, summary, d_clean[:24], d_patched[:24])
PYEOF
