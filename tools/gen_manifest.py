#!/venv/bin/python
"""Regenerate /verif/MANIFEST.json from the table below (single source of truth for the interface)."""
import json, pathlib, importlib, sys
HERE = pathlib.Path(__file__).resolve().parents[1]
sys.path.insert(0, str(HERE))
from manifest_table import CHECKS, NOT_APPLICABLE, FIX_COMMITS

checks = []
for pid, c in sorted(CHECKS.items()):
    checks.append({
        "property_id": pid,
        "quick_cmd": f"./check {pid} --tier quick",
        "thorough_cmd": f"./check {pid} --tier thorough",
        "evidence_file": f"/verif/evidence/{pid}.json",
        "replay_cmd_template": f"./check {pid} --replay {{path}}",
        "engine": "pvx",
        "technique": c["technique"],
        "level_claimed": {"category": "other", "text": c["text"], "design_ref": c.get("design_ref", f"DESIGN.md section 3, {pid}")},
        "level_note": c["note"],
    })
m = {
    "version": 1,
    "setup_cmd": "/venv/bin/python -m compileall -q pvx",
    "hooks": {
        "guard": "PYREX_VERIF",
        "enable": "none needed: the checks are static analyses that read /repo's working tree; no hook or instrumentation was added to /repo",
        "baseline_off_cmd": "cd /repo && /venv/bin/python -m pytest -ra -q -p no:cacheprovider --timeout=900 --continue-on-collection-errors",
        "source_commits": [],
        "add_only": True,
    },
    "engines": [{"name": "pvx", "path": "/verif/pvx", "serves_properties": sorted(CHECKS),
                 "kind_free_text": "repository-specific static analysis on CPython ast: class/MRO/call resolution, structured path "
                                   "counting, read-set closures, static signature binding, clone/sibling/twin comparison by polynomial "
                                   "normal form, small abstract interpreters (degree, sign, affine, parity, rotation, length), and a "
                                   "reference-equivalence loader (AST rewriting system). "
                                   "pyrex is parsed, never imported or executed."}],
    "checks": checks,
    "not_applicable": [{"property_id": k, "reason": v} for k, v in sorted(NOT_APPLICABLE.items())],
    "notes": "Static analysis only. exit 0 = all rules hold (KNOWN-FINDING lines for listed findings), exit 1 = VIOLATION, "
             "exit 2 = ANALYSIS-ERROR (anchor vanished / obligation no longer decidable / self-test failed / a finding lies in a function "
             "that was restructured by more than 8 lines against its confirmed form, that calls a helper the confirmed tree does not have, or that is "
             "itself new -- unless the finding is positive evidence read off one statement: DESIGN.md 2.2a). The loader reads a function that is "
             "equivalent to its confirmed form under the rewriting system of pvx/core/canon.py (soundness tested by tools/canon_selfcheck.py) "
             "in the confirmed spelling. Thorough tier = quick + fault catalogue + robustness battery (14 behaviour-preserving transformations "
             "of the anchor modules). Every property also runs seven generic rules (DESIGN.md 2.2b). Measured on 200 seeded changes and 180 refactorings "
             "from independent sub-agents who saw only the property text: DESIGN.md 8-8f. "
             "Genuine defects repaired in /repo by 'fix:' commits: " + ", ".join(FIX_COMMITS) + ". /repo also carries 44bcade (a behaviour-preserving "
             "refactoring of pyrex/detector.py -- /verif/benign/C19-r3 -- that a cut-off measurement run left in the working tree and the session driver "
             "committed) and its revert ae675af: net effect none, the checks are quiet on both trees (DESIGN.md 9a). See DESIGN.md.",
}
(HERE / "MANIFEST.json").write_text(json.dumps(m, indent=1) + "\n")
print("wrote MANIFEST.json with", len(checks), "checks,", len(m["not_applicable"]), "not applicable")
