#!/bin/bash
# tools/try_seed.sh <patch file> [props...]   -- apply a seeded change to /repo, run the quick checks, restore /repo
set -u
patch="$1"; shift
props="${*:-C01 C02 C03 C04 C05 C06 C07 C08 C09 C10 C11 C12 C13 C14 C15 C16 C17 C18 C19 C20}"
cd /repo || exit 2
if [ -n "$(git status --porcelain --untracked-files=no)" ]; then echo "/repo not clean"; exit 2; fi
git apply "$patch" || { echo "patch does not apply"; exit 2; }
for p in $props; do
  out=$(/verif/check $p --tier quick --no-evidence 2>&1); rc=$?
  if [ $rc -ne 0 ]; then echo "== $p exit $rc"; echo "$out" | grep -E "rule=|obligation:|found:|ANALYSIS-ERROR" | head -12; fi
done
git checkout -- . ; echo "restored: $(git status --porcelain --untracked-files=no | wc -l) dirty files"
