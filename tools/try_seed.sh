#!/bin/bash
# tools/try_seed.sh <patch file> [props...]   -- apply a seeded change to a scratch copy of /repo (never to /repo itself), run the quick checks on it
set -u
patch="$(readlink -f "$1")"; shift
props="${*:-C01 C02 C03 C04 C05 C06 C07 C08 C09 C10 C11 C12 C13 C14 C15 C16 C17 C18 C19 C20}"
base=/dev/shm; [ -w "$base" ] || base=/var/tmp
wt=$(mktemp -d "$base/pvx_scratch_XXXXXX") || exit 2
trap 'rm -rf "$wt"' EXIT
cp -r /repo/pyrex /repo/setup.py "$wt"/ && find "$wt" -name __pycache__ -prune -exec rm -rf {} +
( cd "$wt" && git apply --include='pyrex/*' --include=setup.py "$patch" ) || { echo "patch does not apply"; exit 2; }
for p in $props; do
  out=$(PVX_ROOT="$wt" /verif/check $p --tier quick --no-evidence 2>&1); rc=$?
  if [ $rc -ne 0 ]; then echo "== $p exit $rc"; echo "$out" | grep -E "rule=|obligation:|found:|ANALYSIS-ERROR" | head -12; fi
done
