#!/bin/bash
# tools/canon_patch_diff.sh <patch> [qual substring]  -- apply a patch to a scratch copy of /repo (never to /repo itself) and list the changed
# functions that are NOT recognised as equivalent to their reference (with the diff of canonical forms)
patch="$(readlink -f "$1")"
base=/dev/shm; [ -w "$base" ] || base=/var/tmp
wt=$(mktemp -d "$base/pvx_scratch_XXXXXX") || exit 2
trap 'rm -rf "$wt"' EXIT
cp -r /repo/pyrex /repo/setup.py "$wt"/
( cd "$wt" && git apply --include='pyrex/*' --include=setup.py "$patch" ) || exit 2
for f in $(grep '^+++ b/pyrex/.*\.py$' "$patch" | sed 's,^+++ b/,,' | sort -u); do PVX_ROOT="$wt" /verif/tools/canon_diff.py $f none "${2:-}" 2>/dev/null; done
