#!/bin/bash
# tools/canon_patch_diff.sh <patch> [qual substring]  -- apply a patch to /repo, list the changed functions that are NOT recognised as equivalent
# to their reference (with the diff of canonical forms), restore /repo
cd /repo || exit 2
[ -n "$(git status --porcelain --untracked-files=no)" ] && { echo "/repo not clean"; exit 2; }
git apply "$1" || exit 2
for f in $(git diff --name-only | grep '^pyrex/.*\.py$'); do /verif/tools/canon_diff.py $f none "${2:-}" 2>/dev/null; done
git checkout -- .
