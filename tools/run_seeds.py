#!/venv/bin/python
"""tools/run_seeds.py [seed ids...]  -- apply every seeded change under /verif/seeded to /repo in turn, run all 20 quick checks, restore /repo,
and record in each meta.json which checks report it (exit 1), which lose decidability (exit 2), and the rules named."""
import json, pathlib, subprocess, sys, re
V = pathlib.Path("/verif"); R = "/repo"
PROPS = [f"C{i:02d}" for i in range(1, 21)]
def sh(*a, **k): return subprocess.run(a, capture_output=True, text=True, **k)
ids = sys.argv[1:] or sorted(p.name for p in (V / "seeded").iterdir() if (p / "patch.diff").exists())
if sh("git", "-C", R, "status", "--porcelain", "--untracked-files=no").stdout.strip():
    sys.exit("/repo is not clean")
rows = []
for sid in ids:
    d = V / "seeded" / sid
    meta = json.loads((d / "meta.json").read_text())
    r = sh("git", "-C", R, "apply", str(d / "patch.diff"))
    if r.returncode:
        print(sid, "patch does not apply:", r.stderr.strip()[:100]); continue
    det, err, rules = [], [], {}
    try:
        from concurrent.futures import ThreadPoolExecutor
        with ThreadPoolExecutor(16) as ex:
            outs = list(ex.map(lambda p: sh(str(V / "check"), p, "--tier", "quick", "--no-evidence"), PROPS))
        for p, o in zip(PROPS, outs):
            if o.returncode == 1:
                det.append(p); rules[p] = sorted(set(re.findall(r"rule=(\S+)", o.stdout)))
            elif o.returncode != 0:
                err.append(p)
    finally:
        sh("git", "-C", R, "checkout", "--", ".")
    meta["checks"] = {"reported_by": det, "rules": rules, "analysis_error_in": err, "own_property_reports": meta["property"] in det}
    (d / "meta.json").write_text(json.dumps(meta, indent=1) + "\n")
    rows.append((sid, meta["property"], det, err, rules.get(meta["property"], [])))
    print(f"{sid:10s} own={'YES' if meta['property'] in det else 'no ':3s} reported_by={det} exit2={err} rules={rules.get(meta['property'], [])}")
print("own-property detection:", sum(1 for r in rows if r[1] in r[2]), "/", len(rows))
assert not sh("git", "-C", R, "status", "--porcelain", "--untracked-files=no").stdout.strip()
