#!/venv/bin/python
"""tools/run_seeds.py [seed ids...]  -- apply every seeded change under /verif/seeded to a scratch copy of /repo in turn (never to /repo itself), run all 20 quick checks on it,
and record in each meta.json which checks report it (exit 1), which lose decidability (exit 2), and the rules named."""
import json, os, pathlib, subprocess, sys, re
sys.path.insert(0, str(pathlib.Path(__file__).resolve().parent))
from _scratch import scratch
V = pathlib.Path("/verif"); R = "/repo"
PROPS = [f"C{i:02d}" for i in range(1, 21)]
def sh(*a, **k): return subprocess.run(a, capture_output=True, text=True, **k)
ids = sys.argv[1:] or sorted(p.name for p in (V / "seeded").iterdir() if (p / "patch.diff").exists())
if sh("git", "-C", R, "status", "--porcelain", "--untracked-files=no").stdout.strip():
    sys.exit("/repo is not clean")
rows = []
for sid in ids:
    d = V / "seeded" / sid
    meta = json.loads((d / "meta.json").read_text())
    det, err, rules = [], [], {}
    with scratch(d / "patch.diff") as (root, perr):
        if perr is not None:
            print(sid, "patch does not apply:", perr[:100]); continue
        env = dict(os.environ, PVX_ROOT=str(root))
        from concurrent.futures import ThreadPoolExecutor
        with ThreadPoolExecutor(16) as ex:
            outs = list(ex.map(lambda p: sh(str(V / "check"), p, "--tier", "quick", "--no-evidence", env=env), PROPS))
        for p, o in zip(PROPS, outs):
            if o.returncode == 1:
                det.append(p); rules[p] = sorted(set(re.findall(r"rule=(\S+)", o.stdout)))
            elif o.returncode != 0:
                err.append(p)
    meta["checks"] = {"reported_by": det, "rules": rules, "analysis_error_in": err, "own_property_reports": meta["property"] in det}
    (d / "meta.json").write_text(json.dumps(meta, indent=1) + "\n")
    rows.append((sid, meta["property"], det, err, rules.get(meta["property"], [])))
    print(f"{sid:10s} own={'YES' if meta['property'] in det else 'no ':3s} reported_by={det} exit2={err} rules={rules.get(meta['property'], [])}")
print("own-property detection:", sum(1 for r in rows if r[1] in r[2]), "/", len(rows))
assert not sh("git", "-C", R, "status", "--porcelain", "--untracked-files=no").stdout.strip()
