#!/venv/bin/python
"""Soundness check of the rewriting system in pvx/core/canon.py (development aid; it tests the *tool*, never pyrex).

Random small functions are generated over a vocabulary that exercises every rewriting step (temporaries with one and several uses,
aliasing, in-place updates, heap reads and writes, effectful calls, loops with break/continue, two-way decisions that return or
raise, comparisons, products, annotations, message text).  Each function is executed as written and in its canonical form on random
inputs; the observable outcome -- returned value or exception class, the final state of every mutable argument, the effect log --
must be identical (an exception counts as an exception: its class is not compared).  A difference is a bug in the canonicaliser that could make the loader treat a changed function as unchanged.

Assumptions of the rewriting system that the generator respects: arithmetic is well typed (no list - int), and reading a plain
attribute of `self` does not raise.

usage: tools/canon_selfcheck.py [n_programs=3000] [seed=0]
"""
import ast
import copy
import pathlib
import random
import sys

HERE = pathlib.Path(__file__).resolve().parents[1]
sys.path.insert(0, str(HERE))
from pvx.core import canon          # noqa: E402


class Gen:
    def __init__(self, rng):
        self.r = rng
        self.k = 0

    def fresh(self):
        self.k += 1
        return f"t{self.k}"

    def atom(self, defined):
        r = self.r
        c = r.random()
        if c < 0.45 and defined:
            return r.choice(sorted(defined))
        if c < 0.6:
            return r.choice(["self.p", "self.q", "lst[0]", "lst[1]", "len(lst)", "self.arr[0]", "lst[a % 6]", "(a // b)", "tbl[b]", "(a % b)",
                             "sum([q_ * 2 for q_ in lst[:3] if q_ != a])", "len([w_ for w_ in range(abs(b)) for v_ in range(2) if w_ + v_ != a])",
                             "sum([k_ + a for k_ in [a, b, 1]])"])
        return str(r.randint(-3, 5))

    def expr(self, defined, depth=0):
        r = self.r
        c = r.random()
        if depth > 2 or c < 0.3:
            return self.atom(defined)
        if c < 0.6:
            return f"({self.expr(defined, depth + 1)} {r.choice(['+', '-', '*', '*'])} {self.expr(defined, depth + 1)})"
        if c < 0.7:
            return f"np.sq({self.expr(defined, depth + 1)})"
        if c < 0.78:
            return f"abs({self.expr(defined, depth + 1)})"
        if c < 0.84:
            return f"-{self.expr(defined, depth + 1)}"
        if c < 0.9:
            return f"eff({self.expr(defined, depth + 1)})"
        if c < 0.95:
            return "self.bump()"
        return f"np.ident({self.atom(defined)})"

    def cond(self, defined, depth=0):
        r = self.r
        if r.random() < 0.1:
            # truth of the packed parameters (*args tuple, **kwargs dict): length comparisons and the bare name are interchangeable there
            return r.choice(["len(args) > 0", "len(args) >= 1", "len(args) != 0", "args", "not args", "len(args) == 0", "len(args) < 1", "len(args)",
                             "not len(args)", "len(kwargs) > 0", "kwargs", "not kwargs", "len(kwargs) == 0", "len(args) > 1", "'k' in kwargs"])
        k = r.random()
        if k < 0.12 and depth < 2:
            return f"not {self.cond(defined, depth + 1)} or not {self.cond(defined, depth + 1)}"
        if k < 0.2 and depth < 2:
            return f"({self.cond(defined, depth + 1)}) {r.choice(['and', 'or'])} ({self.cond(defined, depth + 1)})"
        if k < 0.3:
            return f"{self.atom(defined)} {r.choice(['is', 'is not'])} None"
        if k < 0.38:
            return f"{self.atom(defined)} {r.choice(['in', 'not in'])} lst"
        a, b = self.expr(defined, 1), self.expr(defined, 1)
        c = f"{a} {r.choice(['<', '>', '<=', '>=', '==', '!='])} {b}"
        return f"not ({c})" if r.random() < 0.3 else c

    def block(self, defined, depth, in_loop):
        """returns (lines, defined after)"""
        r = self.r
        out = []
        defined = set(defined)
        for _ in range(r.randint(1, 5)):
            if r.random() < 0.06:
                # packed parameters: value uses of their length, a tuple-preserving rebinding, look-up-then-pop, and rebindings that
                # take the name out of the rule's reach (the canonical form must then leave its tests alone)
                k = r.random()
                v = self.fresh()
                key = r.choice(["'k'", "'k'", "'m'", "'z'"])
                if k < 0.2:
                    out.append(f"{v} = {r.choice(['len(args)', '(len(args) > 0) + 0', '(len(args) == 0) * 2', 'len(kwargs)', 'sum(args)'])}")
                    defined.add(v)
                elif k < 0.35:
                    out.append(r.choice(["args = args[1:]", "args = args[:1]", "args = args[1:2]"]))
                elif k < 0.75:
                    out.append(f"{v} = kwargs[{key}]")
                    if r.random() < 0.15:
                        out.append(f"eff({v})")
                    out.append(f"kwargs.pop({key if r.random() < 0.85 else chr(39) + 'm' + chr(39)})")
                    defined.add(v)
                elif k < 0.85:
                    out.append(f"{v} = kwargs.pop({key})")
                    defined.add(v)
                elif k < 0.9:
                    out.append(r.choice(["args = np.ident(Weird())", "kwargs = Weird()", "args = [0] * len(args)", "args = args[0]"]))
                else:
                    out.append(r.choice(["keep.append(kwargs)", "keep.append(sorted(kwargs.items()))", "keep.append(args)"]))
                continue
            c = r.random()
            ind = ""
            if c < 0.32:
                v = self.fresh() if r.random() < 0.75 or not defined else r.choice(sorted(defined - {"a", "b"}) or [self.fresh()])
                ann = ": int" if r.random() < 0.1 else ""
                out.append(f"{v}{ann} = {self.expr(defined)}")
                defined.add(v)
            elif c < 0.38 and defined - {"a", "b"}:
                v = r.choice(sorted(defined - {"a", "b"}))
                out.append(f"{v} += {self.expr(defined)}")
            elif c < 0.46:
                out.append(r.choice(["self.p", "self.q", "lst[0]", "lst[1]", "self.arr[0]"]) + f" = {self.expr(defined)}")
            elif c < 0.5:
                out.append(f"lst.append({self.expr(defined)})")
            elif c < 0.51 and depth < 3:
                # two decisions in a row on the same names (possibly rebound in the first arm)
                names = sorted(defined)
                x, y = r.choice(names), r.choice(names)
                t = f"{x} {r.choice(['<', '==', '!=', '>='])} {y}"
                b1, _ = self.block(defined, depth + 1, in_loop)
                b2, _ = self.block(defined, depth + 1, in_loop)
                if r.random() < 0.4:
                    b1.append(f"{x} = {self.expr(defined)}")
                out.append(f"if {t}:")
                out += ["    " + ln for ln in b1]
                out.append(f"if {t}:")
                out += ["    " + ln for ln in b2]
            elif c < 0.52:
                # a temporary that is only the iterable of a comprehension / of a loop
                v, w = self.fresh(), self.fresh()
                out.append(f"{v} = {r.choice(['lst[:2]', 'self.arr', '[a, b]', 'tbl'])}")
                out.append(f"{w} = sum([e_ + {self.atom(defined)} for e_ in {v}])")
                defined.add(w)
            elif c < 0.54:
                # aliasing: a temporary that names a mutable object, then a mutation through it
                v = self.fresh()
                out.append(f"{v} = {r.choice(['lst', 'self.arr', 'np.ident(lst)', '[a, b]'])}")
                # (list-valued: never offered to the arithmetic generator -- the rewriting system assumes well-typed arithmetic)
                if r.random() < 0.7:
                    out.append(f"{v}[0] = {self.expr(defined)}")
                if r.random() < 0.3:
                    w = self.fresh()
                    out.append(f"{w} = {v}[0] + {v}[1]")
                    defined.add(w)
                if r.random() < 0.5:
                    out.append(f"keep.append({v})")
                if r.random() < 0.4:
                    out.append(f"keep.append({v})")
            elif c < 0.58:
                # a heap-reading temporary whose only use sits after an effect inside one statement
                v, w = self.fresh(), self.fresh()
                out.append(f"{v} = {r.choice(['self.p', 'lst[0]', 'self.arr[0]', 'self.q'])} + {r.randint(0, 3)}")
                eff_ = r.choice(["self.bump()", "eff(lst[0])", "eff(self.p)"])
                out.append(r.choice([f"{w} = {eff_} * 10 + {v}", f"{w} = {v} + {eff_} * 10", f"lst[{eff_} % 2] = {v}", f"{w} = np.sq({v}) - {eff_}"]))
                defined |= {v, w} if not out[-1].startswith("lst[") else {v}
            elif c < 0.62 and self.helpers:
                h = r.choice(self.helpers)
                call = f"{h}(self, {self.expr(defined, 1)}, {self.atom(defined)}, lst, keep)"
                k = r.random()
                if k < 0.25 and depth < 3:
                    body, d1 = self.block(defined, depth + 1, in_loop)
                    out.append(f"if {call}:")
                    out += ["    " + ln for ln in body]
                    if r.random() < 0.4:
                        els, d2 = self.block(defined, depth + 1, in_loop)
                        out.append("else:")
                        out += ["    " + ln for ln in els]
                elif k < 0.6:
                    v = self.fresh()
                    out.append(f"{v} = {call}")
                    out.append(f"{v} = 0 if {v} is None else {v}")
                    defined.add(v)
                elif k < 0.8:
                    out.append(call)
                else:
                    out.append(f"return {call}")
                    break
            elif c < 0.66 and depth < 3:
                body, d1 = self.block(defined, depth + 1, in_loop)
                out.append("try:")
                out += ["    " + ln for ln in body]
                out.append("except KeyError:")
                out.append("    " + (r.choice(["continue", "break"]) if in_loop and r.random() < 0.5 else f"return {self.atom(defined)}"))
                if r.random() < 0.6:
                    els, _ = self.block(d1, depth + 1, in_loop)
                    out.append("else:")
                    out += ["    " + ln for ln in els]
            elif c < 0.72 and depth < 3:
                body, d1 = self.block(defined, depth + 1, in_loop)
                out.append(f"if {self.cond(defined)}:")
                out += ["    " + ln for ln in body]
                if r.random() < 0.5:
                    els, d2 = self.block(defined, depth + 1, in_loop)
                    out.append("else:")
                    out += ["    " + ln for ln in els]
                    defined = d1 & d2
            elif c < 0.8 and depth < 2:
                i = self.fresh()
                body, _ = self.block(defined | {i}, depth + 1, True)
                out.append(f"for {i} in range({r.randint(0, 3)}):")
                out += ["    " + ln for ln in body]
            elif c < 0.82 and len(defined) > 2:
                # an assignment (possibly in a branch or a try) directly followed by the return of that name
                v = r.choice(sorted(defined - {"a", "b"}))
                k = r.random()
                if k < 0.4:
                    out.append(f"if {self.cond(defined)}:")
                    out.append(f"    {v} = {self.expr(defined)}")
                elif k < 0.7:
                    w = self.fresh()
                    out.append("try:")
                    out.append(f"    {w} = {self.expr(defined)}")
                    out.append("except KeyError:")
                    out.append(f"    return {self.atom(defined)}")
                    v = w
                else:
                    v2 = self.fresh()
                    out.append(f"{v}, {v2} = {self.expr(defined)}, {self.expr(defined)}")
                out.append(f"return {v}")
                break
            elif c < 0.88:
                out.append(f"return {self.expr(defined)}")
                break
            elif c < 0.92:
                out.append(f"raise {r.choice(['ValueError', 'KeyError'])}('message ' + str({self.atom(defined)}))")
                break
            elif c < 0.96 and in_loop:
                out.append(r.choice(["break", "continue"]))
                break
            else:
                out.append(f"eff({self.expr(defined)})")
        return out, defined

    def function(self, name):
        body, _ = self.block({"a", "b"}, 0, False)
        if self.r.random() < 0.3:
            body.insert(0, self.r.choice(["a = abs(a)", "b = b + (a * 0)", "a = np.ident(a)"]))     # a parameter rebound at the top
        if self.r.random() < 0.3:
            v = self.fresh()
            body.insert(0, f"{v} = (lambda u_, w_=2: u_ * w_ + a)(b)")
            body.insert(1, f"eff({v})")
        if self.r.random() < 0.3:
            v = self.fresh()
            body.insert(0, f"{v} = a if a < b else lst[0]")
            body.insert(1, f"{v} = sum(list(g_ + {v} for g_ in lst[:2])) if b > 0 else {v}")
            body.insert(2, f"eff({v})")
        if self.r.random() < 0.7:
            body.append("return " + self.expr({"a", "b"}))
        return f"def {name}(self, a: int, b, lst, keep, *args, **kwargs):\n" + "\n".join("    " + ln for ln in body) + "\n"

    def program(self):
        """(helper sources, main source): helpers are new module-level functions or closures the main function calls"""
        self.k = 0
        self.helpers = []
        helpers = []
        for i in range(self.r.choice([0, 0, 1, 2])):
            helpers.append(self.function(f"h{i + 1}"))
        self.helpers = [f"h{i + 1}" for i in range(len(helpers))]
        main = self.function("f")
        self.helpers = []
        closures = []
        if helpers and self.r.random() < 0.4:
            # the last helper becomes a closure defined at the top of the main function
            closures = [helpers.pop()]
            head, rest = main.split("\n", 1)
            main = head + "\n" + "\n".join("    " + ln for ln in closures[0].rstrip("\n").split("\n")) + "\n" + rest
        return helpers, main


class Obj:
    def __init__(self, p, q, arr, log):
        self.p, self.q, self.arr, self._log = p, q, arr, log

    def bump(self):
        self.p += 1
        self._log.append(("bump", self.p))
        return self.p


class Weird:
    """an object whose length and truth disagree (what a rebound `args` could hold)"""

    def __repr__(self):
        return "Weird"

    def __len__(self):
        return 0

    def __bool__(self):
        return True

    def __getitem__(self, k):
        return self

    def pop(self, k):
        return 0

    def items(self):
        return []

    def __iter__(self):
        return iter(())


class NP:
    @staticmethod
    def sq(x):
        return x * x

    @staticmethod
    def ident(x):          # a pure function that hands back its argument (like np.asarray)
        return x


def run(src, a, b, p, q, prelude=""):
    log = []
    lst = [a, b, 7]
    keep = []
    o = Obj(p, q, [q, p], log)

    def eff(x):
        log.append(("eff", repr(x), o.p, repr(lst)))
        return x + 1
    env = {"np": NP, "eff": eff, "tbl": {0: 1, 1: 5, 2: 2}, "Weird": Weird}
    extra = (a, 2, b)[:abs(a + p) % 4]
    kw = [{}, {"k": q}, {"k": a, "m": 3}, {"m": b}][abs(b + q) % 4]
    exec(compile(prelude + src, "<prog>", "exec"), env)
    try:
        res = ("ret", env["f"](o, a, b, lst, keep, *extra, **kw))
    except RecursionError:
        raise
    except Exception as e:      # noqa
        res = ("exc",)      # which of two failing sub-expressions reports first is not part of the equivalence
    # identity structure of `keep`: which entries are the same object, and which are the argument objects
    ids = []
    for x in keep:
        ids.append(("lst" if x is lst else "arr" if x is o.arr else [i for i, y in enumerate(keep) if y is x][0], repr(x)))
    return repr((res, log, lst, (o.p, o.q, o.arr), ids))


def main():
    n = int(sys.argv[1]) if len(sys.argv) > 1 else 3000
    seed = int(sys.argv[2]) if len(sys.argv) > 2 else 0
    rng = random.Random(seed)
    g = Gen(rng)
    bad = 0
    changed = 0
    folded = 0
    for k in range(n):
        helpers, src = g.program()
        prelude = "\n".join(helpers) + "\n" if helpers else ""
        try:
            ast.parse(prelude + src)
        except SyntaxError:
            continue
        functions = {}
        for h in helpers:
            hf = ast.parse(h).body[0]
            shape = canon.helper_shape(hf)
            calls_itself = any(isinstance(n_, ast.Name) and n_.id == hf.name for n_ in ast.walk(hf))
            if shape is not None and not calls_itself:
                functions[hf.name] = shape
        try:
            fn = canon.canonical_tree(src, (functions, {}, None), set())
        except RecursionError:
            continue
        if fn is None:
            continue
        can = ast.unparse(ast.fix_missing_locations(ast.Module(body=[fn], type_ignores=[])))
        if ast.dump(ast.parse(can)) != ast.dump(ast.parse(src)):
            changed += 1
        if (helpers or "def h" in src) and not any(f"h{i}(" in can for i in (1, 2)):
            folded += 1
        for _ in range(6):
            args = [rng.randint(-3, 4) for _ in range(4)]
            try:
                r1, r2 = run(src, *args, prelude=prelude), run(can, *args, prelude=prelude)
            except ValueError:
                break                   # integers too large to print: not a property of the rewriting
            if r1 != r2:
                bad += 1
                print("=" * 100, "\nMISMATCH on", args, "\n--- helpers\n" + prelude + "--- program\n" + src + "--- canonical\n" + can + "\n--- outcomes\n", r1, "\n", r2)
                break
        if bad >= 5:
            break
    print(f"{folded} programs had every helper call folded back")
    print(f"{k + 1} programs, {changed} rewritten by the canonicaliser, {bad} behavioural mismatches")
    return 1 if bad else 0


if __name__ == "__main__":
    sys.exit(main())
