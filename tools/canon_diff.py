#!/venv/bin/python
"""Development aid: apply a benign_fuzz transformation to a module and list the functions that are NOT recognised as equivalent to
their reference, with a unified diff of the two canonical forms.   usage: tools/canon_diff.py pyrex/earth_model.py hoist [qual-substring]"""
import ast, os, sys, pathlib, difflib, importlib.util
HERE = pathlib.Path(__file__).resolve().parents[1]
sys.path.insert(0, str(HERE))
from pvx import variants as bf
from pvx.core import canon
from pvx.core.source import strip_inert, normalise_if_polarity
rel, kind = sys.argv[1], sys.argv[2]
sub = sys.argv[3] if len(sys.argv) > 3 else ""
src = (pathlib.Path(os.environ.get("PVX_ROOT", "/repo")) / rel).read_text()
new = bf.transform(src, kind) if kind != "none" else src
tree = ast.parse(new); strip_inert(tree); normalise_if_polarity(tree)
mod = rel[:-3].replace("/", ".")
ref = canon.reference_functions()


functions, methods = canon._new_helpers(tree, mod, ref)


def pretty(src, helpers=None, ref_nested=None):
    fn = canon.canonical_tree(src, helpers, ref_nested)
    return ast.unparse(ast.fix_missing_locations(fn)) if fn is not None else "<no canonical form>"


for q, body, i, fn in canon.outer_functions(tree, mod):
    r = ref.get(q)
    if r is None or canon.raw_digest(fn) == r["raw"] or sub not in q:
        continue
    parts = q[len(mod) + 1:].split(".")
    helpers = (functions, methods if len(parts) > 1 else {}, parts[-2] if len(parts) > 1 else None)
    nested = canon._nested_names(r["src"])
    a, b = canon.canonical(ast.unparse(fn), helpers, nested), canon.canonical(r["src"])
    if a == b:
        continue
    print("=====", q)
    for line in difflib.unified_diff(pretty(r["src"]).splitlines(), pretty(ast.unparse(fn), helpers, nested).splitlines(), "reference", "variant", lineterm="", n=1):
        print(line)
