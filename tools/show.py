#!/venv/bin/python
"""tools/show.py <module path> <Class|func> [method ...]  -- print code without docstrings (reading aid)"""
import ast, sys
src = open(sys.argv[1]).read(); tree = ast.parse(src)
def strip(fn):
    for n in ast.walk(fn):
        if isinstance(n, (ast.FunctionDef, ast.ClassDef)) and n.body and isinstance(n.body[0], ast.Expr) and isinstance(n.body[0].value, ast.Constant) and isinstance(n.body[0].value.value, str):
            n.body = n.body[1:] or [ast.Pass()]
    return fn
for node in tree.body:
    if isinstance(node, (ast.ClassDef, ast.FunctionDef)) and node.name == sys.argv[2]:
        if isinstance(node, ast.FunctionDef) or len(sys.argv) == 3:
            print(ast.unparse(strip(node)))
        else:
            for m in node.body:
                if isinstance(m, ast.FunctionDef) and m.name in sys.argv[3:]:
                    print(f"# line {m.lineno}"); print(ast.unparse(strip(m))); print()
