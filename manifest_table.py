"""Table from which tools/gen_manifest.py writes MANIFEST.json."""
FIX_COMMITS = ["77a8511 (C20)", "5ffb491 (C06)", "c8070ac (C06)", "17c5c88 (C10)", "0f02627 (C12/C11)", "b090335 (C12)", "379af9d (C11)", "b049858 (C09/C19)", "04ee588 (C07)", "f98e878 (C07)", "bda319f (C04)", "8424b07 (C02/C18)"]

CHECKS = {
    "C20": {
        "technique": "static analysis: exhaustive import / attribute-chain enumeration over the ast, resolved against the installed libraries",
        "text": "Every import and every attribute chain into numpy/scipy/h5py/stdlib in all 28 modules (incl. the custom sub-packages "
                "that cannot be imported here) is enumerated from the syntax tree and resolved by getattr against the installed "
                "distributions; undeclared packages must sit under an ImportError/find_spec guard. Exhaustive over the source, so it "
                "covers lines no test executes. Sufficient for 'no referenced library name is missing' on the installed versions.",
        "note": "Oracle is one installed version set (numpy 2.5.3, scipy 1.18.1, h5py 3.16, Python 3.12), not the whole declared range; "
                "attributes of runtime objects (array methods) and dynamic getattr are out of reach; trusted: CPython ast, importlib.",
    },
    "C06": {
        "technique": "static analysis: read-set closure over the MRO + path-state (typestate) analysis of in-place mutations + mechanism pattern rules",
        "text": "For all 15 LazyMutableClass subclasses: every attribute a lazy value transitively reads must be in the static-attribute "
                "list reaching LazyMutableClass.__init__ (R06a, knobs R06a'); every in-place mutation of such an attribute must be "
                "covered by _clear_cache()/static re-assignment on every path to every exit incl. explicit raises (R06b, path-state "
                "flow); the cache mechanism (prefix agreement, positive membership, unconditional store) is intact (R06c); "
                "FunctionSignal.values has the eager-definition shape (R06d). Necessary conditions stated per method, hence valid "
                "for every interleaving of reads and mutations.",
        "note": "Not decided: mutation of objects held by an attribute from outside, numerical equality of cached and fresh values. "
                "9 class-level knobs are recorded as known findings (demonstrated by known_demos/c06_knobs.py). Trusted: Python "
                "attribute protocol (obj.x = v / obj.x += v call __setattr__).",
    },
    "C10": {
        "technique": "static analysis: static signature binding of kernel call sites against every component family member + structured path counting",
        "text": "Every call and attribute use EventKernel makes on a pluggable component is bound on the syntax trees against every "
                "shipped member of the family (4 tracers, 4 path classes, 4 Askaryan models, antennas/systems incl. custom packages in "
                "thorough, 5 generators, 5 ice models, the writer) and the tracers' own path-constructor calls are bound too: the whole "
                "component cross-product of the quantifier (R10a, sufficient for 'no interface mismatch'). Path counting proves one "
                "receive and one polarization entry per ray solution on every normal path and one ray_paths.extend over the same "
                "solutions (R10b); pattern rules fix the off-cone substitution, weight cuts, trigger and writer hand-over (R10c-e).",
        "note": "Not decided: physics of nu_pol/psi, numerical alignment, user-supplied components. Frozen exception: abstract base "
                "AntennaSystem has no `position` (every concrete system assigns it). Trusted: Python call-binding rules as "
                "re-implemented in pvx/core/sigbind.py.",
    },
    "C11": {
        "technique": "static analysis: def-use pairing of counters/resizes/index entries with normal-form equality, gating and ordering rules, table exhaustiveness",
        "text": "Writer side of io.py. R11a pairs each of the 6 per-table counter increments with the resize of its dataset(s), the "
                "(start,length) entry (start = pre-increment counter, length = increment, equal as polynomial normal forms) and row "
                "stores inside [start,start+length): sufficient for 'the index table addresses rows inside the datasets'. R11b/R11c fix "
                "the option gating table and the ordering (checks raise first, preset before writers, event counter last and only there) "
                "that carries the rejected-add clause; R11d proves writer/reader table agreement exhaustively over all constant keys; R11e "
                "keyed-column stores; R11g reader slice. Holds for every add sequence because stated per writer, not per history.",
        "note": "Not decided: h5py semantics, value equality of what is read back. The reading half (rows through each event's own index "
                "entry) is R12a under C12. Trusted: CPython ast; Dataset.resize keeps existing rows.",
    },
    "C12": {
        "technique": "static analysis: flow-sensitive def-use (column dependence), raw/normalised typestate, normal-form agreement of index arithmetic, key-table agreement",
        "text": "R12a: flow-sensitive dependence analysis of EventIterator._load_data proves each event's rows are cut with that event's own "
                "start column (necessary for slices with step>1, chunking and files with rejected adds). R12b: typestate raw->normalised on "
                "slice bounds in HDF5Reader.__getitem__ (a difference of raw bounds must not reach min/range/slice_range). R12c: one normal "
                "form of the event number at its 9 uses + reload arithmetic. R12d: append-mode counter recovery over the same key set from "
                "shape[0]. R12e/R12f: replay key agreement between Particle/Interaction metadata and FileGenerator, parallel-list discipline.",
        "note": "Not decided: data equality itself, foreign files. Trusted: CPython ast; Python slice.indices semantics.",
    },
    "C09": {
        "technique": "static analysis: catch-up-loop shape + structured path counting + sibling (clone) agreement between Antenna and AntennaSystem",
        "text": "Bookkeeping is consistent under every history because every cached list is brought up to date against its source on each "
                "read; the rules check exactly that, per method: the 5 catch-up loops (strict <, one append per iteration on every path, "
                "source read at len(cache)), clear() empties every list of __init__ and resets noise only on request, definitions of "
                "is_hit/waveforms/is_hit_during, single noise realisation, superposition and disjointness skip in full_waveform, "
                "Antenna<->AntennaSystem sibling agreement by normalised bodies, lead-in grid in normal form.",
        "note": "Not decided: numerical equality of the superposition, n_pts rounding, front ends of subclasses. Necessary conditions; "
                "assumes signals are appended only by receive().",
    },
    "C19": {
        "technique": "static analysis: decision-table extraction of the composition operators, clone comparison, flatten recursion shape",
        "text": "iter/len/getitem of every Detector class consume flatten(self.subsets) only (sufficient for their agreement at any nesting); "
                "operator decision tables fix the operand order of +, radd, += (self first / other first); flatten forwards dont_flatten and "
                "keeps str/bytes; the three any-hit tests are one clone; clear forwards reset_noise over self; the three position "
                "comparisons are z>0 and run in every constructor and +=; keyword dispatch shape; MC-truth sibling (with C09).",
        "note": "Not decided: associativity as list equality (follows informally from R19a+R19b), user subclasses. Necessary conditions.",
    },
    "C05": {
        "technique": "static analysis: abstract interpretation (homogeneity-degree, symbolic-length and affine-time domains) + def-use pattern rules",
        "text": "Three abstract interpretations of filter_frequencies/_get_filter_response/_apply_filters prove, for every signal length, "
                "step, offset and response function: new values are linear in the old values and in the response's output on both the "
                "vectorised and scalar fall-back arm (R05a); FFT operands, fftfreq and responses all have length 2N, padding is N, the "
                "stored slice is N (R05b: operands agree, no wrap-around for delays < window); values have translation weight 0 when the "
                "time grid has weight 1 (R05c: shift invariance). Def-use rules fix the Hermitian mirror (R05d) and the single "
                "application of the product of filters (R05e).",
        "note": "Not decided: identity for a unit response up to rounding, energy inequality, Nyquist bin. Trusted: numpy/scipy summary "
                "tables (fft/ifft linear and length-preserving, fftfreq(n) has length n).",
    },
    "C08": {
        "technique": "static analysis: abstract interpretation (homogeneity-degree and rotation-covariance domains) + delegation/decision-list rules",
        "text": "apply_response of Antenna, DipoleAntenna and through AntennaSystem is interpreted abstractly: result values Lin in the "
                "signal, degree +1 in directional gain, polarization gain, efficiency and frequency response, degree -1 in antenna_factor "
                "on the field arm and 0 on the voltage arm (R08a, sufficient, all inputs). Rotation domain: with all geometric inputs "
                "typed as lab-frame vectors the angles, gains and response are scalars (R08e). Decision list on the input signal's type "
                "(R08b), copy/filter-once/scale-once (R08c), parameter-complete delegation (R08d), dipole formulas in normal form (R08f), "
                "one stored sum per receive (R08g).",
        "note": "Not decided: Butterworth values, numerical equality under rotation, gains of custom antenna classes. Trusted: summary "
                "tables of the two domains.",
    },
    "C03": {
        "technique": "static analysis: abstract interpretation (degree and sign domains), path-state counting, clone comparison by polynomial normal form",
        "text": "Over the propagate/attenuation/fresnel siblings of all four path classes: returned signals are linear in the input signal "
                "(Signal and FunctionSignal) and in the polarization (R03a, degree domain, all inputs); each returned signal object gets "
                "exactly one shift(self.tof) and one filter on every path, force_real=True where Fresnel factors enter (R03b, path-state "
                "flow); the argument is never mutated (R03c); attenuation is exp(non-positive) or a product of such from ones, i.e. in "
                "(0,1] given positive attenuation lengths (R03d, sign domain); the Fresnel expressions are one normal form per role, r_p is "
                "r_s with indices exchanged, s/p coefficients pair with s/p signals (R03e); polarization basis = normalized cross products "
                "(R03f: unit, mutually orthogonal, p perpendicular to the received direction by construction).",
        "note": "Not decided: |Fresnel| <= 1, monotonicity in |f|, interpolation error, u_s0 perpendicular to the received direction, the energy "
                "inequality. Assumes ice.attenuation_length > 0 (C16 R16g). Trusted: domain summary tables, normalize().",
    },
    "C07": {
        "technique": "static analysis: abstract interpretation (degree domain for 1/R and energy scaling, affine domain for joint time shifts) + def-use rules",
        "text": "Through the constructors, nested signal functions and ARZ.shower_signal (both arms): the trace is Hom(-1) in viewing_distance "
                "(R07a) and Hom(+1) in the shower energy for ZHS and the ARZ on-cone arm (R07e); with times and t0 of translation weight 1 "
                "the trace has weight 0 (R07c, joint shift invariance). Def-use: every load of viewing_angle is under abs() (R07b); the "
                "`function` handed to FunctionSignal is a callable at all call sites and zero-energy arms return zeros(len(times)) (R07d); "
                "RAC arms use complementary, consistent masks (R07f).",
        "note": "Not decided: whole-sample shift equivariance (integer rounding), finiteness, peak position and fall-off, AVZ energy "
                "proportionality. Trusted: domain summary tables.",
    },
    "C04": {
        "technique": "static analysis: value-provenance (freshness) analysis of constructors and returns, sibling guard-list comparison, symbolic-length abstract interpretation",
        "text": "Constructors store freshly built arrays (R04a); every return of copy/with_times/+/*// in every Signal subclass is a family "
                "constructor call, an object from .copy() that only receives fresh values afterwards, or NotImplemented, and `self` is "
                "returned only by in-place operators and by 0+signal (R04b: sufficient, with R04a, for 'no shared mutable state'); the five "
                "FunctionSignal component lists are deep-copied (R04c); the three __add__ siblings share guard list and coercion (R04d); "
                "with_times has the interp(left=0,right=0) / empty / re-evaluate shapes (R04e); the length domain proves len(values) == "
                "len(times) on both constructor arms (R04f).",
        "note": "Not decided: numerical equality of interpolation, resample, dtype effects. Trusted: numpy copy semantics (np.array copies, "
                "arithmetic allocates), copy.deepcopy; enum members and callables may be shared.",
    },
    "C16": {
        "technique": "static analysis: scalar/array twin comparison (decision lists), syntactic differentiation + polynomial normal form, sign-domain abstract interpretation",
        "text": "Scalar-arm decision lists equal the array-arm masked assignments for index (Antarctic, Uniform) and depth_with_index "
                "(R16a: sufficient for scalar = array agreement at every depth incl. on the bounds); closed-interval contains and strict "
                "complements with the declared outside indices (R16b); d/dz of the in-range profile equals gradient[2] (R16c) and "
                "index(depth_with_index(n)) normalises to n with exp(log x) = x, clamps return the edges (R16d) -- both in exact arithmetic; "
                "the 3+3+2 attenuation shape arms use one formula and one 1 GHz split, matrix = rows depth x columns frequency (R16e); Uniform "
                "shares Antarctic's attenuation (R16f); attenuation lengths positive by the sign domain / clamp pattern (R16g); layered ice "
                "sorted, contiguous, half-open lookup with the bottom edge (R16h).",
        "note": "Not decided: monotonicity as numbers, distinguishability from the asymptote, finiteness, ArasimIce positivity (extrapolating "
                "interp1d). Trusted: PolyNF identities, sign-domain table.",
    },
    "C15": {
        "technique": "static analysis: constant folding of the shell tables, decision/partition shape rules, polynomial normal form of the chord geometry",
        "text": "Shell tables of both Earth models fold to strictly increasing radii ending at earth_radius with one density per shell (R15a); "
                "density() partitions [0,R) into half-open shells evaluated at the fractional radius on a common array path (R15b, sufficient "
                "for 'piecewise reference value, zero outside, scalar = array'); direction only through normalize (R15c: length-independent); "
                "chord geometry in normal form: discriminant, far root, sample points endpoint + ts*distance*direction with the same distance "
                "scaling the integrand, radius shift, factor 100 (R15d); early exits before the integration (R15e).",
        "note": "Not decided: convergence order in `step`, growth with dip angle, PREM polynomial values. Trusted: np.piecewise semantics, PolyNF.",
    },
    "C17": {
        "technique": "static analysis: clone comparison of the band mask, normal-form formula rules, degree-domain abstract interpretation, read-set and signature agreement",
        "text": "Band mask and frequency grid are identical clones in the FFT noise constructor and sampled function and the published "
                "frequencies are the in-band bins / linspace(f_min,f_max,endpoint=False) (R17a: all published frequencies in band); rms "
                "formula and decision in normal form, waveform Hom(1) in rms and linear in the amplitudes by the degree domain (R17b); both "
                "normalisations, DC zeroing and default basis distributions (R17c); the sampled functions read only constructor-time "
                "attributes, never self.times (R17d: function of absolute time); interchangeable signatures, published basis = what the "
                "writer stores, make_noise calls bind both implementations (R17e).",
        "note": "Not decided: RMS as a statistic, interpolation error between FFT grid points, statistical independence. Trusted: degree-domain table.",
    },
    "C13": {
        "technique": "static analysis: structured path counting (throw counter), polynomial normal form of the weight and sampling formulas, decision-table extraction",
        "text": "count += 1 is first and executes exactly once per create_event invocation, rejected throws recurse, count getters/setters are "
                "mutual inverses (R13a); survival and interaction weights equal the stated formulas in normal form incl. the -direction "
                "argument and L = L_tot/0.92/100 (R13b); shadow decision table (R13c); cumulative flavour thresholds with a separate "
                "nu/nubar draw and normalised ratio (R13d); sqrt-radius / uniform-cos sampling formulas with separate draws (R13e); the box "
                "and cylinder used for sampling, exit points and volume agree (R13f); list replay index arithmetic (R13g).",
        "note": "Not decided: uniformity/isotropy as distributions, exit-point case analysis for every direction (axis-parallel, grazing), "
                "secondaries. Necessary conditions of the weight/count clauses. Trusted: PolyNF; numpy.random draws are independent uniforms.",
    },
    "C14": {
        "technique": "static analysis: parameter-table extraction and cross-comparison, polynomial normal form, decision tables, parallel-list growth rule",
        "text": "For the default (CTW) model all 20 constants of the four cross_section arms equal the matching c_i_cc/c_i_nc of "
                "total_cross_section, the exponent polynomials coincide and the total is the sum of the two powers (R14a: sufficient for CC + NC "
                "= total at every energy); interaction lengths are 1/(N_A sigma) (R14b); primary shower-fraction table incl. 'exactly 1 for CC "
                "nu_e' and 'all hadronic for NC', NC return before the secondary loop, energy-conservation guard (R14c); complete parameter "
                "arms ending in raise (R14d); event-tree lists grow together with indices taken before the extend, iter/len over _all, "
                "get_children/get_parent inverse maps (R14e).",
        "note": "Not decided: y in [0,1], positivity/monotonicity of cross sections, sampled distributions, secondary tables. The GQRS "
                "antiparticle total differs from CC+NC by 1e-38 relative 1e-3; the property names the default model only.",
    },
    "C02": {
        "technique": "static analysis: abstract interpretation in an affine (point vs vector) domain and a swap-parity domain + decision-table rules",
        "text": "Affine domain: with the horizontal components of both endpoints of translation weight 1, every quantity of the 4 path and 4 "
                "tracer classes that must not change under a common horizontal shift comes out with weight 0 and the coordinates with weight 1; "
                "a definite mixed value names the statement that creates it (R02a, sufficient for translation invariance, all geometries). "
                "Parity domain: the ten quantities that decide existence and solution count of both gradient tracers are symmetric under "
                "exchanging the endpoints, with the pi - angle mirror and Snell conversion of the launch angle in place (R02b). Every "
                "expected_solutions table has 0 or 2 True and exists == True in it (R02c); uniform/layered exists <=> non-empty (R02d).",
        "note": "Not decided: equality of lengths/times/attenuations of the swapped path, azimuth rotation (only rho typed), non-converged root "
                "searches, LayeredRayTracer.solutions as a whole (its point construction is R18d). Trusted: domain summary tables.",
    },
    "C18": {
        "technique": "static analysis: polynomial normal form of the image-geometry formulas, clone comparison of the dzs construction, affine-domain interpretation, chain-shape rules",
        "text": "Uniform tracer: direct points, segment-sum length, tof = n0 L / c, boundary depths valid_range[(d0(-1)^i+1)//2], proportional "
                "horizontal shares (R18a); the five dz contributions and their direction cases are identical clones in tracer and path and "
                "theta = arctan2(d0 sum dz, rho) (R18b); translation invariance by the affine domain (R18c); layered chain built from consecutive "
                "points with sums/products over sub-paths (R18d, sufficient for continuity); Snell transmission with critical-angle cut-off, "
                "hemisphere preservation and pi - angle mirror at boundaries (R18e).",
        "note": "Not decided: equivalence of a split medium with the unsplit one, unit transmission, bracketing on the 91-angle grid.",
    },
    "C01": {
        "technique": "static analysis: syntactic differentiation with sqrt relations (antiderivative check), def-use pairing of trapezoid calls, clone comparison of Snell conversions, bracket rules",
        "text": "R01d proves in exact algebra that d/dz of each closed form returned by _distance_integral, _pathlen_integral and "
                "_tof_integral (general and beta~0 arms, with _int_terms inlined, modulo gamma = n^2-beta^2, alpha = n0^2-beta^2, n' = -ak e^{az}) "
                "equals beta/sqrt(gamma), n/sqrt(gamma), n^2/(c sqrt(gamma)) -- i.e. the reported radial distance, path length and time of flight "
                "are the line integrals of a ray with invariant n sin(theta) = beta, for every z, beta and ice parameters; deep arms equal the "
                "n == n0 integrand. R01a pairs all 7 trapezoid calls with the step/abscissa of the linspace they sample; R01b integrand relations "
                "(tof = pathlen * n/c, attenuation = pathlen / L_att); R01c the Snell conversions are one normal form, beta = n0 sin(theta0), "
                "z_turn = depth_with_index(beta); R01e direct flag only on the first solution, vertical flip for turned-over paths, root brackets.",
        "note": "Not decided: accuracy of the trapezoid rule for a given dz, brentq convergence / bracket validity, _z_int_uniform_correction piecing, "
                "_distance_integral_derivative (FIXME in source), deep tof (deliberate approximation), peak_angle. Trusted: the module's "
                "rational-function normal form and calculus rules.",
    },
}

_TODO = "check not built yet in this session (see DESIGN.md section 3 for the planned rules)"
NOT_APPLICABLE = {f"C{i:02d}": _TODO for i in range(1, 21) if f"C{i:02d}" not in CHECKS}
