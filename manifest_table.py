"""Table from which tools/gen_manifest.py writes MANIFEST.json."""
FIX_COMMITS = ["77a8511 (C20)", "5ffb491 (C06)", "c8070ac (C06)", "17c5c88 (C10)"]

CHECKS = {
    "C20": {
        "technique": "static analysis: exhaustive import / attribute-chain enumeration over the ast, resolved against the installed libraries",
        "text": "Every import and every attribute chain into numpy/scipy/h5py/stdlib in all 28 modules (incl. the custom sub-packages "
                "that cannot be imported here) is enumerated from the syntax tree and resolved by getattr against the installed "
                "distributions; undeclared packages must sit under an ImportError/find_spec guard. Exhaustive over the source, so it "
                "covers lines no test executes. Sufficient for 'no referenced library name is missing' on the installed versions.",
        "note": "Oracle is one installed version set (numpy 2.5.3, scipy 1.18.1, h5py 3.16, Python 3.12), not the whole declared range; "
                "attributes of runtime objects (array methods) and dynamic getattr are out of reach; trusted: CPython ast, importlib.",
    },
    "C06": {
        "technique": "static analysis: read-set closure over the MRO + path-state (typestate) analysis of in-place mutations + mechanism pattern rules",
        "text": "For all 15 LazyMutableClass subclasses: every attribute a lazy value transitively reads must be in the static-attribute "
                "list reaching LazyMutableClass.__init__ (R06a, knobs R06a'); every in-place mutation of such an attribute must be "
                "covered by _clear_cache()/static re-assignment on every path to every exit incl. explicit raises (R06b, path-state "
                "flow); the cache mechanism (prefix agreement, positive membership, unconditional store) is intact (R06c); "
                "FunctionSignal.values has the eager-definition shape (R06d). Necessary conditions stated per method, hence valid "
                "for every interleaving of reads and mutations.",
        "note": "Not decided: mutation of objects held by an attribute from outside, numerical equality of cached and fresh values. "
                "9 class-level knobs are recorded as known findings (demonstrated by known_demos/c06_knobs.py). Trusted: Python "
                "attribute protocol (obj.x = v / obj.x += v call __setattr__).",
    },
    "C10": {
        "technique": "static analysis: static signature binding of kernel call sites against every component family member + structured path counting",
        "text": "Every call and attribute use EventKernel makes on a pluggable component is bound on the syntax trees against every "
                "shipped member of the family (4 tracers, 4 path classes, 4 Askaryan models, antennas/systems incl. custom packages in "
                "thorough, 5 generators, 5 ice models, the writer) and the tracers' own path-constructor calls are bound too: the whole "
                "component cross-product of the quantifier (R10a, sufficient for 'no interface mismatch'). Path counting proves one "
                "receive and one polarization entry per ray solution on every normal path and one ray_paths.extend over the same "
                "solutions (R10b); pattern rules fix the off-cone substitution, weight cuts, trigger and writer hand-over (R10c-e).",
        "note": "Not decided: physics of nu_pol/psi, numerical alignment, user-supplied components. Frozen exception: abstract base "
                "AntennaSystem has no `position` (every concrete system assigns it). Trusted: Python call-binding rules as "
                "re-implemented in pvx/core/sigbind.py.",
    },
}

_TODO = "check not built yet in this session (see DESIGN.md section 3 for the planned rules)"
NOT_APPLICABLE = {f"C{i:02d}": _TODO for i in range(1, 21) if f"C{i:02d}" not in CHECKS}
