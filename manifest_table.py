"""Table from which tools/gen_manifest.py writes MANIFEST.json."""
FIX_COMMITS = ["77a8511 (C20)"]

CHECKS = {
    "C20": {
        "technique": "static analysis: exhaustive import / attribute-chain enumeration over the ast, resolved against the installed libraries",
        "text": "Every import and every attribute chain into numpy/scipy/h5py/stdlib in all 28 modules (incl. the custom sub-packages "
                "that cannot be imported here) is enumerated from the syntax tree and resolved by getattr against the installed "
                "distributions; undeclared packages must sit under an ImportError/find_spec guard. Exhaustive over the source, so it "
                "covers lines no test executes. Sufficient for 'no referenced library name is missing' on the installed versions.",
        "note": "Oracle is one installed version set (numpy 2.5.3, scipy 1.18.1, h5py 3.16, Python 3.12), not the whole declared range; "
                "attributes of runtime objects (array methods) and dynamic getattr are out of reach; trusted: CPython ast, importlib.",
    },
}

_TODO = "check not built yet in this session (see DESIGN.md section 3 for the planned rules)"
NOT_APPLICABLE = {f"C{i:02d}": _TODO for i in range(1, 20)}
