"""Behaviour-preserving source transformations (robustness battery).

Each transformation rewrites a module's source into a variant with exactly the same behaviour.  They are used in two places: the
thorough tier of every property applies them, in memory, to the property's anchor modules and requires the verdict to be unchanged
(no new violation, nothing undecided); tools/benign_fuzz.py applies them to every module against every property.  A verdict that
changes on such a variant is a defect of the checker (a rule that reads spelling instead of behaviour), never of pyrex.
"""
import ast

KINDS = ["reformat", "log", "rename", "negate", "flipcmp", "commute", "hoist", "inline", "elseret", "annotate", "raisemsg", "shuffle", "extract", "combo"]


# ------------------------------------------------------------------------------------------------ transformations
class RenameLocals(ast.NodeTransformer):
    """Rename every local variable (assigned names, loop targets, comprehension targets; not parameters, not globals/nonlocals)
    of every function: x -> x_r.  Nested functions see the renamed closure variables consistently."""

    def __init__(self, which=None):
        self.stack = []
        self.which = which          # rename only the n-th eligible local of each function (None = all)

    def _locals(self, fn):
        params = {a.arg for a in fn.args.posonlyargs + fn.args.args + fn.args.kwonlyargs}
        if fn.args.vararg:
            params.add(fn.args.vararg.arg)
        if fn.args.kwarg:
            params.add(fn.args.kwarg.arg)
        declared = set()
        names = []
        for n in ast.walk(fn):
            if isinstance(n, (ast.Global, ast.Nonlocal)):
                declared |= set(n.names)
        def collect(node):
            for ch in ast.iter_child_nodes(node):
                if isinstance(ch, (ast.FunctionDef, ast.Lambda, ast.ClassDef, ast.ListComp, ast.SetComp, ast.DictComp, ast.GeneratorExp)):
                    continue        # inner scopes bind their own names
                if isinstance(ch, ast.Name) and isinstance(ch.ctx, ast.Store) and ch.id not in names:
                    names.append(ch.id)
                collect(ch)
        collect(fn)
        out = [x for x in names if x not in params and x not in declared and not x.startswith("__")]
        if self.which is not None:
            out = out[self.which:self.which + 1]
        return set(out)

    def visit_FunctionDef(self, node):
        self.stack.append(self._locals(node))
        self.generic_visit(node)
        self.stack.pop()
        return node

    def visit_Lambda(self, node):
        # lambda parameters shadow
        shadow = {a.arg for a in node.args.args}
        self.stack.append(set())
        saved = [set(s) for s in self.stack]
        self.stack = [s - shadow for s in self.stack]
        self.generic_visit(node)
        self.stack = saved
        self.stack.pop()
        return node

    def visit_ListComp(self, node):
        return self._comp(node)
    visit_SetComp = visit_GeneratorExp = visit_DictComp = visit_ListComp

    def _comp(self, node):
        # comprehension targets are their own scope: leave them, but they shadow
        tg = {n.id for g in node.generators for n in ast.walk(g.target) if isinstance(n, ast.Name)}
        saved = [set(s) for s in self.stack]
        self.stack = [s - tg for s in self.stack]
        self.generic_visit(node)
        self.stack = saved
        return node

    def visit_Name(self, node):
        for scope in reversed(self.stack):
            if node.id in scope:
                node.id = node.id + "_r"
                break
        return node


class InsertLog(ast.NodeTransformer):
    def visit_FunctionDef(self, node):
        self.generic_visit(node)
        stmt = ast.parse("logger.debug('benign variant')").body[0]
        i = 1 if (node.body and isinstance(node.body[0], ast.Expr) and isinstance(node.body[0].value, ast.Constant) and isinstance(node.body[0].value.value, str)) else 0
        # do not disturb functions whose first statement must stay first for Python (none) -- insert after the docstring
        node.body.insert(i, stmt)
        return node


class NegateIf(ast.NodeTransformer):
    """if a: X else: Y  ->  if not a: Y else: X   (only plain if/else without elif, both arms non-empty)"""

    def visit_If(self, node):
        self.generic_visit(node)
        if node.orelse and not (len(node.orelse) == 1 and isinstance(node.orelse[0], ast.If)) and not (len(node.body) == 1 and isinstance(node.body[0], ast.If)):
            par_is_elif = getattr(node, "_is_elif", False)
            if not par_is_elif:
                node.test = ast.UnaryOp(op=ast.Not(), operand=node.test)
                node.body, node.orelse = node.orelse, node.body
        return node


class AugAssign(ast.NodeTransformer):
    """x op= y  ->  x = x op y   for plain local names (not attributes/subscripts: those may be in-place on arrays)"""

    def visit_AugAssign(self, node):
        if isinstance(node.target, ast.Name) and isinstance(node.op, (ast.Add, ast.Sub)) and False:
            return node
        return node


class FlipCompare(ast.NodeTransformer):
    """a < b -> b > a (single comparisons of side-effect-free operands only)."""
    FLIP = {ast.Lt: ast.Gt, ast.Gt: ast.Lt, ast.LtE: ast.GtE, ast.GtE: ast.LtE, ast.Eq: ast.Eq, ast.NotEq: ast.NotEq}

    def visit_Compare(self, node):
        self.generic_visit(node)
        if len(node.ops) == 1 and type(node.ops[0]) in self.FLIP and _pure(node.left) and _pure(node.comparators[0]):
            return ast.Compare(left=node.comparators[0], ops=[self.FLIP[type(node.ops[0])]()], comparators=[node.left])
        return node


def _pure(e):
    """no calls, no comprehension, no literal sequences / strings: evaluation order and operand order are irrelevant"""
    for n in ast.walk(e):
        if isinstance(n, (ast.Call, ast.ListComp, ast.GeneratorExp, ast.DictComp, ast.SetComp, ast.List, ast.Tuple, ast.Dict, ast.Set, ast.JoinedStr, ast.Lambda,
                          ast.IfExp, ast.NamedExpr, ast.Starred, ast.Await, ast.Yield, ast.YieldFrom)):
            return False
        if isinstance(n, ast.Constant) and isinstance(n.value, (str, bytes)):
            return False
    return True


class Commute(ast.NodeTransformer):
    """a * b -> b * a for side-effect-free numeric-looking operands."""

    def visit_BinOp(self, node):
        self.generic_visit(node)
        if isinstance(node.op, ast.Mult) and _pure(node.left) and _pure(node.right):
            node.left, node.right = node.right, node.left
        return node


class HoistTemp(ast.NodeTransformer):
    """x = f(a + b)  ->  t_k = a + b; x = f(t_k)   (first pure BinOp argument of a call in a simple Assign/Return)."""

    def __init__(self):
        self.k = 0
        self.in_fn = 0

    def visit_FunctionDef(self, node):
        self.in_fn += 1
        self.generic_visit(node)
        self.in_fn -= 1
        return node

    def _hoist(self, st):
        if not self.in_fn or not isinstance(st, (ast.Assign, ast.Return)) or st.value is None:
            return st
        call = st.value
        if not isinstance(call, ast.Call):
            return st
        for i, a in enumerate(call.args):
            if not _pure(a):
                return st               # hoisting past an impure earlier argument could reorder effects
            if isinstance(a, ast.BinOp):
                self.k += 1
                nm = f"tmp_h{self.k}"
                call.args[i] = ast.Name(id=nm, ctx=ast.Load())
                return [ast.Assign(targets=[ast.Name(id=nm, ctx=ast.Store())], value=a), st]
        return st

    def generic_visit(self, node):
        super().generic_visit(node)
        for field in ("body", "orelse", "finalbody"):
            seq = getattr(node, field, None)
            if isinstance(seq, list) and seq and isinstance(seq[0], ast.stmt):
                out = []
                for st in seq:
                    r = self._hoist(st)
                    out.extend(r if isinstance(r, list) else [r])
                setattr(node, field, out)
        return node


class InlineTemp(ast.NodeTransformer):
    """x = <pure expr>; <next simple statement using x exactly once, x never used again in the function>  ->  substitute."""

    def visit_FunctionDef(self, node):
        self.generic_visit(node)
        loads = {}
        stores = {}
        for n in ast.walk(node):
            if isinstance(n, ast.Name):
                (loads if isinstance(n.ctx, ast.Load) else stores).setdefault(n.id, []).append(n)
        def walk_seq(seq):
            i = 0
            while i + 1 < len(seq):
                a, b = seq[i], seq[i + 1]
                if (isinstance(a, ast.Assign) and len(a.targets) == 1 and isinstance(a.targets[0], ast.Name) and _pure(a.value)
                        and isinstance(b, (ast.Assign, ast.Return, ast.Expr)) and not any(isinstance(t, ast.Lambda) for t in ast.walk(b))):
                    x = a.targets[0].id
                    uses_b = [n for n in ast.walk(b) if isinstance(n, ast.Name) and n.id == x and isinstance(n.ctx, ast.Load)]
                    written = {n.id for t in (b.targets if isinstance(b, ast.Assign) else []) for n in ast.walk(t) if isinstance(n, ast.Name)}
                    lazy = any(isinstance(t, (ast.ListComp, ast.SetComp, ast.DictComp, ast.GeneratorExp, ast.IfExp, ast.BoolOp)) and any(m is uu for uu in uses_b for m in ast.walk(t))
                               for t in ast.walk(b))      # a conditionally evaluated position would change when a failing lookup raises
                    if not lazy and len(stores.get(x, [])) == 1 and len(loads.get(x, [])) == 1 and len(uses_b) == 1 and not (written & {n.id for n in ast.walk(a.value) if isinstance(n, ast.Name)}):
                        class Sub(ast.NodeTransformer):
                            def visit_Name(s, n):
                                return a.value if (n.id == x and isinstance(n.ctx, ast.Load)) else n
                        seq[i + 1] = Sub().visit(b)
                        del seq[i]
                        continue
                i += 1
        for n in ast.walk(node):
            for field in ("body", "orelse", "finalbody"):
                seq = getattr(n, field, None)
                if isinstance(seq, list) and seq and isinstance(seq[0], ast.stmt):
                    walk_seq(seq)
        return node


class ElseAfterReturn(ast.NodeTransformer):
    """if c: ...; return X  else: Y   <->   if c: ...; return X;  Y      (both directions: an else is removed when present, added
    when the if is the last-but-rest of a function body)"""
    TERM = (ast.Return, ast.Raise)

    def _seq(self, seq):
        out = []
        i = 0
        while i < len(seq):
            st = seq[i]
            if isinstance(st, ast.If) and st.body and isinstance(st.body[-1], self.TERM):
                if st.orelse and not (len(st.orelse) == 1 and isinstance(st.orelse[0], ast.If)):
                    tail = st.orelse
                    st.orelse = []
                    out.append(st)
                    out.extend(tail)
                    i += 1
                    continue
                if not st.orelse and i + 1 < len(seq):
                    st.orelse = seq[i + 1:]
                    out.append(st)
                    return out
            out.append(st)
            i += 1
        return out

    def generic_visit(self, node):
        super().generic_visit(node)
        for field in ("body", "orelse", "finalbody"):
            seq = getattr(node, field, None)
            if isinstance(seq, list) and seq and isinstance(seq[0], ast.stmt) and not isinstance(node, (ast.Module, ast.ClassDef)):
                setattr(node, field, self._seq(seq))
        return node


class Annotate(ast.NodeTransformer):
    def visit_FunctionDef(self, node):
        self.generic_visit(node)
        for a in node.args.args:
            if a.arg not in ("self", "cls") and a.annotation is None:
                a.annotation = ast.Constant(value="object")
        return node


class RaiseMessages(ast.NodeTransformer):
    def visit_Raise(self, node):
        if isinstance(node.exc, ast.Call):
            for a in node.exc.args:
                for m in ast.walk(a):
                    if isinstance(m, ast.Constant) and isinstance(m.value, str):
                        m.value = m.value + " (reworded)"
        return node


class ShuffleMembers(ast.NodeTransformer):
    """plain methods (no decorators) of every class are moved to the end of the class body in reverse order; module-level functions
    likewise (after everything else they may need at definition time -- only undecorated ones are moved)"""

    def _shuffle(self, body):
        plain = [st for st in body if isinstance(st, ast.FunctionDef) and not st.decorator_list]
        names = [st.name for st in body if isinstance(st, ast.FunctionDef)]
        plain = [st for st in plain if names.count(st.name) == 1]
        rest = [st for st in body if st not in plain]
        return rest + plain[::-1]

    def visit_ClassDef(self, node):
        self.generic_visit(node)
        # class-level statements that *use* a method at class-creation time (e.g. property(fget)) keep their order w.r.t. it
        uses = {n.id for st in node.body if not isinstance(st, ast.FunctionDef) for n in ast.walk(st) if isinstance(n, ast.Name)}
        if not any(isinstance(st, ast.FunctionDef) and st.name in uses for st in node.body):
            node.body = self._shuffle(node.body)
        return node


class ExtractHelper(ast.NodeTransformer):
    """x = <pure BinOp over plain names>  ->  x = self._vh_k(a, b) with a new method `_vh_k(self, a, b): return <expr>` (methods), or a
    new module-level function for module-level functions; first eligible statement of each function"""

    def __init__(self):
        self.k = 0
        self.cls = []
        self.new_module = []

    def visit_ClassDef(self, node):
        self.cls.append([])
        self.generic_visit(node)
        node.body.extend(self.cls.pop())
        return node

    def visit_FunctionDef(self, node):
        in_class = bool(self.cls) and node.args.args and node.args.args[0].arg == "self" and not node.decorator_list
        top = not self.cls
        if not (in_class or top) or getattr(self, "_inside", False):
            return node
        self._inside = True
        done = False
        for holder in ast.walk(node):
            if done:
                break
            if isinstance(holder, (ast.Lambda, ast.ListComp, ast.GeneratorExp, ast.DictComp, ast.SetComp)) or (isinstance(holder, ast.FunctionDef) and holder is not node):
                continue
            for field in ("body", "orelse"):
                seq = getattr(holder, field, None)
                if not (isinstance(seq, list) and seq and isinstance(seq[0], ast.stmt)):
                    continue
                for st in seq:
                    if isinstance(st, ast.Assign) and len(st.targets) == 1 and isinstance(st.targets[0], ast.Name) and isinstance(st.value, ast.BinOp) and _pure(st.value):
                        names = []
                        okay = True
                        for n in ast.walk(st.value):
                            if isinstance(n, ast.Name):
                                if n.id not in names:
                                    names.append(n.id)
                            elif isinstance(n, (ast.Attribute, ast.Subscript)):
                                okay = False
                        # only locals / parameters as operands (module globals would still resolve, but keep it simple)
                        local = {m.id for m in ast.walk(node) if isinstance(m, ast.Name) and isinstance(m.ctx, ast.Store)} | {a.arg for a in node.args.args}
                        if not okay or not names or not all(n in local for n in names) or "self" in names:
                            continue
                        self.k += 1
                        hname = f"_vh_{self.k}"
                        args = ast.arguments(posonlyargs=[], args=([ast.arg(arg="self")] if in_class else []) + [ast.arg(arg=n) for n in names], kwonlyargs=[], kw_defaults=[], defaults=[])
                        helper = ast.FunctionDef(name=hname, args=args, body=[ast.Return(value=st.value)], decorator_list=[], returns=None, type_comment=None, type_params=[])
                        fn_ref = ast.Attribute(value=ast.Name(id="self", ctx=ast.Load()), attr=hname, ctx=ast.Load()) if in_class else ast.Name(id=hname, ctx=ast.Load())
                        st.value = ast.Call(func=fn_ref, args=[ast.Name(id=n, ctx=ast.Load()) for n in names], keywords=[])
                        (self.cls[-1] if in_class else self.new_module).append(helper)
                        done = True
                        break
                if done:
                    break
        self._inside = False
        return node

    def visit_Module(self, node):
        self.generic_visit(node)
        # module-level helpers go right after the imports so they exist before any module-level use
        k = 0
        while k < len(node.body) and (isinstance(node.body[k], (ast.Import, ast.ImportFrom)) or (isinstance(node.body[k], ast.Expr) and isinstance(node.body[k].value, ast.Constant))):
            k += 1
        node.body[k:k] = self.new_module
        return node


def mark_elifs(tree):
    for n in ast.walk(tree):
        if isinstance(n, ast.If) and len(n.orelse) == 1 and isinstance(n.orelse[0], ast.If):
            n.orelse[0]._is_elif = True


COMBO = ["rename", "flipcmp", "commute", "hoist", "elseret", "annotate", "raisemsg", "log"]


def transform(src, kind, arg=None):
    if kind == "combo":
        for k in COMBO:
            nxt = transform(src, k)
            src = nxt if nxt is not None else src
        return src
    tree = ast.parse(src)
    if kind == "reformat":
        pass
    elif kind == "rename":
        RenameLocals().visit(tree)
    elif kind.startswith("rename1"):
        RenameLocals(which=arg).visit(tree)
    elif kind == "log":
        if "logger" not in src:
            return None
        InsertLog().visit(tree)
    elif kind == "negate":
        mark_elifs(tree)
        NegateIf().visit(tree)
    elif kind == "flipcmp":
        tree = FlipCompare().visit(tree)
    elif kind == "commute":
        tree = Commute().visit(tree)
    elif kind == "hoist":
        tree = HoistTemp().visit(tree)
    elif kind == "inline":
        tree = InlineTemp().visit(tree)
    elif kind == "elseret":
        tree = ElseAfterReturn().visit(tree)
    elif kind == "annotate":
        tree = Annotate().visit(tree)
    elif kind == "raisemsg":
        tree = RaiseMessages().visit(tree)
    elif kind == "shuffle":
        tree = ShuffleMembers().visit(tree)
    elif kind == "extract":
        tree = ExtractHelper().visit(tree)
    else:
        raise ValueError(kind)
    ast.fix_missing_locations(tree)
    out = ast.unparse(tree)
    compile(out, "<variant>", "exec")
    return out + "\n"


