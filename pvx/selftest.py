"""In-memory self-test: seeded faults must be reported by the named rule, benign variants must stay silent, and the robustness
battery (pvx/variants.py: 14 behaviour-preserving transformations of each anchor module) must leave the verdict unchanged.

A rule module may define
  SELFTEST = {"faults": [ {"name", "file", "old", "new", "rule", "construct"(optional substring)} ],
              "benign": [ {"name", "file", "old", "new"} ]}
`old` must occur exactly once in `file`; if it does not (the anchored text was edited), the variant is
recorded as skipped -- a self-test never turns an edit of /repo into an alarm.
"""
import json
import multiprocessing as mp
import pathlib

from .core import report
from .core.source import Repo
from . import variants

_G = {}


def _apply(src, old, new, occurrence=None):
    """replace the only occurrence of `old` (or the n-th, 1-based, when `occurrence` is given)"""
    if occurrence is None:
        if src.count(old) != 1:
            return None
        return src.replace(old, new)
    pos = -1
    for _ in range(occurrence):
        pos = src.find(old, pos + 1)
        if pos < 0:
            return None
    return src[:pos] + new + src[pos + len(old):]


def anchor_files(prop, st):
    """modules the robustness battery rewrites for a property: its anchor files (properties.jsonl) and every file its fault catalogue
    edits (the rules read those too)"""
    files = []
    try:
        f = pathlib.Path(__file__).resolve().parents[1] / "properties.jsonl"
        for line in f.read_text().splitlines():
            if line.strip():
                d = json.loads(line)
                if d.get("id") == prop:
                    files += [x for x in d.get("anchors", {}).get("files", []) if x.startswith("pyrex/") and x.endswith(".py")]
    except Exception:
        pass
    for v in (st or {}).get("faults", []):
        for e in (v.get("edits") or [v]):
            if e.get("file", "").startswith("pyrex/"):
                files.append(e["file"])
    out = []
    for x in files:
        if x not in out:
            out.append(x)
    return out


def _variant(args):
    _, v = args
    mod, repo, prop, base_keys, base_unknown = _G["mod"], _G["repo"], _G["prop"], _G["keys"], _G["unk"]
    src = repo.sources_by_path.get(v["file"])
    if src is None:
        return ("variant", v["name"], "skipped", "file not present")
    try:
        new_src = variants.transform(src, v["kind"])
    except Exception as e:
        return ("variant", v["name"], "skipped", f"transformation not applicable ({type(e).__name__})")
    if new_src is None:
        return ("variant", v["name"], "skipped", "transformation not applicable")
    try:
        r2 = Repo(repo.root, overrides={v["file"]: new_src}, base=repo)
        ctx = report.Ctx(r2, prop, "quick")
        mod.run(ctx)
        from .cli import new_guard_rule
        new_guard_rule(ctx, prop)
    except Exception as e:
        return ("variant", v["name"], "fail", f"analysis raised {type(e).__name__}: {e}")
    new = [o for o in ctx.violations() if o.key not in base_keys]
    unk = {o.key for o in ctx.obs if o.status == report.UNKNOWN and o.required} - base_unknown
    if new or unk:
        return ("variant", v["name"], "fail", "behaviour-preserving variant flagged: " + "; ".join([o.key for o in new[:3]] + sorted(unk)[:3]))
    return ("variant", v["name"], "ok", f"{sum(len(q) for q in r2.restored.values())} functions recognised as equivalent to their reference")


def _one(args):
    kind, v = args
    if kind == "variant":
        return _variant(args)
    mod, repo, prop, base_keys, base_unknown = _G["mod"], _G["repo"], _G["prop"], _G["keys"], _G["unk"]
    edits = v.get("edits") or [{"file": v["file"], "old": v["old"], "new": v["new"], "occurrence": v.get("occurrence")}]
    overrides = {}
    for e in edits:
        src = overrides.get(e["file"], repo.sources_by_path.get(e["file"]))
        if src is None:
            return (kind, v["name"], "skipped", "file not present")
        out = _apply(src, e["old"], e["new"], e.get("occurrence"))
        if out is None:
            return (kind, v["name"], "skipped", "anchor text not found exactly once")
        overrides[e["file"]] = out
    try:
        r2 = Repo(repo.root, overrides=overrides, base=repo)
        ctx = report.Ctx(r2, prop, "quick")
        if kind == "fault":
            ctx.ALIGN_MAX = 10 ** 6     # the catalogue tests the rules themselves; the alignment gate (report.Ctx.bad) is tested by its own entries
        mod.run(ctx)
        from .cli import new_guard_rule
        new_guard_rule(ctx, prop)
    except Exception as e:  # a variant that breaks the analysis is a failure of the checker
        if kind == "fault" and v.get("rule") == "ANALYSIS-ERROR":
            return (kind, v["name"], "ok", "analysis error as expected")
        return (kind, v["name"], "fail", f"analysis raised {type(e).__name__}: {e}")
    new = [o for o in ctx.violations() if o.key not in base_keys]
    if kind == "fault":
        want = v["rule"]
        rules = want if isinstance(want, (list, tuple)) else [want]
        hit = [o for o in new if o.rule in rules and v.get("construct", "") in o.construct]
        if hit:
            return (kind, v["name"], "ok", hit[0].key)
        return (kind, v["name"], "fail", f"expected {want} on '{v.get('construct', '')}', new findings: "
                + "; ".join(o.key for o in new[:3]))
    unk = {o.key for o in ctx.obs if o.status == report.UNKNOWN and o.required} - base_unknown
    if v.get("silent"):
        # a twin of a fault that repairs exactly what one rule objects to (e.g. a completely keyed memo): only that rule is asked to be silent --
        # the variant is not behaviour-preserving in the sense of the other entries, and other rules may have their say
        new = [o for o in new if o.rule in v["silent"]]
        unk = set()
    if new or unk:
        return (kind, v["name"], "fail", "benign variant flagged: " + "; ".join([o.key for o in new[:3]] + sorted(unk)[:3]))
    return (kind, v["name"], "ok", "")


def run_selftest(mod, repo, prop, ctx):
    st = getattr(mod, "SELFTEST", None)
    if not st:
        return {"faults": 0, "benign": 0, "failures": [], "note": "no catalogue for this property"}
    _G.update(mod=mod, repo=repo, prop=prop, keys=set(ctx.finding_keys()),
              unk={o.key for o in ctx.obs if o.status == report.UNKNOWN and o.required})
    jobs = [("fault", v) for v in st.get("faults", [])] + [("benign", v) for v in st.get("benign", [])]
    jobs += [("variant", {"name": f"{k}:{f}", "kind": k, "file": f}) for f in anchor_files(prop, st) for k in variants.KINDS]
    if len(jobs) > 2:
        with mp.get_context("fork").Pool(min(16, len(jobs))) as pool:
            res = pool.map(_one, jobs)
    else:
        res = [_one(j) for j in jobs]
    out = {"faults": sum(1 for k, *_ in res if k == "fault"), "benign": sum(1 for k, *_ in res if k == "benign"),
           "detected": sum(1 for k, n, s, d in res if k == "fault" and s == "ok"),
           "silent": sum(1 for k, n, s, d in res if k == "benign" and s == "ok"),
           "robustness_variants": sum(1 for k, *_ in res if k == "variant"),
           "robustness_silent": sum(1 for k, n, s, d in res if k == "variant" and s == "ok"),
           "robustness_kinds": list(variants.KINDS),
           "skipped": [n for k, n, s, d in res if s == "skipped"],
           "failures": [f"{k} '{n}': {d}" for k, n, s, d in res if s == "fail"],
           "results": [{"kind": k, "name": n, "status": s, "detail": d} for k, n, s, d in res]}
    return out
