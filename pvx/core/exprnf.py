"""Spike: general expression normal form (PolyNF) from Python AST with copy propagation.

nf(expr, env) -> Rat over atoms. Atoms are canonical strings:
  - residual source (names not in env, attribute chains, subscripts) after alias normalisation
  - opaque applications  f(<nf args>)
Rational exponents are supported on atoms (sqrt(x) = x**(1/2) when x is a single monomial).
"""
import ast
from fractions import Fraction as Fr

class Poly:
    __slots__ = ("t",)
    def __init__(s, t=None): s.t = {k: v for k, v in (t or {}).items() if v != 0}
    @staticmethod
    def const(c): return Poly({(): Fr(c)})
    @staticmethod
    def atom(a, e=1): return Poly({((a, Fr(e)),): Fr(1)})
    def __add__(s, o):
        t = dict(s.t)
        for k, v in o.t.items(): t[k] = t.get(k, 0) + v
        return Poly(t)
    def __neg__(s): return Poly({k: -v for k, v in s.t.items()})
    def __sub__(s, o): return s + (-o)
    def __mul__(s, o):
        t = {}
        for k1, v1 in s.t.items():
            for k2, v2 in o.t.items():
                d = dict(k1)
                for a, e in k2: d[a] = d.get(a, 0) + e
                k = tuple(sorted((a, e) for a, e in d.items() if e))
                t[k] = t.get(k, 0) + v1 * v2
        return Poly(t)
    def is_zero(s): return not s.t
    def is_const(s): return all(k == () for k in s.t)
    def monomial(s): return len(s.t) == 1
    def key(s): return tuple(sorted((k, v) for k, v in s.t.items()))
    def __repr__(s):
        def mono(k): return "*".join(a if e == 1 else f"{a}^{e}" for a, e in k) or "1"
        return " + ".join(f"{v}*{mono(k)}" for k, v in sorted(s.t.items())) or "0"

class Rat:
    def __init__(s, num, den=None):
        s.num = num if isinstance(num, Poly) else Poly.const(num)
        s.den = den if isinstance(den, Poly) else Poly.const(1 if den is None else den)
        s._norm()
    def _norm(s):
        # move negative exponents across and cancel monomial denominators
        if s.den.monomial():
            (k, c), = s.den.t.items()
            inv = Poly({tuple((a, -e) for a, e in k): 1 / c})
            s.num, s.den = s.num * inv, Poly.const(1)
        # clear negative exponents in num by multiplying num and den
        neg = {}
        for k in s.num.t:
            for a, e in k:
                if e < 0: neg[a] = min(neg.get(a, 0), e)
        if neg and s.den.is_const() and False:
            pass
    def __add__(s, o): o = R(o); return Rat(s.num * o.den + o.num * s.den, s.den * o.den)
    __radd__ = __add__
    def __neg__(s): return Rat(-s.num, s.den)
    def __sub__(s, o): return s + (-R(o))
    def __rsub__(s, o): return R(o) - s
    def __mul__(s, o): o = R(o); return Rat(s.num * o.num, s.den * o.den)
    __rmul__ = __mul__
    def __truediv__(s, o): o = R(o); return Rat(s.num * o.den, s.den * o.num)
    def __rtruediv__(s, o): return R(o) / s
    def pow(s, e):
        e = Fr(e)
        if e.denominator == 1:
            n = int(e)
            r = Rat(1)
            for _ in range(abs(n)): r = r * s
            return r if n >= 0 else Rat(1) / r
        if s.den.is_const() and s.num.monomial():
            (k, c), = s.num.t.items()
            c = c / list(s.den.t.values())[0]
            coef = Poly.atom(f"{c}", e) if c != 1 else Poly.const(1)
            return Rat(Poly({tuple((a, x * e) for a, x in k): Fr(1)}) * coef)
        name = "(" + s.key_str() + ")"
        _ROOT_REG[name] = s
        return Rat(Poly.atom(name, e))
    def equals(s, o):
        o = R(o); return (s.num * o.den - o.num * s.den).is_zero()
    def key_str(s):
        return repr(s.num) if s.den.is_const() and list(s.den.t.values()) == [1] else f"[{s.num!r}]/[{s.den!r}]"
    def __repr__(s): return s.key_str()
def R(x): return x if isinstance(x, Rat) else Rat(x)


_ROOT_REG = {}      # atom name "(<normal form>)" of a non-monomial base raised to a fractional power -> the base


def expand_roots(r):
    """Rewrite integer powers of registered root atoms by their bases:  ((X)^(1/2))^2 -> X.  Applied until nothing changes."""
    def expand_poly(p):
        out = Rat(0)
        changed = False
        for mono, coef in p.t.items():
            term = Rat(Poly({(): coef}))
            for a, e in mono:
                if a in _ROOT_REG and Fr(e).denominator == 1:
                    term = term * _ROOT_REG[a].pow(e)
                    changed = True
                else:
                    term = term * Rat(Poly.atom(a, e))
            out = out + term
        return out, changed
    for _ in range(6):
        n, c1 = expand_poly(r.num)
        d, c2 = expand_poly(r.den)
        r = n / d
        if not (c1 or c2):
            break
    return r

ALIASES = {"np": "numpy"}
FUNC_EQ = {"numpy.sqrt": ("pow", Fr(1, 2)), "numpy.square": ("pow", 2)}
TRANSPARENT = {"numpy.asarray", "numpy.array", "float", "numpy.atleast_1d"}

class NF:
    def __init__(s, env=None, atoms=None, unknown_ok=True):
        s.env = env or {}          # local name -> ast expr (copy propagation)
        s.atoms = atoms or {}      # source text -> canonical atom name (role binding)
        s.logs = {}                # atom name of log(X) -> normal form of X   (exp(log X) = X)
    def dotted(s, n):
        src = ast.unparse(n)
        head = src.split(".")[0]
        return ALIASES.get(head, head) + src[len(head):]
    def nf(s, n):
        src = ast.unparse(n)
        if src in s.atoms: return Rat(Poly.atom(s.atoms[src]))
        if isinstance(n, ast.Constant):
            if isinstance(n.value, bool) or not isinstance(n.value, (int, float)): return Rat(Poly.atom(repr(n.value)))
            return Rat(Fr(str(n.value)))
        if isinstance(n, ast.Name):
            if n.id in s.env: return s.nf(s.env[n.id])
            return Rat(Poly.atom(n.id))
        if isinstance(n, ast.UnaryOp) and isinstance(n.op, ast.USub): return -s.nf(n.operand)
        if isinstance(n, ast.UnaryOp) and isinstance(n.op, ast.UAdd): return s.nf(n.operand)
        if isinstance(n, ast.BinOp):
            l, r = s.nf(n.left), s.nf(n.right)
            if isinstance(n.op, ast.Add): return l + r
            if isinstance(n.op, ast.Sub): return l - r
            if isinstance(n.op, ast.Mult): return l * r
            if isinstance(n.op, ast.Div): return l / r
            if isinstance(n.op, ast.Pow):
                if r.num.is_const() and r.den.is_const():
                    e = (list(r.num.t.values()) or [Fr(0)])[0] / list(r.den.t.values())[0]
                    return l.pow(e)
                return Rat(Poly.atom(f"pow({l!r},{r!r})"))
        if isinstance(n, ast.Call):
            f = s.dotted(n.func)
            args = [s.nf(a) for a in n.args]
            if f in TRANSPARENT and len(args) == 1 and not n.keywords: return args[0]
            if f == "numpy.sqrt" and len(args) == 1 and args[0].den.is_const() and args[0].num.monomial():
                # sqrt(sum(v**2)) == norm(v)
                (k, c), = args[0].num.t.items()
                if c == list(args[0].den.t.values())[0] and len(k) == 1 and k[0][1] == 1 and k[0][0].startswith("sum(") and k[0][0].endswith("^2)"):
                    inner = k[0][0][4:-3]
                    if inner.startswith("1*") and "+" not in inner and " " not in inner.strip():
                        return Rat(Poly.atom(f"norm({inner})"))
            if f in FUNC_EQ and len(args) == 1: return args[0].pow(FUNC_EQ[f][1])
            if f in ("numpy.log", "math.log") and len(args) == 1:
                name = f"numpy.log({args[0]!r})"
                s.logs[name] = args[0]
                return Rat(Poly.atom(name))
            if f in ("numpy.exp", "math.exp") and len(args) == 1:
                a = args[0]
                # exp(log X) = X
                if a.den.is_const() and a.num.monomial():
                    (k, c), = a.num.t.items()
                    c = c / list(a.den.t.values())[0]
                    if c == 1 and len(k) == 1 and k[0][1] == 1 and k[0][0] in s.logs:
                        return s.logs[k[0][0]]
                # canonical sign: exp(-x) = exp(x)^-1 ; choose the variant whose repr sorts first
                pos, neg = repr(a), repr(-a)
                if neg < pos: return Rat(1) / Rat(Poly.atom(f"exp({neg})"))
                return Rat(Poly.atom(f"exp({pos})"))
            if f in ("numpy.linalg.norm",) and len(args) == 1:
                return Rat(Poly.atom(f"norm({args[0]!r})"))
            if f == "numpy.sum" and len(n.args) == 1:
                return Rat(Poly.atom(f"sum({args[0]!r})"))
            kw = ",".join(f"{k.arg}={s.nf(k.value)!r}" for k in n.keywords)
            return Rat(Poly.atom(f"{f}({','.join(map(repr, args))}{',' + kw if kw else ''})"))
        if isinstance(n, ast.Subscript) and isinstance(n.slice, ast.Constant) and isinstance(n.slice.value, int):
            # (a - b)[i] == a[i] - b[i] : constant indexing distributes over element-wise sums (also through a propagated local)
            base = n.value
            if isinstance(base, ast.Name) and base.id in s.env:
                base = s.env[base.id]
            if isinstance(base, ast.BinOp) and isinstance(base.op, (ast.Add, ast.Sub)):
                l = s.nf(ast.Subscript(value=base.left, slice=n.slice, ctx=ast.Load()))
                r = s.nf(ast.Subscript(value=base.right, slice=n.slice, ctx=ast.Load()))
                return l + r if isinstance(base.op, ast.Add) else l - r
            if base is not n.value:
                return Rat(Poly.atom(ast.unparse(ast.Subscript(value=base, slice=n.slice, ctx=ast.Load()))))
        if isinstance(n, ast.Attribute) or isinstance(n, ast.Subscript):
            return Rat(Poly.atom(src))
        return Rat(Poly.atom(src))

def norm_sqrt_sum_squares(r):
    """sum(x^2)^(1/2) == norm(x)"""
    return r

def local_env(fn):
    """single-assignment locals of a function body -> {name: expr}; names assigned twice are dropped."""
    count, env = {}, {}
    for n in ast.walk(fn):
        if isinstance(n, ast.Assign) and len(n.targets) == 1 and isinstance(n.targets[0], ast.Name):
            count[n.targets[0].id] = count.get(n.targets[0].id, 0) + 1
            env[n.targets[0].id] = n.value
        elif isinstance(n, (ast.AugAssign, ast.For)) :
            t = n.target
            for x in ast.walk(t):
                if isinstance(x, ast.Name): count[x.id] = count.get(x.id, 0) + 2
    return {k: v for k, v in env.items() if count.get(k) == 1}

def parse_expr(src): return ast.parse(src, mode="eval").body
