"""Static `inspect.Signature.bind`: an ast.Call against an ast.FunctionDef."""
import ast


def bind(call, fn, bound_method=True):
    """Return None if the call binds (or cannot be decided because of *args/**kwargs at the call), else a message."""
    a = fn.args
    params = [p.arg for p in a.posonlyargs + a.args]
    posonly = {p.arg for p in a.posonlyargs}
    if bound_method and params:
        params = params[1:]
    ndef = len(a.defaults)
    required = set(params[: len(params) - ndef]) if ndef else set(params)
    kwonly = [p.arg for p in a.kwonlyargs]
    kwreq = {p.arg for p, d in zip(a.kwonlyargs, a.kw_defaults) if d is None}
    npos = 0
    for arg in call.args:
        if isinstance(arg, ast.Starred):
            return None
        npos += 1
    if npos > len(params) and a.vararg is None:
        return f"too many positional arguments ({npos} > {len(params)})"
    filled = set(params[:npos])
    for kw in call.keywords:
        if kw.arg is None:
            return None
        if kw.arg in filled:
            return f"multiple values for argument '{kw.arg}'"
        if (kw.arg in params and kw.arg not in posonly) or kw.arg in kwonly:
            filled.add(kw.arg)
        elif a.kwarg is None:
            return f"unexpected keyword argument '{kw.arg}'"
    missing = (required | kwreq) - filled
    if missing:
        return f"missing required argument(s) {sorted(missing)}"
    return None


def param_names(fn, bound_method=True):
    a = fn.args
    params = [p.arg for p in a.posonlyargs + a.args]
    if bound_method and params:
        params = params[1:]
    return params + [p.arg for p in a.kwonlyargs]
