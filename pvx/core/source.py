"""Source loading, class table, MRO and member resolution for /repo/pyrex (stdlib `ast` only).

`pyrex` is never imported.  A Repo can be built from the working tree or from the working tree
plus in-memory overrides ({relative path: source text}) -- the latter is how the self-test
applies seeded faults and benign variants without touching the disk.
"""
import ast
import hashlib
import pathlib
import warnings


class AnalysisError(Exception):
    """The analysis cannot be carried out (missing anchor, unparsable file, ...) -> exit 2."""


INERT_CALL_PREFIXES = ("logger.", "logging.")


def strip_inert(tree):
    """Analysis view of a module: logging calls used as statements are semantically inert for every property and are removed at load
    time (`pass` fills a body that would become empty, and is otherwise dropped), so that adding or removing a log line can never
    change a verdict.  Line numbers of the remaining nodes are untouched."""
    for node in ast.walk(tree):
        for field in ("body", "orelse", "finalbody"):
            body = getattr(node, field, None)
            if not isinstance(body, list) or not body or not isinstance(body[0], ast.stmt):
                continue
            kept = []
            for st in body:
                if isinstance(st, ast.Expr) and isinstance(st.value, ast.Call) and ast.unparse(st.value.func).startswith(INERT_CALL_PREFIXES):
                    continue
                if isinstance(st, ast.Pass):
                    continue
                kept.append(st)
            if not kept and field == "body":
                kept = [ast.Pass(lineno=getattr(body[0], "lineno", 1), col_offset=getattr(body[0], "col_offset", 0),
                                 end_lineno=getattr(body[0], "end_lineno", 1), end_col_offset=getattr(body[0], "end_col_offset", 0))]
            setattr(node, field, kept)
    return tree


def normalise_if_polarity(tree):
    """`if not X: A else: B` (a plain two-armed if, no elif on either side) is read as `if X: B else: A`: the polarity in which a
    two-way decision is written never matters to a verdict."""
    for node in ast.walk(tree):
        if not isinstance(node, ast.If):
            continue
        while (isinstance(node.test, ast.UnaryOp) and isinstance(node.test.op, ast.Not) and node.orelse
               and not (len(node.orelse) == 1 and isinstance(node.orelse[0], ast.If))
               and not (len(node.body) == 1 and isinstance(node.body[0], ast.If) and node.body[0].orelse)):
            node.test = node.test.operand
            node.body, node.orelse = node.orelse, node.body
    return tree


def set_parents(tree):
    for node in ast.walk(tree):
        for ch in ast.iter_child_nodes(node):
            ch._parent = node


def parent(node):
    return getattr(node, "_parent", None)


def enclosing(node, types):
    n = parent(node)
    while n is not None and not isinstance(n, types):
        n = parent(n)
    return n


def unparse(node):
    """Normalised text of a node (never deep-copies: nodes carry _parent links)."""
    return ast.unparse(node)


class Repo:
    PKG = "pyrex"

    def __init__(self, root="/repo", overrides=None, base=None):
        self.root = pathlib.Path(root)
        self.overrides = dict(overrides or {})
        self.modules = {}      # dotted name -> ast.Module
        self.paths = {}        # dotted name -> relative path
        self.digest = {}
        self.sources = {}
        files = {}
        pkgdir = self.root / self.PKG
        if not pkgdir.is_dir():
            raise AnalysisError(f"package directory {pkgdir} not found")
        for p in sorted(pkgdir.rglob("*.py")):
            rel = str(p.relative_to(self.root))
            files[rel] = None
        for rel in self.overrides:
            if rel.endswith(".py") and rel.startswith(self.PKG + "/"):
                files[rel] = None
        with warnings.catch_warnings():
            warnings.simplefilter("ignore")
            for rel in sorted(files):
                name = ".".join(pathlib.PurePosixPath(rel).with_suffix("").parts)
                if name.endswith(".__init__"):
                    name = name[: -len(".__init__")]
                if rel in self.overrides:
                    src = self.overrides[rel]
                elif base is not None and rel in base.sources_by_path:
                    # unchanged module: share the parsed tree (rules never mutate trees)
                    self.modules[name] = base.modules[name]
                    self.paths[name] = rel
                    self.digest[name] = base.digest[name]
                    self.sources[name] = base.sources[name]
                    continue
                else:
                    src = (self.root / rel).read_text()
                try:
                    tree = ast.parse(src, filename=rel)
                except SyntaxError as e:
                    raise AnalysisError(f"cannot parse {rel}: {e}")
                strip_inert(tree)
                normalise_if_polarity(tree)
                set_parents(tree)
                tree._modname = name
                self.modules[name] = tree
                self.paths[name] = rel
                self.digest[name] = hashlib.sha256(src.encode()).hexdigest()[:12]
                self.sources[name] = src
        self.sources_by_path = {self.paths[m]: self.sources[m] for m in self.modules}
        self.classes = {}      # "mod.Class" -> ClassInfo
        self.by_name = {}      # bare name -> [ClassInfo]
        self.imports = {}      # module -> {local name: dotted target}
        self.aliases = {}      # module -> {name: name}   module-level  X = Y
        self.functions = {}    # "mod.func" -> FunctionDef
        for mname, tree in self.modules.items():
            imp, ali = {}, {}
            for st in tree.body:
                self._collect_import(mname, st, imp)
                if (isinstance(st, ast.Assign) and len(st.targets) == 1
                        and isinstance(st.targets[0], ast.Name)
                        and isinstance(st.value, ast.Name)):
                    ali[st.targets[0].id] = st.value.id
                if isinstance(st, ast.ClassDef):
                    ci = ClassInfo(self, mname, st)
                    self.classes[ci.qual] = ci
                    self.by_name.setdefault(st.name, []).append(ci)
                if isinstance(st, ast.FunctionDef):
                    self.functions[mname + "." + st.name] = st
            self.imports[mname] = imp
            self.aliases[mname] = ali

    # ------------------------------------------------------------------ setup.py (C20)
    def setup_source(self):
        rel = "setup.py"
        if rel in self.overrides:
            return self.overrides[rel]
        p = self.root / rel
        if not p.exists():
            raise AnalysisError("setup.py not found")
        return p.read_text()

    def _collect_import(self, mname, st, imp):
        if isinstance(st, ast.Import):
            for a in st.names:
                imp[a.asname or a.name.split(".")[0]] = a.name if a.asname else a.name.split(".")[0]
        elif isinstance(st, ast.ImportFrom):
            base = self.abs_from(mname, st)
            for a in st.names:
                imp[a.asname or a.name] = base + "." + a.name
        elif isinstance(st, (ast.Try, ast.If)):
            for sub in ast.iter_child_nodes(st):
                if isinstance(sub, ast.stmt):
                    self._collect_import(mname, sub, imp)
                elif isinstance(sub, ast.ExceptHandler):
                    for s2 in sub.body:
                        self._collect_import(mname, s2, imp)

    def abs_from(self, mname, st):
        base = st.module or ""
        if st.level:
            parts = mname.split(".")
            is_pkg = self.paths[mname].endswith("__init__.py")
            up = parts if is_pkg else parts[:-1]
            up = up[: len(up) - (st.level - 1)]
            base = ".".join(up + ([st.module] if st.module else []))
        return base

    def resolve_class(self, mname, name, _seen=()):
        """Resolve a bare class name used in module `mname` to a ClassInfo (or None)."""
        if (mname, name) in _seen:
            return None
        _seen = _seen + ((mname, name),)
        q = mname + "." + name
        if q in self.classes:
            return self.classes[q]
        if name in self.aliases.get(mname, {}):
            return self.resolve_class(mname, self.aliases[mname][name], _seen)
        tgt = self.imports.get(mname, {}).get(name)
        if tgt and tgt.startswith(self.PKG):
            m, _, n = tgt.rpartition(".")
            if m in self.modules:
                return self.resolve_class(m, n, _seen)
        return None

    def resolve_function(self, mname, name, _seen=()):
        """Resolve a bare function name used in module `mname` to (module, FunctionDef) or None."""
        if (mname, name) in _seen:
            return None
        _seen = _seen + ((mname, name),)
        q = mname + "." + name
        if q in self.functions:
            return mname, self.functions[q]
        tgt = self.imports.get(mname, {}).get(name)
        if tgt and tgt.startswith(self.PKG):
            m, _, n = tgt.rpartition(".")
            if m in self.modules:
                return self.resolve_function(m, n, _seen)
        return None

    # ------------------------------------------------------------------ anchors
    def cls(self, qual):
        ci = self.classes.get(qual)
        if ci is None:
            raise AnalysisError(f"anchor class {qual} not found")
        return ci

    def member(self, qual, name, kinds=None):
        """FunctionDef of member `name` *defined in* class `qual` (AnalysisError if absent)."""
        ci = self.cls(qual)
        ent = ci.methods.get(name)
        if ent is None:
            raise AnalysisError(f"anchor {qual}.{name} not found")
        if kinds and ent[0] not in kinds:
            raise AnalysisError(f"anchor {qual}.{name} is a {ent[0]}, expected {kinds}")
        return ent[1]

    def lookup(self, qual, name):
        """Resolve member through the MRO -> (owner ClassInfo, kind, node); AnalysisError if absent."""
        ci = self.cls(qual)
        owner, ent = ci.lookup(name)
        if ent is None:
            raise AnalysisError(f"anchor {qual}.{name} not resolvable through the MRO")
        return owner, ent[0], ent[1]

    def func(self, qual):
        fn = self.functions.get(qual)
        if fn is None:
            raise AnalysisError(f"anchor function {qual} not found")
        return fn

    def subclasses(self, name, strict=True):
        out = []
        for ci in self.classes.values():
            if ci.is_subclass_of(name) and not (strict and (ci.name == name or ci.qual == name)):
                out.append(ci)
        return out

    def rel(self, mname):
        return self.paths.get(mname, mname)


class ClassInfo:
    def __init__(self, repo, mname, node):
        self.repo, self.module, self.node = repo, mname, node
        self.name = node.name
        self.qual = mname + "." + node.name
        self.methods = {}       # name -> (kind, FunctionDef); setters under "name.setter"
        self.class_attrs = {}   # name -> value expr
        self._mro = None
        for st in node.body:
            if isinstance(st, ast.FunctionDef):
                kind = "method"
                for d in st.decorator_list:
                    s = ast.unparse(d)
                    if s == "property":
                        kind = "property"
                    elif s == "lazy_property":
                        kind = "lazy"
                    elif s.endswith(".setter"):
                        kind = "setter"
                    elif s.endswith(".deleter"):
                        kind = "deleter"
                    elif s == "staticmethod":
                        kind = "static"
                    elif s == "classmethod":
                        kind = "classmethod"
                if kind == "setter":
                    self.methods.setdefault(st.name + ".setter", (kind, st))
                elif kind == "deleter":
                    self.methods.setdefault(st.name + ".deleter", (kind, st))
                else:
                    self.methods[st.name] = (kind, st)
            elif isinstance(st, ast.Assign):
                for t in st.targets:
                    if isinstance(t, ast.Name):
                        self.class_attrs[t.id] = st.value
            elif isinstance(st, ast.AnnAssign) and isinstance(st.target, ast.Name) and st.value is not None:
                self.class_attrs[st.target.id] = st.value

    def bases(self):
        out = []
        for b in self.node.bases:
            ci = None
            if isinstance(b, ast.Name):
                ci = self.repo.resolve_class(self.module, b.id)
            elif isinstance(b, ast.Attribute):
                # module.Class  (e.g. ice_model.AntarcticIce)
                head = b.value
                if isinstance(head, ast.Name):
                    tgt = self.repo.imports.get(self.module, {}).get(head.id)
                    if tgt and tgt in self.repo.modules:
                        ci = self.repo.resolve_class(tgt, b.attr)
            if ci:
                out.append(ci)
        return out

    def mro(self):
        if self._mro is not None:
            return self._mro

        def merge(seqs):
            res = []
            seqs = [list(s) for s in seqs if s]
            while seqs:
                for s in seqs:
                    h = s[0]
                    if not any(h in t[1:] for t in seqs):
                        break
                else:
                    raise AnalysisError(f"MRO conflict for {self.qual}")
                res.append(h)
                seqs = [[x for x in s if x is not h] for s in seqs]
                seqs = [s for s in seqs if s]
            return res
        bs = self.bases()
        self._mro = [self] + merge([b.mro() for b in bs] + [bs])
        return self._mro

    def lookup(self, name):
        for c in self.mro():
            if name in c.methods:
                return c, c.methods[name]
            if name in c.class_attrs:
                return c, ("classattr", c.class_attrs[name])
        return None, None

    def is_subclass_of(self, qual_or_name):
        return any(c.qual == qual_or_name or c.name == qual_or_name for c in self.mro())

    def __repr__(self):
        return f"<ClassInfo {self.qual}>"
