"""Spike: min/max number of matching events along every path of structured code.

outcomes: 'fall' | 'return' | 'raise' | 'break' | 'continue'; value: (min, max) counts, max may be inf.
"""
import ast, math
INF = math.inf

def add(a, b): return (a[0] + b[0], a[1] + b[1])
def union(a, b):
    if a is None: return b
    if b is None: return a
    return (min(a[0], b[0]), max(a[1], b[1]))

def count_expr(node, pred):
    n = 0
    for x in ast.walk(node):
        if pred(x): n += 1
    return n

def seq(stmts, pred, handlers_catch=False):
    """Return dict outcome -> (min,max) for a statement list."""
    cur = {"fall": (0, 0)}
    for st in stmts:
        if "fall" not in cur:
            break
        base = cur.pop("fall")
        res = stmt(st, pred)
        for k, v in res.items():
            cur[k] = union(cur.get(k), add(base, v))
    return cur

def stmt(st, pred):
    if isinstance(st, (ast.FunctionDef, ast.ClassDef, ast.Lambda)):
        return {"fall": (0, 0)}
    if isinstance(st, ast.Return):
        c = count_expr(st, pred); return {"return": (c, c)}
    if isinstance(st, ast.Raise):
        c = count_expr(st, pred); return {"raise": (c, c)}
    if isinstance(st, ast.Break): return {"break": (0, 0)}
    if isinstance(st, ast.Continue): return {"continue": (0, 0)}
    if isinstance(st, ast.If):
        c = count_expr(st.test, pred)
        out = {}
        for branch in (st.body, st.orelse):
            for k, v in seq(branch, pred).items():
                out[k] = union(out.get(k), add((c, c), v))
        return out
    if isinstance(st, (ast.For, ast.While)):
        head = count_expr(st.iter if isinstance(st, ast.For) else st.test, pred)
        body = seq(st.body, pred)
        out = {}
        per_iter = None
        for k in ("fall", "continue", "break"):
            per_iter = union(per_iter, body.get(k))
        anyev = per_iter is not None and per_iter[1] > 0
        loop = (0, INF if anyev else 0)
        out["fall"] = add((head, head), loop)
        for k in ("return", "raise"):
            if k in body: out[k] = add((head, head), (body[k][0], INF if anyev else body[k][1]))
        els = seq(st.orelse, pred)
        f = out.pop("fall")
        for k, v in els.items(): out[k] = union(out.get(k), add(f, v))
        return out
    if isinstance(st, ast.Try):
        body = seq(st.body, pred)
        out = {}
        # normal completion of body -> else -> fall
        if "fall" in body:
            for k, v in seq(st.orelse, pred).items():
                out[k] = union(out.get(k), add(body["fall"], v))
        for k in ("return", "break", "continue"):
            if k in body: out[k] = union(out.get(k), body[k])
        # an exception may leave the body after any prefix: count range [0, max over body]
        bmax = max((v[1] for v in body.values()), default=0)
        prefix = (0, bmax)
        if st.handlers:
            for h in st.handlers:
                for k, v in seq(h.body, pred).items():
                    out[k] = union(out.get(k), add(prefix, v))
        else:
            if "raise" in body: out["raise"] = union(out.get("raise"), body["raise"])
        if st.finalbody:
            fin = seq(st.finalbody, pred)
            out = {k: add(v, fin.get("fall", (0, 0))) for k, v in out.items()}
        return out
    if isinstance(st, ast.With):
        c = sum(count_expr(i.context_expr, pred) for i in st.items)
        return {k: add((c, c), v) for k, v in seq(st.body, pred).items()}
    c = count_expr(st, pred)
    return {"fall": (c, c)}

if __name__ == "__main__":
    import sys
    from core import Repo
    repo = Repo(sys.argv[1] if len(sys.argv) > 1 else "/repo")
    ev = repo.classes["pyrex.kernel.EventKernel"].methods["event"][1]
    is_call = lambda name, recv=None: (lambda n: isinstance(n, ast.Call) and isinstance(n.func, ast.Attribute)
                                       and n.func.attr == name and (recv is None or ast.unparse(n.func.value) == recv))
    for loop in ast.walk(ev):
        if isinstance(loop, ast.For) and ast.unparse(loop.iter) == "rt.solutions":
            print("per path: ant.receive        ", seq(loop.body, is_call("receive", "ant")))
            print("per path: polarizations.append", seq(loop.body, is_call("append", "polarizations[i]")))
        if isinstance(loop, ast.For) and ast.unparse(loop.target) == "(i, ant)":
            print("per antenna: ray_paths extend ", seq(loop.body, is_call("extend", "ray_paths[i]")))
    # R03b: shift exactly once per returned signal in the polarized branch
    for q in ["pyrex.ray_tracing.BasicRayTracePath", "pyrex.ray_tracing.UniformRayTracePath",
              "pyrex.custom.layered_ice.ray_tracing.LayeredRayTracePath"]:
        fn = repo.classes[q].methods["propagate"][1]
        for nm in ("signal_s", "signal_p", "new_signal"):
            print(q.split(".")[-1], nm, "shift:", seq(fn.body, is_call("shift", nm)), " filter:", seq(fn.body, is_call("filter_frequencies", nm)))
    ce = repo.classes["pyrex.generation.Generator"].methods["create_event"][1]
    inc = lambda n: isinstance(n, ast.AugAssign) and ast.unparse(n.target) == "self.count"
    print("create_event count increments:", seq(ce.body, inc))


# =====================================================================================================
# Path-state flow: propagate a finite set of abstract states along every path of structured code.
#
#   flow(stmts, step, states) -> {outcome: set(states)}     outcomes: fall/return/raise/break/continue
#   step(node, state) -> state      is called for every simple statement and for every test / iterator
#                                   expression, in execution order.
# Exceptions: explicit `raise` ends a path with outcome 'raise'; a `try` handler may be entered from any
# state seen inside its body (before or after any statement).  Implicit exceptions outside a `try` are
# not modelled (they end the method without a further event).
# =====================================================================================================
def flow(stmts, step, states, _seen=None):
    out = {}
    cur = set(states)
    for st in stmts:
        if not cur:
            break
        res = _flow_stmt(st, step, cur, _seen)
        cur = res.pop("fall", set())
        for k, v in res.items():
            out.setdefault(k, set()).update(v)
    out["fall"] = cur
    return out


def _apply(node, step, states, seen):
    new = {step(node, s) for s in states}
    if seen is not None:
        seen.update(new)
    return new


def _flow_stmt(st, step, states, seen):
    if isinstance(st, (ast.FunctionDef, ast.ClassDef, ast.AsyncFunctionDef)):
        return {"fall": set(states)}
    if isinstance(st, ast.Return):
        return {"return": _apply(st, step, states, seen)}
    if isinstance(st, ast.Raise):
        return {"raise": _apply(st, step, states, seen)}
    if isinstance(st, ast.Break):
        return {"break": set(states)}
    if isinstance(st, ast.Continue):
        return {"continue": set(states)}
    if isinstance(st, ast.If):
        s0 = _apply(st.test, step, states, seen)
        out = {}
        for branch in (st.body, st.orelse):
            for k, v in flow(branch, step, s0, seen).items():
                out.setdefault(k, set()).update(v)
        return out
    if isinstance(st, (ast.For, ast.While)):
        head_expr = st.iter if isinstance(st, ast.For) else st.test
        out = {}
        head = _apply(head_expr, step, states, seen)
        exits = set()
        visited = set()
        work = set(head)
        while work - visited:
            cur = work - visited
            visited |= cur
            body = flow(st.body, step, cur, seen)
            nxt = body.get("fall", set()) | body.get("continue", set())
            if isinstance(st, ast.While):
                nxt = _apply(head_expr, step, nxt, seen)
            work |= nxt
            exits |= body.get("break", set())
            for k in ("return", "raise"):
                if k in body:
                    out.setdefault(k, set()).update(body[k])
        normal = visited           # loop condition false / iterator exhausted at any head state
        els = flow(st.orelse, step, normal, seen)
        for k, v in els.items():
            out.setdefault(k, set()).update(v)
        out.setdefault("fall", set()).update(exits)
        return out
    if isinstance(st, ast.Try):
        inner_seen = set(states)
        body = flow(st.body, step, states, inner_seen)
        if seen is not None:
            seen.update(inner_seen)
        out = {}
        if body.get("fall"):
            for k, v in flow(st.orelse, step, body["fall"], seen).items():
                out.setdefault(k, set()).update(v)
        for k in ("return", "break", "continue"):
            if body.get(k):
                out.setdefault(k, set()).update(body[k])
        if st.handlers:
            entry = set(inner_seen) | body.get("raise", set())
            for h in st.handlers:
                for k, v in flow(h.body, step, entry, seen).items():
                    out.setdefault(k, set()).update(v)
            # an exception type not caught by the handlers still propagates
            if body.get("raise") and not any(h.type is None for h in st.handlers):
                out.setdefault("raise", set()).update(body["raise"])
        elif body.get("raise"):
            out.setdefault("raise", set()).update(body["raise"])
        if st.finalbody:
            res = {}
            for k, v in out.items():
                fin = flow(st.finalbody, step, v, seen)
                res.setdefault(k, set()).update(fin.pop("fall", set()))
                for k2, v2 in fin.items():
                    res.setdefault(k2, set()).update(v2)
            out = res
        return out
    if isinstance(st, ast.With):
        s0 = states
        for i in st.items:
            s0 = _apply(i.context_expr, step, s0, seen)
        return flow(st.body, step, s0, seen)
    return {"fall": _apply(st, step, states, seen)}
