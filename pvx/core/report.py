"""Obligations, findings, known-findings matching, evidence and replay files."""
import hashlib
import json
import os
import pathlib
import re
import time

VERIF = pathlib.Path(__file__).resolve().parents[2]
KNOWN_FILE = VERIF / "known_findings.jsonl"
EVIDENCE_DIR = VERIF / "evidence"
REPLAY_DIR = EVIDENCE_DIR / "replay"

OK, BAD, UNKNOWN = "proved", "violated", "undecided"


def norm(text):
    return re.sub(r"\s+", " ", str(text)).strip()


class Ob:
    """One obligation = one rule instance evaluated on one construct."""
    __slots__ = ("rule", "construct", "what", "status", "detail", "key_detail", "required", "loc", "kind", "pointed")

    def __init__(self, rule, construct, what, status, detail="", key_detail=None, required=True, loc=None, kind=""):
        self.rule, self.construct, self.what, self.status = rule, construct, norm(what), status
        self.detail = norm(detail)
        self.key_detail = norm(key_detail if key_detail is not None else what)
        self.required, self.loc, self.kind = required, loc, kind
        self.pointed = False

    @property
    def key(self):
        return f"{self.rule}|{self.construct}|{self.key_detail}"

    def as_dict(self):
        d = {"rule": self.rule, "construct": self.construct, "obligation": self.what, "status": self.status}
        if self.detail:
            d["found"] = self.detail
        if self.loc:
            d["loc"] = self.loc
        return d


class Ctx:
    """Collects the obligations of one property run over one Repo."""

    def __init__(self, repo, prop, tier="quick"):
        self.repo, self.prop, self.tier = repo, prop, tier
        self.obs = []
        self.notes = []
        self.analysed = {}          # free-form counters: functions, call sites, ...
        self.not_decided = []
        self.trusted = []
        self.rule_texts = {}
        self.expected = {}          # rule -> minimum instance count confirmed by hand

    # -- registration helpers
    def rule(self, rid, text, expected=None, kind=""):
        self.rule_texts[rid] = (text, kind)
        if expected is not None:
            self.expected[rid] = expected

    def loc(self, mod, node):
        if node is None or not hasattr(node, "lineno"):
            return self.repo.rel(mod) if mod else None
        return f"{self.repo.rel(mod)}:{node.lineno}"

    def ok(self, rule, construct, what, detail="", loc=None):
        self.obs.append(Ob(rule, construct, what, OK, detail, loc=loc))

    # A finding is a VIOLATION when it is *pointed*: the function it is anchored in still has its confirmed form, or differs from it
    # by at most ALIGN_MAX canonical lines (a slip: a wrong variable, a dropped call, a changed condition).  When the function was
    # restructured beyond that, the rules -- which read the confirmed form -- can no longer be aligned with it: what they report
    # there is recorded as *undecided* (exit 2, the function has to be re-confirmed), never as a violation.  Rules that do not read
    # the shape of the function at all (ROBUST_RULES) are exempt.
    ALIGN_MAX = int(__import__('os').environ.get('PVX_ALIGN_MAX', '8'))     # (the environment variable exists for the threshold study in DESIGN.md 2.2a only)
    ROBUST_RULES = ("R20",)

    def restructured(self, construct):
        """canonical line count by which the function a construct is anchored in differs from its confirmed form, if that is more
        than ALIGN_MAX (else None).  A construct in an unchanged function is judged by the smallest change anywhere: if every
        change on the tree is a restructuring, a finding elsewhere is most likely its echo."""
        changed = getattr(self.repo, "changed", None) or {}
        if not changed:
            return None
        c = construct.split("->")[0]
        if c in ((getattr(self.repo, "unfolded", None) or {}).get("<new>") or ()):
            return (c, "is a function the confirmed tree does not have; a rule that reads confirmed forms cannot judge it, and it")
        best = None
        for q, n in changed.items():
            q0 = q.split("#")[0]
            if c == q0 or c.startswith(q0 + ".") or c.startswith(q0 + "->"):
                if best is None or len(q0) > len(best[0]):
                    best = (q0, n)
        if best is not None:
            left = (getattr(self.repo, "unfolded", None) or {}).get(best[0])
            if left and best[1] <= self.ALIGN_MAX:
                return (best[0], f"calls {', '.join(left)} (new; could not be read back into the function) and")
            return best if best[1] > self.ALIGN_MAX else None
        smallest = min(changed.items(), key=lambda kv: kv[1])
        return smallest if smallest[1] > self.ALIGN_MAX else None

    def bad(self, rule, construct, what, detail="", key_detail=None, loc=None, pointed=False):
        """`pointed=True`: the finding is positive evidence read off one statement (e.g. "this attribute is assigned a shallow copy"), whose
        meaning does not depend on the shape of the rest of the function -- it is reported whatever else changed (no alignment gate)."""
        r = None if (pointed or rule.upper().startswith(self.ROBUST_RULES)) else self.restructured(construct)
        if r is not None and Ob(rule, construct, what, BAD, detail, key_detail=key_detail).key in known_keys(self.prop):
            r = None            # a listed finding of the confirmed tree is what it is, whatever else changed
        if r is not None:
            ob = Ob(rule, construct, what, UNKNOWN, f"{r[0]} {'differs from its confirmed form by ' + str(r[1]) + ' canonical lines (more than ' + str(self.ALIGN_MAX) + ')' if isinstance(r[1], int) else r[1] + ' differs from its confirmed form'}: the rule "
                    f"cannot be aligned with the restructured function; it reads: {detail}"[:600], key_detail=key_detail, required=True, loc=loc)
            self.obs.append(ob)
            return
        ob = Ob(rule, construct, what, BAD, detail, key_detail=key_detail, loc=loc)
        ob.pointed = bool(pointed)
        self.obs.append(ob)

    def unknown(self, rule, construct, what, detail="", required=True, loc=None):
        self.obs.append(Ob(rule, construct, what, UNKNOWN, detail, required=required, loc=loc))

    def check(self, cond, rule, construct, what, detail="", key_detail=None, loc=None, pointed=False):
        if cond:
            self.ok(rule, construct, what, detail, loc=loc)
        else:
            self.bad(rule, construct, what, detail, key_detail=key_detail, loc=loc, pointed=pointed)
        return bool(cond)

    def guard(self, fn, *args):
        """Run one rule function; an unexpected shape that makes the rule itself fail is recorded as an undecided, required
        obligation (-> exit 2 unless another rule reports a violation) instead of aborting the other rules."""
        from .source import AnalysisError
        try:
            fn(self, *args)
        except AnalysisError as e:
            # a pointed finding already reported stands on its own statement: a shape rule that then loses its anchor is recorded as
            # undecided (still exit 2 on its own) instead of aborting the run and hiding the finding.  Pointed rules therefore run first.
            if not any(o.status == BAD and getattr(o, "pointed", False) for o in self.obs):
                raise
            self.unknown(fn.__name__.upper(), f"{fn.__module__.split('.')[-1]}.{fn.__name__}", "the rule finds its anchor", str(e), required=True)
        except Exception as e:       # noqa: BLE001 - deliberately broad: any crash of a rule is "no longer decidable"
            import traceback
            tb = traceback.extract_tb(e.__traceback__)[-1]
            self.unknown(fn.__name__.upper().replace("R", "R", 1), f"{fn.__module__.split('.')[-1]}.{fn.__name__}", "the rule can be evaluated on this tree",
                         f"{type(e).__name__}: {e} (at {tb.filename.split('/')[-1]}:{tb.lineno})", required=True)

    def count(self, name, n=1):
        self.analysed[name] = self.analysed.get(name, 0) + n

    def violations(self):
        return [o for o in self.obs if o.status == BAD]

    def finding_keys(self):
        return sorted({o.key for o in self.violations()})


# ------------------------------------------------------------------ known findings
def load_known():
    out = []
    if KNOWN_FILE.exists():
        for line in KNOWN_FILE.read_text().splitlines():
            line = line.strip()
            if line and not line.startswith("#"):
                out.append(json.loads(line))
    return out


def known_keys(prop):
    return {k["key"]: k for k in load_known() if k.get("status") == "known" and k.get("property") == prop}


# ------------------------------------------------------------------ evidence / replay
def write_replay(prop, ob):
    REPLAY_DIR.mkdir(parents=True, exist_ok=True)
    h = hashlib.sha256(ob.key.encode()).hexdigest()[:8]
    p = REPLAY_DIR / f"{prop}-{h}.json"
    p.write_text(json.dumps({"property": prop, "key": ob.key, "rule": ob.rule, "construct": ob.construct,
                             "obligation": ob.what, "found": ob.detail, "loc": ob.loc,
                             "replay": f"./check {prop} --replay {p}"}, indent=1) + "\n")
    return p


def write_evidence(prop, tier, seed, ctx, meta, wall, n_viol, selftest=None, extra=None):
    EVIDENCE_DIR.mkdir(parents=True, exist_ok=True)
    obs = ctx.obs
    req = [o for o in obs if o.required]
    proved = [o for o in obs if o.status == OK]
    undec = [o for o in obs if o.status == UNKNOWN]
    viol = [o for o in obs if o.status == BAD]
    per_rule = {}
    for o in obs:
        r = per_rule.setdefault(o.rule, {"instances": 0, "proved": 0, "violated": 0, "undecided": 0})
        r["instances"] += 1
        r[o.status] += 1
    for rid, (text, kind) in ctx.rule_texts.items():
        r = per_rule.setdefault(rid, {"instances": 0, "proved": 0, "violated": 0, "undecided": 0})
        r["text"] = text
        if kind:
            r["kind"] = kind
        if rid in ctx.expected:
            r["instances_expected_min"] = ctx.expected[rid]
    distinct = len({(o.rule, o.construct, o.key_detail) for o in obs})
    samples = []
    seen_rules = set()
    for o in viol + undec + proved:
        if o.rule in seen_rules and len(samples) >= 12 and o.status == OK:
            continue
        if len(samples) >= 40:
            break
        seen_rules.add(o.rule)
        samples.append(o.as_dict())
    cov = {
        "explanation": meta.get("explanation", ""),
        "obligations": len(obs),
        "discharged": len(proved),
        "undecided": len(undec),
        "violated": len(viol),
        "evaluations": len(obs),
        "distinct_nontrivial": distinct,
        "rule": meta.get("rule", "one evaluation = one rule instance on one construct of the working tree; "
                                 "distinct = distinct (rule, construct, obligation) triples; an instance is "
                                 "non-trivial when the rule found its construct and had a real decision to make "
                                 "(vacuous matches are not recorded)"),
        "samples": samples,
        "rules": per_rule,
        "analysed": ctx.analysed,
        "modules": {ctx.repo.paths[m]: ctx.repo.digest[m] for m in sorted(ctx.repo.modules)},
        "read_in_reference_spelling": {m: q for m, q in sorted(getattr(ctx.repo, "restored", {}).items())},
        "functions_differing_from_confirmed_form": dict(sorted(getattr(ctx.repo, "changed", {}).items())),
        "alignment_rule": f"a finding anchored in a function that differs from its confirmed form by more than {Ctx.ALIGN_MAX} canonical lines is recorded as undecided, not as a violation",
        "trusted_base": meta.get("trusted_base", []) + ctx.trusted,
        "checker_cmd": f"./check {prop} --tier {tier}",
        "exhaustive": bool(meta.get("exhaustive", False)),
        "not_decided": meta.get("not_decided", []) + ctx.not_decided,
        "notes": ctx.notes[:50],
    }
    if selftest is not None:
        cov["selftest"] = selftest
    if extra:
        cov.update(extra)
    ev = {
        "property_id": prop, "tier": tier, "seed": seed, "level": "other",
        "coverage": cov,
        "assumptions": meta.get("assumptions", []),
        "wall_s": round(wall, 3),
        "violations": n_viol,
    }
    p = EVIDENCE_DIR / f"{prop}.json"
    tmp = p.with_suffix(".json.tmp")
    tmp.write_text(json.dumps(ev, indent=1, default=str) + "\n")
    os.replace(tmp, p)
    return p
