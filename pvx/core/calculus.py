"""Syntactic derivative d/dx on Python expression trees (returns a new expression tree; compare results with exprnf.NF)."""
import ast


def num(v):
    return ast.Constant(value=v)


def mul(a, b):
    return ast.BinOp(left=a, op=ast.Mult(), right=b)


def add(a, b):
    return ast.BinOp(left=a, op=ast.Add(), right=b)


def sub(a, b):
    return ast.BinOp(left=a, op=ast.Sub(), right=b)


def div(a, b):
    return ast.BinOp(left=a, op=ast.Div(), right=b)


def pw(a, k):
    return ast.BinOp(left=a, op=ast.Pow(), right=k)


class NotDifferentiable(Exception):
    pass


EXP = {"np.exp", "numpy.exp", "math.exp"}
LOG = {"np.log", "numpy.log", "math.log"}
SQRT = {"np.sqrt", "numpy.sqrt", "math.sqrt"}
SIN = {"np.sin", "numpy.sin", "math.sin"}
COS = {"np.cos", "numpy.cos", "math.cos"}
TRANSPARENT = {"np.asarray", "np.array", "numpy.asarray", "numpy.array", "float"}


def depends(e, var, env):
    for n in ast.walk(e):
        if isinstance(n, ast.Name):
            if n.id == var:
                return True
            if n.id in env and depends(env[n.id], var, env):
                return True
    return False


def ddx(e, var, env=None):
    """d e / d var ; names in env ({name: expr}) are expanded (copy propagation); other names are constants."""
    env = env or {}
    if isinstance(e, ast.Constant):
        return num(0)
    if isinstance(e, ast.Name):
        if e.id == var:
            return num(1)
        if e.id in env:
            return ddx(env[e.id], var, env)
        return num(0)
    if isinstance(e, (ast.Attribute, ast.Subscript)):
        if depends(e, var, env):
            raise NotDifferentiable(ast.unparse(e))
        return num(0)
    if isinstance(e, ast.UnaryOp):
        if isinstance(e.op, ast.USub):
            return ast.UnaryOp(op=ast.USub(), operand=ddx(e.operand, var, env))
        if isinstance(e.op, ast.UAdd):
            return ddx(e.operand, var, env)
    if isinstance(e, ast.BinOp):
        a, b = e.left, e.right
        if isinstance(e.op, ast.Add):
            return add(ddx(a, var, env), ddx(b, var, env))
        if isinstance(e.op, ast.Sub):
            return sub(ddx(a, var, env), ddx(b, var, env))
        if isinstance(e.op, ast.Mult):
            return add(mul(ddx(a, var, env), b), mul(a, ddx(b, var, env)))
        if isinstance(e.op, ast.Div):
            return div(sub(mul(ddx(a, var, env), b), mul(a, ddx(b, var, env))), pw(b, num(2)))
        if isinstance(e.op, ast.Pow):
            if not depends(b, var, env):
                return mul(mul(b, pw(a, sub(b, num(1)))), ddx(a, var, env))
            raise NotDifferentiable("variable exponent: " + ast.unparse(e))
    if isinstance(e, ast.Call):
        f = ast.unparse(e.func)
        if len(e.args) == 1 and not e.keywords:
            x = e.args[0]
            dx = ddx(x, var, env)
            if f in TRANSPARENT:
                return dx
            if f in EXP:
                return mul(e, dx)
            if f in LOG:
                return div(dx, x)
            if f in SQRT:
                return div(dx, mul(num(2), e))
            if f in SIN:
                return mul(ast.Call(func=ast.parse("np.cos", mode="eval").body, args=[x], keywords=[]), dx)
            if f in COS:
                return ast.UnaryOp(op=ast.USub(), operand=mul(ast.Call(func=ast.parse("np.sin", mode="eval").body, args=[x], keywords=[]), dx))
        if not depends(e, var, env):
            return num(0)
        raise NotDifferentiable(ast.unparse(e)[:60])
    if not depends(e, var, env):
        return num(0)
    raise NotDifferentiable(type(e).__name__)
