"""Symbolic length domain: arrays carry a length, ints carry a value; both are linear forms over symbols."""
import ast
from fractions import Fraction as Fr
from ..ai import Tup, Obj, Fn, Cls, Mod, Bound, STRUCT, const_value

class Lin:
    def __init__(s, terms=None, c=0): s.t = {k: Fr(v) for k, v in (terms or {}).items() if v}; s.c = Fr(c)
    def __add__(s, o):
        t = dict(s.t)
        for k, v in o.t.items(): t[k] = t.get(k, 0) + v
        return Lin(t, s.c + o.c)
    def scale(s, k): return Lin({a: v * k for a, v in s.t.items()}, s.c * k)
    def __sub__(s, o): return s + o.scale(-1)
    def __eq__(s, o): return isinstance(o, Lin) and s.t == o.t and s.c == o.c
    def ge(s, o):
        d = s - o
        return all(v >= 0 for v in d.t.values()) and d.c >= 0
    def const(s): return s.c if not s.t else None
    def __repr__(s):
        parts = [f"{v}*{k}" if v != 1 else k for k, v in s.t.items()] + ([str(s.c)] if s.c or not s.t else [])
        return "+".join(parts)

class L:
    """kind: arr (length lin) | int (value lin) | unk | bad"""
    __slots__ = ("kind", "lin", "why")
    def __init__(s, kind, lin=None, why=""): s.kind, s.lin, s.why = kind, lin, why
    def __repr__(s): return {"arr": f"Arr[{s.lin}]", "int": f"Int[{s.lin}]", "unk": "?", "bad": f"BAD[{s.why}]"}[s.kind]

class Length:
    name = "length"
    pure_shortcut = False
    def __init__(s):
        s.U = L("unk"); s.Z = L("unk"); s.obligations = []
        s.facts = []        # [(big Lin, small Lin)]: linear facts  big >= small  supplied by the driver for one arm
    def arr(s, lin): return L("arr", lin)
    def int_(s, lin): return L("int", lin)
    def sym(s, name): return Lin({name: 1})
    def top(s, why=""): return L("unk")
    def const(s, v):
        if isinstance(v, int) and not isinstance(v, bool): return L("int", Lin(c=v))
        return L("unk")
    def flat(s, v): return v
    def is_untracked(s, v): return False
    def field_default(s, obj, name): return L("unk")
    def iter_elem(s, v): return L("unk")
    def pysum(s, v): return L("unk")
    def join(s, a, b):
        if a is None: return b
        if b is None: return a
        if a.kind == b.kind and a.kind in ("arr", "int") and a.lin == b.lin: return a
        if "bad" in (a.kind, b.kind): return a if a.kind == "bad" else b
        return L("unk")
    def neg(s, a): return L("int", a.lin.scale(-1)) if a.kind == "int" else a
    def _elementwise(s, a, b, what):
        if a.kind == "arr" and b.kind == "arr":
            ok = a.lin == b.lin
            s.obligations.append((what, repr(a), repr(b), ok))
            return a if ok else L("bad", why=f"{what}: operand lengths {a.lin} and {b.lin} differ")
        if a.kind == "arr": return a
        if b.kind == "arr": return b
        return None
    def binop(s, op, a, b, lit_l, lit_r):
        r = s._elementwise(a, b, type(op).__name__)
        if r is not None: return r
        if a.kind == "int" and b.kind == "int":
            if isinstance(op, ast.Add): return L("int", a.lin + b.lin)
            if isinstance(op, ast.Sub): return L("int", a.lin - b.lin)
            if isinstance(op, ast.Mult):
                if a.lin.const() is not None: return L("int", b.lin.scale(a.lin.const()))
                if b.lin.const() is not None: return L("int", a.lin.scale(b.lin.const()))
        return L("unk")
    def compare(s, vals, node): return L("unk")
    def tracked_branch(s, c, a, b, it): return it.vjoin(a, b)
    def subscript(s, v, sl, idx):
        if v.kind == "arr" and isinstance(sl, ast.Slice) and sl.lower is None and sl.step is None and sl.upper is not None:
            up = s.interp.flat(s.interp.eval(sl.upper, s.scope, 0)) if getattr(s, "scope", None) is not None else None
            if up is not None and up.kind == "int":
                if v.lin.ge(up.lin) or any(v.lin == b and up.lin == sm for b, sm in s.facts): return L("arr", up.lin)
                if up.lin.ge(v.lin): return v
        return L("unk") if v.kind != "arr" or not isinstance(sl, ast.Slice) else L("unk")
    def attribute(s, v, name):
        if name in ("real", "imag", "T"): return v
        return Bound(v, name)
    def method(s, v, name, args, node): return v if name in ("copy", "astype", "conj") else L("unk")
    def store_attr(s, o, name, v): return o if name in ("imag", "real") else None
    def store_subscript(s, cur, sl, v): return cur
    def summary(s, name, args, kwargs, node):
        it = s.interp
        fa = [it.flat(a) if not isinstance(a, Tup) else a for a in args]
        fk = {k: it.flat(v) for k, v in kwargs.items()}
        if name == "len": return L("int", fa[0].lin) if isinstance(fa[0], L) and fa[0].kind == "arr" else L("unk")
        if name in ("numpy.zeros", "numpy.ones"):
            return L("arr", fa[0].lin) if isinstance(fa[0], L) and fa[0].kind == "int" else L("unk")
        if name == "numpy.concatenate":
            items = args[0].items if isinstance(args[0], Tup) else []
            tot = Lin()
            for x in items:
                x = it.flat(x)
                if x.kind != "arr": return L("unk")
                tot = tot + x.lin
            return L("arr", tot)
        if name in ("scipy.fft.fft", "scipy.fft.ifft", "numpy.fft.fft", "numpy.fft.ifft", "numpy.real", "numpy.imag",
                    "numpy.abs", "numpy.array", "numpy.asarray", "numpy.conj"):
            return fa[0] if isinstance(fa[0], L) else L("unk")
        if name in ("scipy.fft.irfft", "numpy.fft.irfft"):
            # irfft(X, n=K) uses K//2 + 1 spectrum bins (it silently truncates / zero-pads X otherwise) and returns K samples
            n = fk.get("n", fa[1] if len(fa) > 1 else None)
            x = fa[0] if fa else None
            if n is not None and n.kind == "int" and isinstance(x, L) and x.kind == "arr":
                need = n.lin.scale(Fr(1, 2)) + Lin(c=1)
                ok = x.lin == need
                s.obligations.append(("irfft operand length == n/2 + 1", repr(x), f"Arr[{need}]", ok))
                if not ok:
                    return L("bad", why=f"irfft over {x.lin} bins for n = {n.lin}: needs {need} (Nyquist bin dropped or padded)")
                return L("arr", n.lin)
            return L("unk")
        if name in ("scipy.fft.rfft", "numpy.fft.rfft"):
            x = fa[0] if fa else None
            if isinstance(x, L) and x.kind == "arr":
                return L("arr", x.lin.scale(Fr(1, 2)) + Lin(c=1))
            return L("unk")
        if name in ("scipy.fft.fftfreq", "numpy.fft.fftfreq"):
            n = fk.get("n", fa[0] if fa else None)
            return L("arr", n.lin) if n is not None and n.kind == "int" else L("unk")
        return NotImplemented if not name.startswith(("numpy.", "scipy.")) else L("unk")
