"""Affine ("point vs vector") domain: translation weight per component.

A value with weight w transforms as  x -> x + w*delta  under a common translation delta of the frame.
points: w=1, differences/lengths/angles: w=0.  kinds: any | w | bad | top | vec | rows
"""
import ast
from fractions import Fraction as Fr
from ..ai import Tup, Obj, Fn, Cls, Mod, Bound, STRUCT, const_value

class A:
    __slots__ = ("kind", "w", "comps", "why")
    def __init__(s, kind, w=0, comps=None, why=""):
        s.kind, s.w, s.comps, s.why = kind, Fr(w), comps, why
    def __repr__(s):
        if s.kind == "w": return f"w{s.w}"
        if s.kind == "vec": return "Vec" + repr(s.comps)
        if s.kind == "rows": return "Rows" + repr(s.comps)
        return {"any": "any", "bad": f"BAD[{s.why}]", "top": f"Top[{s.why}]"}[s.kind]

NONLIN_OK = ("numpy.", "scipy.", "math.")

class Affine:
    name = "affine"
    pure_shortcut = True
    def __init__(s):
        s.U = A("w", 0); s.Z = A("any"); s.P = A("w", 1)
    def W(s, w): return A("w", w)
    def vec(s, comps): return A("vec", comps=list(comps))
    def rows(s, comps): return A("rows", comps=list(comps))
    def top(s, why=""): return A("top", why=why)
    def bad(s, why=""):
        cur = getattr(s, "cur", None)
        loc = ""
        if cur:
            import ast as _a
            loc = f" @ {cur[0]}:{cur[1]} line {cur[2].lineno}: {_a.unparse(cur[2])[:70]}"
        return A("bad", why=why + loc)
    def const(s, v): return s.U
    def field_default(s, obj, name): return s.U
    # ---- scalar helpers
    def is_untracked(s, v):
        if not isinstance(v, A): return False
        if v.kind in ("any",): return True
        if v.kind == "w": return v.w == 0
        if v.kind in ("vec", "rows"): return all(s.is_untracked(c) for c in v.comps)
        return False
    def flat(s, v):
        if v.kind in ("vec", "rows"):
            r = None
            for c in v.comps: r = s.join(r, s.flat(c))
            return r if r is not None else s.U
        return v
    def join(s, a, b, storage=False):
        if a is None: return b
        if b is None: return a
        if a.kind in ("vec", "rows") or b.kind in ("vec", "rows"):
            if a.kind == b.kind and len(a.comps) == len(b.comps):
                return A(a.kind, comps=[s.join(x, y, storage) for x, y in zip(a.comps, b.comps)])
            if a.kind == "any": return b
            if b.kind == "any": return a
            if a.kind in ("vec", "rows") and b.kind in ("w",):
                return A(a.kind, comps=[s.join(x, b, storage) for x in a.comps])
            if b.kind in ("vec", "rows") and a.kind in ("w",):
                return A(b.kind, comps=[s.join(a, x, storage) for x in b.comps])
            return s.join(s.flat(a), s.flat(b), storage)
        if a.kind == "any": return b
        if b.kind == "any": return a
        for k in ("bad", "top"):
            if k in (a.kind, b.kind): return a if a.kind == k else b
        if a.w == b.w: return a
        if storage:
            return s.bad(f"one storage location holds values of translation weight {a.w} and {b.w}")
        return s.top(f"control-flow join of translation weights {a.w} and {b.w}")
    def iter_elem(s, v):
        if v.kind == "rows": return s.vec(v.comps)
        if v.kind == "vec": return s.flat(v)
        return v
    def pysum(s, v): return v
    def lift(s, f, a, b):
        """apply scalar op componentwise with broadcasting"""
        if a.kind in ("vec", "rows") and b.kind in ("vec", "rows"):
            if len(a.comps) == len(b.comps):
                return A(a.kind if a.kind == b.kind else "vec", comps=[s.lift(f, x, y) for x, y in zip(a.comps, b.comps)])
            return f(s.flat(a), s.flat(b))
        if a.kind in ("vec", "rows"): return A(a.kind, comps=[s.lift(f, x, b) for x in a.comps])
        if b.kind in ("vec", "rows"): return A(b.kind, comps=[s.lift(f, a, y) for y in b.comps])
        return f(a, b)
    def _add(s, sign):
        def f(a, b):
            for k in ("bad", "top"):
                if k in (a.kind, b.kind): return a if a.kind == k else b
            if a.kind == "any" and b.kind == "any": return s.Z
            wa = a.w if a.kind == "w" else Fr(0)
            wb = b.w if b.kind == "w" else Fr(0)
            return s.W(wa + sign * wb)
        return f
    def _mul(s, lit_l, lit_r, div=False):
        def f(a, b):
            for k in ("bad", "top"):
                if k in (a.kind, b.kind): return a if a.kind == k else b
            if a.kind == "any" or (b.kind == "any" and not div): return s.Z
            if b.kind == "any": return s.top("division by zero-like value")
            if a.w == 0 and b.w == 0: return s.U
            if b.w == 0 and isinstance(lit_r, (int, float)) and lit_r != 0:
                k = Fr(str(lit_r)); return s.W(a.w / k if div else a.w * k)
            if a.w == 0 and isinstance(lit_l, (int, float)) and not div:
                return s.W(b.w * Fr(str(lit_l)))
            return s.bad("translation-covariant value scaled by / multiplied with a non-constant"
                         if 0 in (a.w, b.w) else "product of two translation-covariant values")
        return f
    def neg(s, a):
        if a.kind in ("vec", "rows"): return A(a.kind, comps=[s.neg(c) for c in a.comps])
        return s.W(-a.w) if a.kind == "w" else a
    def binop(s, op, a, b, lit_l, lit_r):
        if isinstance(op, ast.Add): return s.lift(s._add(1), a, b)
        if isinstance(op, ast.Sub): return s.lift(s._add(-1), a, b)
        if isinstance(op, (ast.Mult, ast.MatMult)): return s.lift(s._mul(lit_l, lit_r), a, b)
        if isinstance(op, ast.Div): return s.lift(s._mul(lit_l, lit_r, div=True), a, b)
        return s.lift(lambda x, y: s.nonlinear2(x, y, type(op).__name__), a, b)
    def nonlinear1(s, a, name):
        if a.kind in ("vec", "rows"): return A(a.kind, comps=[s.nonlinear1(c, name) for c in a.comps])
        if a.kind in ("bad", "top"): return a
        if a.kind == "any" or a.w == 0: return s.U
        return s.bad(f"{name} applied to a translation-covariant value (weight {a.w})")
    def nonlinear2(s, a, b, name):
        for k in ("bad", "top"):
            if k in (a.kind, b.kind): return a if a.kind == k else b
        if s.is_untracked(a) and s.is_untracked(b): return s.U
        return s.bad(f"{name} applied to a translation-covariant value")
    def compare(s, vals, node):
        if len(vals) >= 2 and all(v.kind == "vec" for v in vals) and len({len(v.comps) for v in vals}) == 1:
            r = s.U            # component-wise comparison of vectors of equal shape
            for comps in zip(*[v.comps for v in vals]):
                c = s.compare(list(comps), node)
                if c.kind in ("bad", "top"): r = c
            return r
        vals = [s.flat(v) if v.kind in ("vec", "rows") else v for v in vals]
        for k in ("bad", "top"):
            for v in vals:
                if v.kind == k: return v
        ws = {v.w for v in vals if v.kind == "w"}
        if len(ws) <= 1 and (not ws or 0 in ws or all(v.kind == "w" for v in vals)): return s.U
        return s.bad("comparison of a translation-covariant value with an invariant one")
    def tracked_branch(s, c, a, b, it): return it.vjoin(a, b) if c.kind not in ("bad", "top") else c
    def _const_index(s, sl):
        k = const_value(sl)
        return k if isinstance(k, int) else None
    def subscript(s, v, sl, idx):
        if v.kind == "vec":
            k = s._const_index(sl)
            if k is not None and -len(v.comps) <= k < len(v.comps): return v.comps[k]
            if isinstance(sl, ast.Slice):
                lo = const_value(sl.lower) if sl.lower else None
                hi = const_value(sl.upper) if sl.upper else None
                if (sl.lower is None or isinstance(lo, int)) and (sl.upper is None or isinstance(hi, int)) and sl.step is None:
                    return s.vec(v.comps[lo:hi])
            return s.flat(v)
        if v.kind == "rows":
            if isinstance(sl, ast.Tuple) and len(sl.elts) == 2:
                col = s._const_index(sl.elts[1])
                if col is not None: return v.comps[col]
                if isinstance(sl.elts[1], ast.Slice): return v if isinstance(sl.elts[0], ast.Slice) else s.vec(v.comps)
                return s.flat(v)
            if isinstance(sl, ast.Slice): return v
            return s.vec(v.comps)
        return v
    def store_subscript(s, cur, sl, v):
        if cur.kind == "rows":
            if isinstance(sl, ast.Tuple) and len(sl.elts) == 2:
                col = s._const_index(sl.elts[1])
                if col is not None:
                    comps = list(cur.comps); comps[col] = s.join(comps[col], s.flat(v) if v.kind in ("vec", "rows") else v, True)
                    return s.rows(comps)
            if v.kind in ("vec",) and len(v.comps) == len(cur.comps):
                return s.rows([s.join(x, y, True) for x, y in zip(cur.comps, v.comps)])
            return s.rows([s.join(x, s.flat(v), True) for x in cur.comps])
        if cur.kind == "vec":
            k = s._const_index(sl)
            if k is not None:
                comps = list(cur.comps); comps[k] = s.join(comps[k], v, True); return s.vec(comps)
            return s.vec([s.join(x, s.flat(v), True) for x in cur.comps])
        return s.join(cur, s.flat(v) if v.kind in ("vec", "rows") else v, True)
    def attribute(s, v, name):
        if name in ("T", "real", "imag", "flat"): return v
        if name in ("shape", "size", "ndim", "dtype"): return s.U
        if s.is_untracked(v): return s.U
        return Bound(v, name)
    def method(s, v, name, args, node):
        if name in ("copy", "astype", "flatten", "ravel", "tolist", "transpose", "squeeze"): return v
        if s.is_untracked(v) and all(s.is_untracked(a) for a in args): return s.U
        return s.top("method ." + name)
    def store_attr(s, o, name, v): return None
    def _from_tup(s, t):
        """np.array([...]) of leaves/vecs -> vec / rows"""
        items = t.items
        leaves = [i for i in items]
        if not leaves: return s.Z
        if all(isinstance(i, A) and i.kind in ("w", "any", "bad", "top") for i in leaves):
            return s.vec(leaves) if len(leaves) > 1 else leaves[0]
        if all(isinstance(i, A) and i.kind == "vec" for i in leaves):
            r = None
            for i in leaves: r = s.join(r, i, True)
            return s.rows(r.comps)
        if all(isinstance(i, Tup) for i in leaves):
            vs = [s._from_tup(i) for i in leaves]
            r = None
            for i in vs: r = s.join(r, i, True)
            return s.rows(r.comps) if r.kind == "vec" else r
        return s.interp.flat(t)
    def summary(s, name, args, kwargs, node):
        it = s.interp
        def arr(x):
            if isinstance(x, Tup): return s._from_tup(x)
            if isinstance(x, STRUCT): return it.flat(x)
            return x
        if name in ("numpy.array", "numpy.asarray", "numpy.copy", "numpy.atleast_1d"): return arr(args[0])
        if name in ("numpy.zeros", "numpy.zeros_like", "numpy.empty"):
            shp = node.args[0] if node.args else None
            if isinstance(shp, ast.Tuple) and len(shp.elts) == 2 and isinstance(const_value(shp.elts[1]), int):
                return s.rows([s.Z] * const_value(shp.elts[1]))
            return s.Z
        if name == "numpy.tile" and args:
            v = arr(args[0])
            reps = node.args[1] if len(node.args) > 1 else None
            if v.kind == "vec" and isinstance(reps, ast.Tuple) and len(reps.elts) == 2 and const_value(reps.elts[1]) == 1:
                return s.rows(v.comps)          # the vector repeated as rows: each column keeps its component's weight
            return v if v.kind in ("w", "any") else s.top("tile")
        if name in ("len", "numpy.ones", "numpy.arange", "range", "numpy.shape", "numpy.size"): return s.U
        fa = [arr(a) for a in args]; fk = {k: arr(v) for k, v in kwargs.items()}
        if name in ("numpy.sum", "numpy.cumsum", "numpy.mean", "numpy.diff", "numpy.flipud", "numpy.real",
                    "numpy.imag", "numpy.transpose", "numpy.roll", "numpy.trapz", "numpy.trapezoid"):
            v = fa[0]
            if name == "numpy.sum" and v.kind == "vec":
                r = s.Z
                for c in v.comps: r = s._add(1)(r, c) if r.kind != "any" else c
                return r
            if name in ("numpy.diff",): return s.nonlinear1(v, "diff") if False else s.lift(s._add(-1), v, v)
            return v
        if name in ("numpy.concatenate", "numpy.hstack", "numpy.append"):
            r = None
            for x in (args[0].items if isinstance(args[0], Tup) else fa): r = s.join(r, arr(x), True)
            return r
        if name == "numpy.array_equal": return s.compare([fa[0], fa[1]], node)
        if name in ("numpy.cross", "numpy.dot", "numpy.vdot"):
            return s.lift(s._mul(None, None), s.flat(fa[0]) if name != "numpy.cross" else fa[0], s.flat(fa[1]) if name != "numpy.cross" else fa[1]) if not (s.is_untracked(fa[0]) and s.is_untracked(fa[1])) else (fa[0] if name == "numpy.cross" and fa[0].kind == "vec" else s.U)
        if name in ("min", "max", "numpy.min", "numpy.max", "numpy.abs", "abs", "numpy.where", "numpy.minimum", "numpy.maximum"):
            r = None
            for v in fa: r = s.join(r, s.flat(v) if v.kind in ("vec", "rows") else v, True)
            if name in ("numpy.abs", "abs") and r is not None and r.kind == "w" and r.w != 0:
                return s.bad("abs of a translation-covariant value")
            return r if r is not None else s.U
        if name in ("numpy.linspace",):
            return s.join(s.flat(fa[0]), s.flat(fa[1]), True) if len(fa) >= 2 else s.U
        if name.startswith(NONLIN_OK) or name in ("int", "float", "bool", "round"):
            allv = fa + list(fk.values())
            if all(s.is_untracked(v) for v in allv): return s.U
            for v in allv:
                fv = s.flat(v) if v.kind in ("vec", "rows") else v
                if fv.kind in ("bad", "top"): return fv
            if name in ("numpy.sqrt", "numpy.exp", "numpy.log", "numpy.sin", "numpy.cos", "numpy.tan", "numpy.arctan2",
                        "numpy.arctan", "numpy.arcsin", "numpy.arccos", "numpy.linalg.norm", "numpy.square", "numpy.sign",
                        "numpy.isclose", "numpy.radians", "numpy.degrees", "int", "float"):
                return s.bad(f"{name} applied to a translation-covariant value")
            return s.top("no affine summary for " + name)
        return NotImplemented
