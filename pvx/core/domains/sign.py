"""Sign / unit-interval domain for ai.Interp.  values: neg nonpos zero nonneg pos unit(0,1] any"""
import ast
from ..ai import Tup, Obj, Fn, Cls, Mod, Bound, STRUCT

class S:
    __slots__ = ("k",)
    def __init__(s, k): s.k = k
    def __repr__(s): return s.k
ORDER = ["neg", "nonpos", "zero", "nonneg", "pos", "unit", "any"]
def V(k): return S(k)

GE0 = {"zero", "nonneg", "pos", "unit"}
GT0 = {"pos", "unit"}
LE0 = {"zero", "nonpos", "neg"}

class Sign:
    name = "sign"
    pure_shortcut = False
    ASSUME_METHODS = {"attenuation_length": "pos", "attenuation": "unit"}   # assume-guarantee, discharged elsewhere
    def __init__(s): s.U = V("any"); s.Z = V("zero")
    def top(s, why=""): return V("any")
    def const(s, v):
        if isinstance(v, bool) or not isinstance(v, (int, float)): return V("any")
        if v == 0: return V("zero")
        if v == 1: return V("unit")
        return V("pos") if v > 0 else V("neg")
    def flat(s, v): return v
    def is_untracked(s, v): return False
    def field_default(s, obj, name): return V("any")
    def iter_elem(s, v): return v
    def pysum(s, v): return v if v.k in ("nonneg", "zero", "nonpos") else (V("nonneg") if v.k in GE0 else (V("nonpos") if v.k in LE0 else V("any")))
    def join(s, a, b):
        if a is None: return b
        if b is None: return a
        if a.k == b.k: return a
        ks = {a.k, b.k}
        if ks <= {"unit", "pos"}: return V("pos")
        if ks <= GE0: return V("nonneg")
        if ks <= LE0: return V("nonpos")
        return V("any")
    def neg(s, a):
        return V({"neg": "pos", "nonpos": "nonneg", "zero": "zero", "nonneg": "nonpos", "pos": "neg", "unit": "neg"}.get(a.k, "any"))
    def mul(s, a, b):
        if "zero" in (a.k, b.k): return V("zero")
        if a.k == "unit" and b.k == "unit": return V("unit")
        if a.k in GT0 and b.k in GT0: return V("pos")
        if a.k in GE0 and b.k in GE0: return V("nonneg")
        if a.k in LE0 and b.k in LE0: return V("nonneg")
        if (a.k in GE0 and b.k in LE0) or (a.k in LE0 and b.k in GE0): return V("nonpos")
        return V("any")
    def inv(s, b):
        return V({"pos": "pos", "unit": "pos", "neg": "neg"}.get(b.k, "any"))
    def add(s, a, b):
        if a.k == "zero": return b
        if b.k == "zero": return a
        if a.k in GT0 and b.k in GE0 or b.k in GT0 and a.k in GE0: return V("pos")
        if a.k in GE0 and b.k in GE0: return V("nonneg")
        if a.k in LE0 and b.k in LE0: return V("nonpos") if "neg" not in (a.k, b.k) else V("neg")
        return V("any")
    def binop(s, op, a, b, lit_l, lit_r):
        if isinstance(op, ast.Add): return s.add(a, b)
        if isinstance(op, ast.Sub): return s.add(a, s.neg(b))
        if isinstance(op, (ast.Mult, ast.MatMult)): return s.mul(a, b)
        if isinstance(op, ast.Div): return s.mul(a, s.inv(b))
        if isinstance(op, ast.Pow):
            if isinstance(lit_r, int) and lit_r % 2 == 0: return V("pos") if a.k in GT0 | {"neg"} else V("nonneg")
            if a.k in GT0: return V("pos")
            if a.k in GE0: return V("nonneg")
            return V("any")
        return V("any")
    def compare(s, vals, node): return V("any")
    def tracked_branch(s, c, a, b, it): return it.vjoin(a, b)
    def subscript(s, v, sl, idx): return v
    def attribute(s, v, name):
        if name in ("T", "real", "flat"): return v
        if name in ("shape", "size", "ndim"): return V("any")
        return Bound(v, name)
    def method(s, v, name, args, node):
        if name in s.ASSUME_METHODS: return V(s.ASSUME_METHODS[name])
        if name in ("copy", "astype", "flatten", "ravel", "sum", "mean", "max", "min", "T") :
            return v if name != "sum" else s.pysum(v)
        return V("any")
    def store_attr(s, o, name, v): return None
    def store_subscript(s, cur, sl, v): return s.join(cur, v)
    def summary(s, name, args, kwargs, node):
        it = s.interp
        fa = [it.flat(a) for a in args]
        if name in ("numpy.abs", "abs", "numpy.absolute", "numpy.linalg.norm"):
            return V("pos") if fa[0].k in GT0 | {"neg"} else V("nonneg")
        if name == "numpy.sqrt": return fa[0] if fa[0].k in GE0 else V("nonneg")
        if name == "numpy.exp":
            return V("unit") if fa[0].k in LE0 else V("pos")
        if name in ("numpy.ones",): return V("unit")
        if name in ("numpy.zeros",): return V("zero")
        if name in ("numpy.sum", "numpy.cumsum", "numpy.mean", "numpy.trapz", "numpy.trapezoid"):
            return s.pysum(fa[0])
        if name == "numpy.prod":
            return fa[0] if fa[0].k in ("unit", "pos", "nonneg") else V("any")
        if name in ("numpy.array", "numpy.asarray", "numpy.real", "numpy.concatenate", "numpy.max", "numpy.min", "max", "min"):
            r = None
            for v in fa: r = s.join(r, v)
            return r or V("any")
        if name == "numpy.square": return V("nonneg")
        if name in ("len",): return V("nonneg")
        return V("any")
