"""Homogeneity-degree domain for ai.Interp."""
import ast
from fractions import Fraction as Fr
from ..ai import Tup, Obj, Fn, Cls, Mod, Bound, STRUCT

class D:
    __slots__ = ("kind", "deg", "lin", "why")
    def __init__(s, kind, deg=0, lin=True, why=""):
        s.kind, s.deg, s.lin, s.why = kind, Fr(deg), lin, why
    def __repr__(s):
        if s.kind == "hom":
            return "Hom(0)" if s.deg == 0 else ("Lin" if (s.deg == 1 and s.lin) else f"Hom({s.deg})")
        return {"zero": "Zero", "nonhom": f"NonHom[{s.why}]", "top": f"Top[{s.why}]"}[s.kind]
    def is0(s): return s.kind == "zero" or (s.kind == "hom" and s.deg == 0)

LINEAR1 = {"numpy.real", "numpy.imag", "numpy.conj", "numpy.asarray", "numpy.array", "numpy.roll", "numpy.diff",
           "numpy.cumsum", "numpy.sum", "numpy.flipud", "numpy.transpose", "numpy.mean", "numpy.fft.fft",
           "numpy.fft.ifft", "numpy.fft.rfft", "numpy.fft.irfft", "scipy.fft.fft", "scipy.fft.ifft",
           "scipy.fft.rfft", "scipy.fft.irfft", "numpy.trapz", "numpy.trapezoid", "numpy.copy", "numpy.squeeze",
           "numpy.ravel", "scipy.signal.resample", "numpy.atleast_1d", "float", "complex", "numpy.negative",
           "numpy.broadcast_to", "numpy.reshape", "numpy.tile", "numpy.repeat", "scipy.signal.hilbert"}
BILINEAR = {"numpy.dot", "numpy.vdot", "numpy.cross", "numpy.convolve", "scipy.signal.convolve", "numpy.outer",
            "numpy.multiply", "numpy.inner", "numpy.matmul"}
SHAPEONLY = {"len", "numpy.shape", "numpy.size", "numpy.ndim", "numpy.ones_like", "numpy.empty", "numpy.empty_like",
             "numpy.ones", "numpy.arange", "numpy.eye", "range", "numpy.finfo"}
ZEROS = {"numpy.zeros", "numpy.zeros_like"}
POSHOM1 = {"numpy.abs", "abs", "numpy.absolute", "numpy.linalg.norm", "numpy.max", "numpy.min", "max", "min",
           "numpy.sort", "numpy.amax", "numpy.amin"}

NONLINEAR = {"numpy.exp", "numpy.log", "numpy.log10", "numpy.log2", "numpy.sin", "numpy.cos", "numpy.tan", "numpy.arcsin",
             "numpy.arccos", "numpy.arctan", "numpy.arctan2", "numpy.sinh", "numpy.cosh", "numpy.tanh", "numpy.radians",
             "numpy.degrees", "numpy.isnan", "numpy.sign", "numpy.isclose", "numpy.any", "numpy.all", "numpy.floor",
             "numpy.ceil", "int", "bool", "numpy.angle", "numpy.unwrap", "numpy.array_equal", "numpy.searchsorted",
             "numpy.linspace", "numpy.logspace", "scipy.fft.fftfreq", "scipy.fft.rfftfreq", "numpy.fft.fftfreq",
             "numpy.fft.rfftfreq", "numpy.argmax", "numpy.argmin", "numpy.nonzero", "numpy.unique", "numpy.power",
             "math.exp", "math.log", "math.sin", "math.cos", "numpy.random.rand", "numpy.random.random_sample",
             "numpy.random.rayleigh", "numpy.random.normal", "numpy.random.uniform", "numpy.random.poisson",
             "scipy.signal.butter", "scipy.signal.freqs", "scipy.optimize.brentq", "scipy.interpolate.interp1d"}

class Degree:
    name = "degree"
    pure_shortcut = True
    def __init__(s):
        s.U = D("hom", 0); s.Z = D("zero"); s.LIN = D("hom", 1, True)
    def hom(s, d, lin=False):
        d = Fr(d); return D("hom", d, lin if d == 1 else d == 0)
    def top(s, why=""): return D("top", why=why)
    def nonhom(s, why=""): return D("nonhom", why=why)
    def const(s, v):
        if isinstance(v, (int, float, complex)) and not isinstance(v, bool) and v == 0: return s.Z
        return s.U
    def flat(s, v): return v
    def is_untracked(s, v): return isinstance(v, D) and v.is0()
    def field_default(s, obj, name): return s.U
    def iter_elem(s, v): return v
    def pysum(s, v): return v
    def join(s, a, b):
        if a is None: return b
        if b is None: return a
        if a.kind == "zero": return b
        if b.kind == "zero": return a
        for k in ("nonhom", "top"):
            if k in (a.kind, b.kind): return a if a.kind == k else b
        if a.deg == b.deg: return D("hom", a.deg, a.lin and b.lin)
        return s.nonhom(f"branches of degree {a.deg} and {b.deg}")
    def add(s, a, b):
        if a.kind == "zero": return b
        if b.kind == "zero": return a
        for k in ("nonhom", "top"):
            if k in (a.kind, b.kind): return a if a.kind == k else b
        if a.deg == b.deg: return D("hom", a.deg, a.lin and b.lin)
        return s.nonhom(f"sum of degree {a.deg} and {b.deg}")
    def mul(s, a, b):
        if "zero" in (a.kind, b.kind): return s.Z
        for k in ("nonhom", "top"):
            if k in (a.kind, b.kind): return a if a.kind == k else b
        d = a.deg + b.deg
        lin = (a.deg == 1 and b.deg == 0 and a.lin) or (a.deg == 0 and b.deg == 1 and b.lin) or d == 0
        return D("hom", d, lin)
    def inv(s, b):
        if b.kind == "zero": return s.top("division by a zero value")
        if b.kind != "hom": return b
        return D("hom", -b.deg, b.deg == 0)
    def powk(s, a, k):
        if a.kind == "zero": return s.Z
        if a.kind != "hom": return a
        return D("hom", a.deg * k, (k == 1 and a.lin) or a.deg * k == 0)
    def nonlinear(s, a, name):
        if a.is0(): return s.U
        if a.kind == "hom": return s.nonhom(f"{name} of a degree-{a.deg} value")
        return a
    def neg(s, a): return a
    def binop(s, op, a, b, lit_l, lit_r):
        if isinstance(op, (ast.Add, ast.Sub)): return s.add(a, b)
        if isinstance(op, (ast.Mult, ast.MatMult)): return s.mul(a, b)
        if isinstance(op, ast.Div): return s.mul(a, s.inv(b))
        if isinstance(op, (ast.FloorDiv, ast.Mod)):
            return s.U if (a.is0() and b.is0()) else s.nonlinear(s.add(a, b), "floor/mod")
        if isinstance(op, ast.Pow):
            if b.is0():
                if isinstance(lit_r, (int, float)): return s.powk(a, Fr(str(lit_r)))
                return s.U if a.is0() else s.top("non-literal exponent")
            return s.nonhom("tracked value in an exponent")
        if isinstance(op, (ast.BitAnd, ast.BitOr, ast.BitXor)):
            return s.U if (a.is0() and b.is0()) else s.top("bit operation on tracked value")
        return s.top("binop")
    def compare(s, vals, node):
        if all(v.is0() for v in vals): return s.U
        if all(v.kind in ("hom", "zero") for v in vals): return D("hom", 1, False, "cond")
        return s.top("comparison")
    def tracked_branch(s, c, a, b, it):
        fa, fb = it.flat(a), it.flat(b)
        if fa.kind == "zero": return b
        if fb.kind == "zero": return a
        return s.top("branch on a tracked value")
    def subscript(s, v, sl, idx):
        if idx is not None and not idx.is0(): return s.top("tracked index")
        return v
    def attribute(s, v, name):
        if name in ("real", "imag", "T", "flat"): return v
        if name in ("shape", "size", "ndim", "dtype", "name", "value"): return s.U
        if v.is0(): return s.U            # attribute of an untracked opaque value
        return Bound(v, name)
    def method(s, v, name, args, node):
        if name in ("copy", "conj", "conjugate", "sum", "flatten", "ravel", "reshape", "astype", "mean", "transpose",
                    "squeeze", "tolist", "item", "cumsum"): return v
        if name in ("sort", "fill", "resize"): return s.U
        if name in ("max", "min"): return D("hom", v.deg, v.deg == 0) if v.kind == "hom" else v
        if v.is0() and all(a.is0() for a in args): return s.U
        return s.top("method ." + name)
    def store_attr(s, o, name, v):
        if name in ("imag", "real"): return s.join(o, v)
        return None
    def store_subscript(s, cur, sl, v): return s.join(cur, v)
    def summary(s, name, args, kwargs, node):
        it = s.interp
        fa = [it.flat(a) for a in args]; fk = {k: it.flat(v) for k, v in kwargs.items()}
        rest0 = lambda skip: (all(v.is0() for i, v in enumerate(fa) if i not in skip)
                              and all(v.is0() for v in fk.values()))
        if name in ZEROS: return s.Z
        if name in SHAPEONLY: return s.U
        if name in ("numpy.concatenate", "numpy.hstack", "numpy.vstack", "numpy.stack", "numpy.append"):
            return fa[0] if len(fa) == 1 else s.join(fa[0], fa[1])
        if name == "numpy.interp":
            if len(fa) >= 3 and fa[0].is0() and fa[1].is0() and all(v.is0() for v in fk.values()): return fa[2]
            return s.U if all(v.is0() for v in fa) else s.top("interp with tracked abscissa")
        if name == "numpy.where":
            if len(fa) == 3: return it.cond_join(fa[0], fa[1], fa[2])
            return s.U if fa[0].is0() else s.top("where")
        if name == "numpy.full": return fa[1] if len(fa) > 1 else fk.get("fill_value", s.U)
        if name == "numpy.clip":
            return s.U if all(v.is0() for v in fa + list(fk.values())) else s.nonhom("clip of a tracked value")
        if name in LINEAR1:
            if not fa: return s.U
            return fa[0] if rest0({0}) else s.top(name + " with tracked auxiliary argument")
        if name in BILINEAR: return s.mul(fa[0], fa[1]) if len(fa) >= 2 else s.top(name)
        if name in POSHOM1:
            r = None
            for v in fa: r = s.join(r, v)
            if r is None: return s.U
            return D("hom", r.deg, r.deg == 0) if r.kind == "hom" else r
        if name == "numpy.sqrt": return s.powk(fa[0], Fr(1, 2))
        if name == "numpy.square": return s.powk(fa[0], 2)
        if name == "numpy.prod": return s.U if fa[0].is0() else s.top("prod")
        allv = fa + list(fk.values())
        if all(v.is0() for v in allv): return s.U
        if name in NONLINEAR:
            r = s.U
            for v in allv:
                if not v.is0(): r = v
            return s.nonlinear(r, name)
        return NotImplemented
