"""Rotation-covariance domain: scalar | vec (rotates with the frame) | mat (rows are vecs) | svec (array of scalars)
| fd (frame dependent: definite violation) | top"""
import ast
from ..ai import Tup, Obj, Fn, Cls, Mod, Bound, STRUCT, const_value

class Rv:
    __slots__ = ("k", "why")
    def __init__(s, k, why=""): s.k, s.why = k, why
    def __repr__(s): return s.k if s.k not in ("fd", "top") else f"{s.k.upper()}[{s.why}]"

class Rotation:
    name = "rotation"
    pure_shortcut = True
    def __init__(s): s.U = Rv("scalar"); s.Z = Rv("scalar"); s.VEC = Rv("vec")
    def top(s, why=""): return Rv("top", why)
    def fd(s, why):
        cur = getattr(s, "cur", None)
        loc = f" @ {cur[1]} line {cur[2].lineno}: {ast.unparse(cur[2])[:60]}" if cur else ""
        return Rv("fd", why + loc)
    def const(s, v): return s.U
    def flat(s, v): return v
    def is_untracked(s, v): return v.k in ("scalar", "svec")
    def field_default(s, obj, name): return s.U
    def iter_elem(s, v): return Rv("scalar") if v.k == "svec" else (Rv("vec") if v.k == "mat" else (s.fd("iterating the components of a lab-frame vector") if v.k == "vec" else v))
    def pysum(s, v): return v
    def join(s, a, b):
        if a is None: return b
        if b is None: return a
        if a.k == b.k: return a
        for k in ("fd", "top"):
            if k in (a.k, b.k): return a if a.k == k else b
        if {a.k, b.k} == {"scalar", "svec"}: return Rv("svec")
        return s.top(f"join of {a.k} and {b.k}")
    def neg(s, a): return a
    def binop(s, op, a, b, lit_l, lit_r):
        for k in ("fd", "top"):
            if k in (a.k, b.k): return a if a.k == k else b
        ks = (a.k, b.k)
        sc = ("scalar", "svec")
        if a.k in sc and b.k in sc: return Rv("svec") if "svec" in ks else Rv("scalar")
        if isinstance(op, (ast.Add, ast.Sub)):
            if ks == ("vec", "vec"): return Rv("vec")
            return s.fd(f"{type(op).__name__} of a {a.k} and a {b.k}")
        if isinstance(op, ast.Mult):
            if "vec" in ks and ("scalar" in ks): return Rv("vec")
            if ks == ("vec", "vec"): return s.fd("elementwise product of two lab-frame vectors")
        if isinstance(op, ast.Div):
            if a.k == "vec" and b.k == "scalar": return Rv("vec")
        if isinstance(op, ast.MatMult):
            return s.summary("numpy.dot", [a, b], {}, None)
        return s.fd(f"{type(op).__name__} of a {a.k} and a {b.k}")
    def compare(s, vals, node):
        for v in vals:
            if v.k in ("fd", "top"): return v
        if all(v.k in ("scalar", "svec") for v in vals): return s.U
        return s.fd("comparison on lab-frame vector components")
    def tracked_branch(s, c, a, b, it): return c if c.k in ("fd", "top") else it.vjoin(a, b)
    def subscript(s, v, sl, idx):
        if v.k == "vec": return s.fd("component extracted from a lab-frame vector")
        if v.k == "svec": return Rv("svec") if isinstance(sl, ast.Slice) else Rv("scalar")
        if v.k == "mat": return Rv("vec")
        return v
    def attribute(s, v, name):
        if v.k in ("scalar", "svec"): return s.U
        return Bound(v, name)
    def method(s, v, name, args, node): return v if name in ("copy", "astype") else s.top("method ." + name)
    def store_attr(s, o, name, v): return None
    def store_subscript(s, cur, sl, v): return s.join(cur, v)
    def summary(s, name, args, kwargs, node):
        it = s.interp
        def arr(x):
            if isinstance(x, Tup):
                items = [arr(i) for i in x.items]
                if items and all(i.k == "vec" for i in items): return Rv("mat")
                if all(i.k in ("scalar", "svec") for i in items): return Rv("svec")       # includes constant vectors
                for i in items:
                    if i.k in ("fd", "top"): return i
                return s.fd("array mixing vectors and scalars")
            return it.flat(x) if isinstance(x, STRUCT) else x
        fa = [arr(a) for a in args]
        for v in fa:
            if v.k in ("fd", "top"): return v
        if name in ("numpy.array", "numpy.asarray"): return fa[0]
        if name in ("numpy.dot", "numpy.vdot", "numpy.inner"):
            a, b = fa[0], fa[1]
            if (a.k, b.k) == ("vec", "vec"): return Rv("scalar")
            if (a.k, b.k) == ("mat", "vec"): return Rv("svec")
            if a.k in ("scalar", "svec") and b.k in ("scalar", "svec"): return Rv("scalar")
            return s.fd(f"dot of a {a.k} (lab-frame constant?) with a {b.k}")
        if name == "numpy.cross":
            a, b = fa[0], fa[1]
            if (a.k, b.k) == ("vec", "vec"): return Rv("vec")
            if a.k in ("scalar", "svec") and b.k in ("scalar", "svec"): return Rv("svec")
            return s.fd(f"cross of a {a.k} with a {b.k} (constant lab-frame vector)")
        if name == "numpy.linalg.norm": return Rv("scalar") if fa[0].k in ("vec", "scalar", "svec") else s.top("norm")
        if name in ("numpy.isclose", "numpy.array_equal"): return s.compare(fa[:2], node)
        if all(v.k in ("scalar", "svec") for v in fa): return Rv("svec") if any(v.k == "svec" for v in fa) else s.U
        if name.startswith(("numpy.", "scipy.")): return s.fd(f"{name} applied to a lab-frame vector")
        return NotImplemented
