"""Swap-parity domain: behaviour under exchanging the two endpoints (from_point <-> to_point).

values: sym | anti | end(side, path) | asym(why) | top
  end('A', p) / end('B', p): the same function p applied to endpoint A resp. B
"""
import ast
from ..ai import Tup, Obj, Fn, Cls, Mod, Bound, STRUCT, const_value

class Pv:
    __slots__ = ("k", "side", "path", "why")
    def __init__(s, k, side=None, path="", why=""): s.k, s.side, s.path, s.why = k, side, path, why
    def __repr__(s):
        if s.k == "end": return f"end{s.side}{s.path}"
        if s.k == "asym": return f"ASYM[{s.why}]"
        return s.k

COMM = (ast.Add, ast.Mult, ast.BitAnd, ast.BitOr)

class Parity:
    name = "parity"
    pure_shortcut = True
    def __init__(s): s.U = Pv("sym"); s.Z = Pv("sym")
    def end(s, side, path=""): return Pv("end", side, path)
    def top(s, why=""): return Pv("top", why=why)
    def asym(s, why):
        cur = getattr(s, "cur", None)
        loc = f" @ {cur[1]} line {cur[2].lineno}: {ast.unparse(cur[2])[:60]}" if cur else ""
        return Pv("asym", why=why + loc)
    def const(s, v): return s.U
    def flat(s, v): return v
    def is_untracked(s, v): return v.k == "sym"
    def field_default(s, obj, name): return s.U
    def iter_elem(s, v): return v
    def pysum(s, v): return v
    def pair(s, a, b):
        return a.k == "end" and b.k == "end" and a.side != b.side and a.path == b.path
    def join(s, a, b):
        if a is None: return b
        if b is None: return a
        if a.k == "sym" and b.k == "sym": return a
        for k in ("asym", "top"):
            if k in (a.k, b.k): return a if a.k == k else b
        if a.k == "anti" and b.k == "anti": return a
        if s.pair(a, b): return s.U                      # {f(A), f(B)} as an unordered collection
        if a.k == "end" and b.k == "end" and a.side == b.side and a.path == b.path: return a
        return s.asym(f"mixing {a!r} and {b!r}")
    def neg(s, a): return a if a.k != "end" else Pv("end", a.side, a.path + ".neg")
    def binop(s, op, a, b, lit_l, lit_r):
        for k in ("asym", "top"):
            if k in (a.k, b.k): return a if a.k == k else b
        if a.k == "sym" and b.k == "sym": return s.U
        if s.pair(a, b):
            if isinstance(op, COMM): return s.U
            if isinstance(op, ast.Sub): return Pv("anti")
            return s.asym(f"non-commutative {type(op).__name__} of the two endpoints")
        if a.k == "anti" or b.k == "anti":
            o = b if a.k == "anti" else a
            if o.k == "anti":
                return s.U if isinstance(op, (ast.Mult, ast.Div)) else Pv("anti")
            if o.k == "sym":
                if isinstance(op, (ast.Mult, ast.Div)): return Pv("anti")
                if isinstance(op, ast.Pow) and a.k == "anti" and isinstance(lit_r, int):
                    return s.U if lit_r % 2 == 0 else Pv("anti")
                return s.asym("sum of an antisymmetric and a symmetric value")
        if a.k == "end" and b.k == "sym": return Pv("end", a.side, a.path + f".{type(op).__name__}r")
        if b.k == "end" and a.k == "sym": return Pv("end", b.side, b.path + f".{type(op).__name__}l")
        return s.asym(f"{type(op).__name__} of {a!r} and {b!r}")
    def compare(s, vals, node):
        vals = [v for v in vals]
        if all(v.k == "sym" for v in vals): return s.U
        for k in ("asym", "top"):
            for v in vals:
                if v.k == k: return v
        ends = [v for v in vals if v.k == "end"]
        if len(ends) == 2 and s.pair(*ends) and isinstance(node, ast.BoolOp): return s.U
        if len(ends) == 1 and len(vals) <= 3 and all(v.k in ("sym", "end") for v in vals):
            e = ends[0]
            return Pv("end", e.side, e.path + ".cmp" + (ast.unparse(node.ops[0]) if hasattr(node, "ops") and False else ""))
        if len(ends) == 2 and isinstance(node, ast.Compare):
            return s.asym("ordering comparison between the two endpoints")
        return s.asym("comparison involving one endpoint")
    def tracked_branch(s, c, a, b, it):
        if c.k in ("asym", "top"): return c
        return s.asym("branch on an endpoint-dependent condition") if c.k != "sym" else it.vjoin(a, b)
    def subscript(s, v, sl, idx):
        if v.k == "end": return Pv("end", v.side, v.path + f"[{ast.unparse(sl)}]")
        return v
    def attribute(s, v, name):
        if v.k == "sym": return s.U
        return Bound(v, name)
    def method(s, v, name, args, node):
        if v.k == "sym":
            ends = [a for a in args if a.k == "end"]
            if len(ends) == 1 and all(a.k in ("sym", "end") for a in args):
                e = ends[0]; return Pv("end", e.side, e.path + f".{name}()")
            if all(a.k == "sym" for a in args): return s.U
        return s.top("method ." + name)
    def store_attr(s, o, name, v): return None
    def store_subscript(s, cur, sl, v): return s.join(cur, v)
    def summary(s, name, args, kwargs, node):
        it = s.interp
        if name in ("min", "max", "numpy.min", "numpy.max", "sum", "numpy.sum") and args and isinstance(args[0], Tup):
            items = [it.flat(x) for x in args[0].items]
            if len(items) == 2 and s.pair(*items): return s.U
        fa = [it.flat(a) for a in args]
        for k in ("asym", "top"):
            for v in fa:
                if v.k == k: return v
        if all(v.k == "sym" for v in fa): return s.U
        if name in ("numpy.array", "numpy.asarray"): return fa[0]
        if name in ("numpy.sqrt", "numpy.abs", "abs", "numpy.square", "numpy.cos") and fa[0].k == "anti": return s.U
        if name.startswith(("numpy.", "scipy.")) and len(fa) >= 1:
            ends = [v for v in fa if v.k == "end"]
            if len(ends) == 1 and all(v.k in ("sym", "end") for v in fa):
                e = ends[0]; return Pv("end", e.side, e.path + f".{name}")
            if any(v.k == "anti" for v in fa): return s.top(name + " of an antisymmetric value")
        return NotImplemented
