"""Small AST helpers shared by the rule modules."""
import ast

from .source import parent


def strip_doc(fn):
    return [s for s in fn.body if not (isinstance(s, ast.Expr) and isinstance(s.value, ast.Constant) and isinstance(s.value.value, str))]


def stmts_in_order(fn_or_body):
    """Flatten statements in source order (compound statements included, before their bodies)."""
    out = []

    def walk(body):
        for st in body:
            out.append(st)
            if isinstance(st, (ast.FunctionDef, ast.ClassDef)):
                continue
            for f in ("body", "orelse", "finalbody"):
                sub = getattr(st, f, None)
                if isinstance(sub, list):
                    walk(sub)
            if isinstance(st, ast.Try):
                for h in st.handlers:
                    walk(h.body)
    walk(fn_or_body.body if hasattr(fn_or_body, "body") else fn_or_body)
    return out


def dfs(node):
    """Depth-first pre-order walk in field order (body before orelse): the structural order of the normalised tree, independent
    of line numbers."""
    yield node
    for ch in ast.iter_child_nodes(node):
        yield from dfs(ch)


def u(node):
    return ast.unparse(node)


def is_call(node, name=None, recv=None, func=None):
    """Call of a method `recv.name(...)` or of a plain function `func(...)`."""
    if not isinstance(node, ast.Call):
        return False
    if func is not None:
        return ast.unparse(node.func) == func
    if not isinstance(node.func, ast.Attribute):
        return False
    if name is not None and node.func.attr != name:
        return False
    if recv is not None and ast.unparse(node.func.value) != recv:
        return False
    return True


def calls(node, name=None, recv=None, func=None):
    return [n for n in ast.walk(node) if is_call(n, name, recv, func)]


def kwargs_of(call):
    return {k.arg: k.value for k in call.keywords if k.arg}


def _always_leaves(stmts):
    if not stmts:
        return False
    last = stmts[-1]
    if isinstance(last, (ast.Return, ast.Raise, ast.Continue, ast.Break)):
        return True
    return isinstance(last, ast.If) and bool(last.orelse) and _always_leaves(last.body) and _always_leaves(last.orelse)


_NEG = {ast.IsNot: ast.Is, ast.NotEq: ast.Eq, ast.NotIn: ast.In}


def _positive_form(test, pol):
    """(test, polarity) with the negation moved into the polarity: `not X`, `a is not b`, `a != b`, `a not in b` read as negated X"""
    while True:
        if isinstance(test, ast.UnaryOp) and isinstance(test.op, ast.Not):
            test, pol = test.operand, not pol
        elif isinstance(test, ast.Compare) and len(test.ops) == 1 and type(test.ops[0]) in _NEG:
            t2 = ast.Compare(left=test.left, ops=[_NEG[type(test.ops[0])]()], comparators=test.comparators)
            ast.copy_location(t2, test)
            test, pol = t2, not pol
        else:
            return test, pol


def guards(node, stop=None):
    return [_positive_form(t, pol) for t, pol in _guards_raw(node, stop)]


def _guards_raw(node, stop=None):
    """Conditions under which `node` runs, with polarity, innermost first: [(test node, polarity: bool)] -- the tests of the enclosing `if`s
    (arm taken), and, for guard clauses, the tests of earlier `if`s of the same statement list whose taken arm always leaves
    (`if c: return ...` before the statement means `not c` holds at the statement)."""
    out = []
    child, p = node, parent(node)
    while p is not None and p is not stop:
        if isinstance(p, ast.If):
            inbody = any(child is s for s in p.body)
            out.append((p.test, inbody))
        elif isinstance(p, ast.IfExp):
            if child is p.body:
                out.append((p.test, True))
            elif child is p.orelse:
                out.append((p.test, False))
        # guard clauses earlier in the same list
        for field in ("body", "orelse", "finalbody"):
            seq = getattr(p, field, None)
            if isinstance(seq, list) and any(child is s_ for s_ in seq):
                for s_ in seq:
                    if s_ is child:
                        break
                    if isinstance(s_, ast.If):
                        if _always_leaves(s_.body) and not _always_leaves(s_.orelse):
                            out.append((s_.test, False))
                        elif s_.orelse and _always_leaves(s_.orelse) and not _always_leaves(s_.body):
                            out.append((s_.test, True))
        child, p = p, parent(p)
    return out


def enclosing_stmt(node, container):
    """The statement directly inside `container.body` (or orelse...) that contains node."""
    child = node
    while parent(child) is not None and parent(child) is not container:
        child = parent(child)
    return child


def top_stmt(node, fn):
    return enclosing_stmt(node, fn)


def names_in(node):
    return {n.id for n in ast.walk(node) if isinstance(n, ast.Name)}


def assigned_names(target):
    return [n.id for n in ast.walk(target) if isinstance(n, ast.Name)]


def returns(fn):
    out = []

    def walk(n):
        for ch in ast.iter_child_nodes(n):
            if isinstance(ch, (ast.FunctionDef, ast.Lambda, ast.ClassDef)):
                continue
            if isinstance(ch, ast.Return):
                out.append(ch)
            walk(ch)
    walk(fn)
    return out


def const(node):
    if isinstance(node, ast.Constant):
        return node.value
    if isinstance(node, ast.UnaryOp) and isinstance(node.op, ast.USub) and isinstance(node.operand, ast.Constant):
        return -node.operand.value
    return None


def parse_expr(src):
    return ast.parse(src, mode="eval").body


def self_attr(node, name=None):
    return (isinstance(node, ast.Attribute) and isinstance(node.value, ast.Name) and node.value.id == "self"
            and (name is None or node.attr == name))


def dominates_in_body(a_stmt, b_stmt, body):
    """Both are direct children of `body`; a precedes b."""
    ids = [id(s) for s in body]
    return id(a_stmt) in ids and id(b_stmt) in ids and ids.index(id(a_stmt)) < ids.index(id(b_stmt))


# ------------------------------------------------------------------------------------------------------
# alpha-renaming-insensitive text: local names -> v0, v1, ... in order of first binding occurrence.
# Works on a re-parsed copy (ast.parse(ast.unparse(x))): the repository trees carry _parent links and are never mutated.
# ------------------------------------------------------------------------------------------------------
class _Canon(ast.NodeTransformer):
    def __init__(self, keep=()):
        self.map = {}
        self.keep = set(keep) | {"self", "cls", "True", "False", "None"}

    def bind(self, name):
        if name in self.keep:
            return name
        if name not in self.map:
            self.map[name] = f"v{len(self.map)}"
        return self.map[name]

    def collect(self, tree):
        for n in ast.walk(tree):
            if isinstance(n, ast.arg):
                self.bind(n.arg)
            elif isinstance(n, ast.Name) and isinstance(n.ctx, (ast.Store, ast.Del)):
                self.bind(n.id)

    def visit_Name(self, n):
        if n.id in self.map:
            n.id = self.map[n.id]
        return n

    def visit_arg(self, n):
        if n.arg in self.map:
            n.arg = self.map[n.arg]
        return n


def canon(nodes, keep=()):
    """Canonical text of a statement list / node: docstrings dropped, bound local names renamed positionally."""
    if isinstance(nodes, ast.AST):
        nodes = [nodes]
    src = "\n".join(ast.unparse(n) for n in nodes)
    tree = ast.parse(src)
    body = [s for s in tree.body if not (isinstance(s, ast.Expr) and isinstance(s.value, ast.Constant) and isinstance(s.value.value, str))]
    tree.body = body
    c = _Canon(keep)
    c.collect(tree)
    c.visit(tree)
    return [ast.unparse(s) for s in tree.body]


def canon_src(src, keep=()):
    return canon(ast.parse(src).body, keep)
