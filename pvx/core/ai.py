"""Spike 2: domain-generic flow-sensitive abstract interpreter over Python AST.

The interpreter owns: environments, control flow, tuples/lists, repo objects (fields), function
references/closures, class construction, method/property dispatch through the MRO, super(),
operator overloading on repo classes, memoised interprocedural calls with a purity shortcut.
A Domain owns: leaf values and every arithmetic / numpy semantic decision.
"""
import ast
from .source import Repo

# ------------------------------------------------------------------ structured (non-leaf) values
class Tup:
    """finite tuple/list; exact=True (set by a driver) means "exactly these elements": loops over it are unrolled"""
    def __init__(s, items, exact=False): s.items = list(items); s.exact = exact
    def __repr__(s): return "(" + ", ".join(map(repr, s.items)) + ")"
class Obj:
    def __init__(s, ci, fields=None): s.ci, s.fields = ci, dict(fields or {})
    def __repr__(s): return f"<{s.ci.name}>"
class Fn:
    def __init__(s, node, env, self_obj=None, ci=None, module=None):
        s.node, s.env, s.self_obj, s.ci, s.module = node, env, self_obj, ci, module
    def __repr__(s): return f"<fn {getattr(s.node, 'name', 'lambda')}>"
class Cls:
    def __init__(s, ci): s.ci = ci
    def __repr__(s): return f"<class {s.ci.name}>"
class Mod:
    def __init__(s, path): s.path = path
    def __repr__(s): return f"<mod {s.path}>"
class Bound:
    """attribute of a leaf/tuple value that may be called: x.copy(), lst.append(v), opaque.method()"""
    def __init__(s, v, name): s.v, s.name = v, name
    def __repr__(s): return f"<{s.v!r}.{s.name}>"
STRUCT = (Tup, Obj, Fn, Cls, Mod, Bound)

class Scope:
    def __init__(s, parent=None):
        s.vars, s.parent = {}, parent
        s.ci = getattr(parent, "ci", None); s.module = getattr(parent, "module", None)
    def get(s, k):
        c = s
        while c is not None:
            if isinstance(c, dict):
                return c.get(k)
            if k in c.vars: return c.vars[k]
            c = c.parent
        return None
    def set(s, k, v): s.vars[k] = v
    def fork(s):
        f = Scope(s.parent); f.vars = dict(s.vars); f.ci, f.module = s.ci, s.module
        return f
    def adopt(s, o): s.vars = o.vars
    def snapshot(s): return {k: repr(v) for k, v in s.vars.items()}

def const_value(n):
    if isinstance(n, ast.Constant): return n.value
    if isinstance(n, ast.UnaryOp) and isinstance(n.op, ast.USub) and isinstance(n.operand, ast.Constant):
        return -n.operand.value
    return None

BUILTIN_PASS = {"list", "tuple", "reversed", "sorted", "iter"}
IGNORED_CALL_PREFIX = ("logger.", "logging.", "warnings.", "print")

NON_MUTATING_METHODS = {
    "astype", "copy", "sum", "mean", "std", "var", "max", "min", "argmax", "argmin", "reshape", "flatten", "ravel", "transpose", "conj", "conjugate",
    "tolist", "item", "any", "all", "dot", "cumsum", "cumprod", "prod", "round", "clip", "squeeze", "view", "nonzero", "searchsorted", "repeat", "take",
    "items", "keys", "values", "get", "index", "count", "split", "join", "format", "startswith", "endswith", "lower", "upper", "strip", "encode", "decode",
    "with_times", "shift", "filter_frequencies", "resample", "is_integer", "total_seconds", "as_integer_ratio", "bit_length", "real", "imag"}


class Interp:
    def __init__(s, repo, dom, depth=8):
        s.repo, s.dom, s.max_depth = repo, dom, depth
        s.notes, s.assume, s._menv = [], {}, {}
        s.stats = {"calls": 0, "shortcuts": 0}
        dom.interp = s

    # ---------------- helpers on values
    def flat(s, v, _seen=None):
        if isinstance(v, Tup):
            r = None
            for x in v.items: r = s.dom.join(r, s.flat(x))
            return r if r is not None else s.dom.U
        if isinstance(v, Obj):
            _seen = _seen or set()
            if id(v) in _seen: return s.dom.U
            _seen.add(id(v))
            r = None
            for x in v.fields.values(): r = s.dom.join(r, s.flat(x, _seen))
            return r if r is not None else s.dom.U
        if isinstance(v, Bound): return s.flat(v.v)
        if isinstance(v, (Fn, Cls, Mod)) or v is None: return s.dom.U
        return s.dom.flat(v)
    def untracked(s, v, _seen=None):
        _seen = _seen or set()
        if id(v) in _seen: return True
        _seen.add(id(v))
        if isinstance(v, (Fn, Bound)): return False
        if isinstance(v, (Cls, Mod)) or v is None: return True
        if isinstance(v, Tup): return all(s.untracked(x, _seen) for x in v.items)
        if isinstance(v, Obj): return all(s.untracked(x, _seen) for x in v.fields.values())
        return s.dom.is_untracked(v)
    def vjoin(s, a, b):
        if a is None: return b
        if b is None: return a
        if isinstance(a, Tup) and isinstance(b, Tup) and len(a.items) == len(b.items):
            return Tup([s.vjoin(x, y) for x, y in zip(a.items, b.items)])
        if isinstance(a, Obj) and isinstance(b, Obj):
            if a is b: return a
            if a.ci is b.ci:
                o = Obj(a.ci)
                for k in set(a.fields) | set(b.fields): o.fields[k] = s.vjoin(a.fields.get(k), b.fields.get(k))
                return o
            return a
        if isinstance(a, STRUCT) or isinstance(b, STRUCT):
            if type(a) is type(b): return a
            return s.dom.join(s.flat(a), s.flat(b))
        return s.dom.join(a, b)
    def iter_elem(s, it):
        if isinstance(it, Tup):
            r = None
            for x in it.items: r = s.vjoin(r, x)
            return r if r is not None else s.dom.U
        if isinstance(it, STRUCT): return s.dom.U
        return s.dom.iter_elem(it)

    # ---------------- module environments
    def menv(s, m):
        if m in s._menv: return s._menv[m]
        env = s._menv[m] = {}
        for name, tgt in s.repo.imports.get(m, {}).items():
            if tgt.startswith("pyrex"):
                mod, _, n = tgt.rpartition(".")
                ci = s.repo.resolve_class(m, name)
                if ci: env[name] = Cls(ci)
                elif mod in s.repo.modules:
                    for st in s.repo.modules[mod].body:
                        if isinstance(st, ast.FunctionDef) and st.name == n:
                            env[name] = Fn(st, s.menv(mod), module=mod)
                        elif (isinstance(st, ast.Assign) and isinstance(st.targets[0], ast.Name)
                              and st.targets[0].id == n and isinstance(st.value, ast.Call)):
                            c = s.repo.resolve_class(mod, ast.unparse(st.value.func))
                            if c: env[name] = Obj(c)            # module-level instance, e.g. ice = AntarcticIce()
                    if name not in env and n in s.repo.imports.get(mod, {}) and not s.repo.imports[mod][n].startswith("pyrex"):
                        env[name] = Mod(s.repo.imports[mod][n])  # re-exported library name (e.g. the trapz compatibility import)
                elif tgt in s.repo.modules:
                    env[name] = Mod(tgt)
            else:
                env[name] = Mod(tgt)
        for st in s.repo.modules[m].body:
            if isinstance(st, ast.ClassDef): env[st.name] = Cls(s.repo.classes[m + "." + st.name])
            elif isinstance(st, ast.FunctionDef): env[st.name] = Fn(st, env, module=m)
        for k, v in s.repo.aliases.get(m, {}).items():
            if v in env: env[k] = env[v]
        return env

    # ---------------- calls
    def call_fn(s, fn, args, kwargs, depth):
        s.stats["calls"] += 1
        if depth > s.max_depth:
            return s.dom.top("inlining bound")
        node = fn.node
        # purity shortcut: a call whose receiver and arguments are all untracked returns *untracked* without being analysed --
        # unless the callee hands back a repo object (`signal.copy()`, a constructor call, `self`): objects have identity
        # and mutable state, so later stores on the result must be tracked even if nothing is tracked yet.
        if ((fn.self_obj is None or s.untracked(fn.self_obj)) and all(s.untracked(a) for a in args)
                and all(s.untracked(v) for v in kwargs.values()) and not isinstance(node, ast.Lambda)
                and getattr(node, "name", "") != "__init__" and s.dom.pure_shortcut and isinstance(fn.env, dict)
                and not s.returns_object(node)):
            s.stats["shortcuts"] += 1
            return s.dom.U
        local = Scope(fn.env)
        a = node.args
        params = [p.arg for p in a.posonlyargs + a.args]
        pos = ([fn.self_obj] if fn.self_obj is not None else []) + list(args)
        defaults = [None] * (len(params) - len(a.defaults)) + list(a.defaults)
        for i, p in enumerate(params):
            if i < len(pos): local.set(p, pos[i])
            elif p in kwargs: local.set(p, kwargs[p])
            elif defaults[i] is not None: local.set(p, s.eval(defaults[i], Scope(fn.env), depth))
            else: local.set(p, s.dom.U)
        for p, dflt in zip(a.kwonlyargs, a.kw_defaults):
            local.set(p.arg, kwargs[p.arg] if p.arg in kwargs else (s.eval(dflt, Scope(fn.env), depth) if dflt else s.dom.U))
        if a.vararg: local.set(a.vararg.arg, Tup(pos[len(params):]))
        if a.kwarg: local.set(a.kwarg.arg, s.dom.U)
        local.ci, local.module = fn.ci, fn.module
        if isinstance(node, ast.Lambda):
            return s.eval(node.body, local, depth)
        rets = []
        s.block(node.body, local, depth, rets)
        r = None
        for v in rets: r = s.vjoin(r, v)
        return r if r is not None else s.dom.U

    def returns_object(s, node):
        """Syntactic: may a `return` of this function hand back a repo object (constructor call, .copy(), self, or a local bound to one)?"""
        memo = s.__dict__.setdefault("_retobj", {})
        if id(node) in memo:
            return memo[id(node)]
        names = set()
        res = False

        def objexpr(e):
            if isinstance(e, ast.Name):
                return e.id == "self" or e.id in names
            if isinstance(e, ast.Call):
                f = e.func
                if isinstance(f, ast.Name) and f.id in s.repo.by_name:
                    return True
                if isinstance(f, ast.Attribute) and f.attr in ("copy", "with_times") :
                    return True
                if isinstance(f, ast.Attribute) and isinstance(f.value, ast.Name) and f.value.id == "self" and f.attr in ("solution_class",):
                    return True
            if isinstance(e, (ast.Tuple, ast.List)):
                return any(objexpr(x) for x in e.elts)
            if isinstance(e, (ast.ListComp, ast.GeneratorExp)):
                return objexpr(e.elt)
            if isinstance(e, ast.IfExp):
                return objexpr(e.body) or objexpr(e.orelse)
            return False
        for _ in range(2):
            for n in ast.walk(node):
                if isinstance(n, ast.Assign) and len(n.targets) == 1 and isinstance(n.targets[0], ast.Name) and objexpr(n.value):
                    names.add(n.targets[0].id)
                elif isinstance(n, ast.Call) and isinstance(n.func, ast.Attribute) and n.func.attr in ("append", "extend") \
                        and isinstance(n.func.value, ast.Name) and n.args and objexpr(n.args[0]):
                    names.add(n.func.value.id)
        for n in ast.walk(node):
            if isinstance(n, ast.Return) and n.value is not None and objexpr(n.value):
                res = True
        memo[id(node)] = res
        return res

    def construct(s, ci, args, kwargs, depth):
        obj = Obj(ci)
        owner, ent = ci.lookup("__init__")
        if ent and ent[0] != "classattr":
            fn = Fn(ent[1], s.menv(owner.module), self_obj=obj, ci=owner, module=owner.module)
            s.call_fn(fn, args, kwargs, depth + 1)
        return obj

    def getattr_obj(s, obj, name, depth):
        if name in obj.fields: return obj.fields[name]
        owner, ent = obj.ci.lookup(name)
        if ent is None: return s.dom.field_default(obj, name)
        kind, node = ent
        if kind == "classattr":
            return s.eval(node, Scope(s.menv(owner.module)), depth)
        fn = Fn(node, s.menv(owner.module), self_obj=obj, ci=owner, module=owner.module)
        if kind in ("property", "lazy"): return s.call_fn(fn, [], {}, depth + 1)
        if kind == "static": fn.self_obj = None
        if kind == "classmethod": fn.self_obj = Cls(obj.ci)
        return fn

    # ---------------- expressions
    def eval(s, n, sc, d):
        m = getattr(s, "e_" + type(n).__name__, None)
        if m is None:
            s.notes.append(f"unsupported expr {type(n).__name__}")
            return s.dom.top("unsupported " + type(n).__name__)
        return m(n, sc, d)
    def e_Constant(s, n, sc, d): return s.dom.const(n.value)
    def e_Name(s, n, sc, d):
        v = sc.get(n.id)
        return s.dom.U if v is None else v
    def e_Tuple(s, n, sc, d):
        out = []
        for e in n.elts:
            if isinstance(e, ast.Starred):
                v = s.eval(e.value, sc, d); out.extend(v.items if isinstance(v, Tup) else [v])
            else: out.append(s.eval(e, sc, d))
        return Tup(out)
    e_List = e_Tuple
    def e_Set(s, n, sc, d): return s.dom.U
    def e_Lambda(s, n, sc, d): return Fn(n, sc, ci=sc.ci, module=sc.module)
    def e_JoinedStr(s, n, sc, d): return s.dom.U
    def e_Dict(s, n, sc, d): return s.dom.U
    def e_DictComp(s, n, sc, d): return s.dom.U
    def e_Slice(s, n, sc, d): return s.dom.U
    def e_Starred(s, n, sc, d): return s.eval(n.value, sc, d)
    def cond_join(s, c, a, b):
        if s.dom.is_untracked(c): return s.vjoin(a, b)
        return s.dom.tracked_branch(c, a, b, s)
    def e_IfExp(s, n, sc, d):
        c = s.flat(s.eval(n.test, sc, d))
        return s.cond_join(c, s.eval(n.body, sc, d), s.eval(n.orelse, sc, d))
    def e_UnaryOp(s, n, sc, d):
        v = s.eval(n.operand, sc, d)
        if isinstance(n.op, ast.Not): return s.dom.compare([s.flat(v)], n)
        if isinstance(n.op, ast.USub): return s.dom.neg(s.flat(v)) if not isinstance(v, Obj) else v
        return v
    def e_BoolOp(s, n, sc, d):
        return s.dom.compare([s.flat(s.eval(e, sc, d)) for e in n.values], n)
    def e_Compare(s, n, sc, d):
        if all(isinstance(o, (ast.Is, ast.IsNot)) for o in n.ops): return s.dom.U     # identity tests never read values
        return s.dom.compare([s.flat(s.eval(e, sc, d)) for e in [n.left] + n.comparators], n)
    def e_BinOp(s, n, sc, d):
        return s.binop(n.op, s.eval(n.left, sc, d), s.eval(n.right, sc, d), n.left, n.right, d)
    OPS = {ast.Add: ("__add__", "__radd__"), ast.Sub: ("__sub__", "__rsub__"),
           ast.Mult: ("__mul__", "__rmul__"), ast.Div: ("__truediv__", "__rtruediv__")}
    def binop(s, op, l, r, ln, rn, d):
        if isinstance(l, Obj) or isinstance(r, Obj):
            if type(op) in s.OPS:
                fw, rv = s.OPS[type(op)]
                if isinstance(l, Obj) and l.ci.lookup(fw)[1]:
                    return s.call_fn(s.getattr_obj(l, fw, d), [r], {}, d + 1)
                if isinstance(r, Obj) and r.ci.lookup(rv)[1]:
                    return s.call_fn(s.getattr_obj(r, rv, d), [l], {}, d + 1)
            return s.dom.top("operator on object")
        if isinstance(l, Tup) and isinstance(r, Tup) and isinstance(op, ast.Add): return Tup(l.items + r.items)
        if isinstance(l, Tup) and isinstance(op, ast.Mult) and s.untracked(r): return l     # [x]*n
        return s.dom.binop(op, s.flat(l) if isinstance(l, STRUCT) else l, s.flat(r) if isinstance(r, STRUCT) else r,
                           const_value(ln) if ln is not None else None, const_value(rn) if rn is not None else None)
    def e_Subscript(s, n, sc, d):
        v = s.eval(n.value, sc, d)
        if isinstance(v, Tup):
            k = const_value(n.slice)
            if isinstance(k, int) and -len(v.items) <= k < len(v.items): return v.items[k]
            if isinstance(n.slice, ast.Slice): return v
            return s.iter_elem(v)
        if isinstance(v, STRUCT): return s.dom.U if s.untracked(v) else s.dom.top("subscript of object")
        idx = None if isinstance(n.slice, (ast.Slice, ast.Tuple)) else s.flat(s.eval(n.slice, sc, d))
        s.dom.scope = sc
        return s.dom.subscript(v, n.slice, idx)
    def e_Attribute(s, n, sc, d):
        v = s.eval(n.value, sc, d)
        if isinstance(v, Mod): return Mod(v.path + "." + n.attr)
        if isinstance(v, Obj): return s.getattr_obj(v, n.attr, d)
        if isinstance(v, Cls):
            owner, ent = v.ci.lookup(n.attr)
            if ent and ent[0] != "classattr":
                fn = Fn(ent[1], s.menv(owner.module), ci=owner, module=owner.module)
                if ent[0] == "classmethod": fn.self_obj = v
                return fn
            if ent: return s.eval(ent[1], Scope(s.menv(owner.module)), d)
            return s.dom.U
        if isinstance(v, (Fn, Bound)): return s.dom.U
        if isinstance(v, Tup): return Bound(v, n.attr)
        return s.dom.attribute(v, n.attr)
    def e_ListComp(s, n, sc, d):
        inner = Scope(sc)
        for g in n.generators:
            s.bind(g.target, s.iter_elem(s.eval(g.iter, inner, d)), inner, d)
        return Tup([s.eval(n.elt, inner, d)])
    e_GeneratorExp = e_ListComp
    def e_Call(s, n, sc, d):
        r = s._e_call(n, sc, d)
        # a method the analysis does not know, called on a plain (array-like) local with tracked data in play, may update the local
        # in place (ndarray.itemset / fill / put / sort ...): the local is unknown from here on, never "unchanged"
        f = n.func
        if isinstance(f, ast.Attribute) and isinstance(f.value, ast.Name) and f.attr not in NON_MUTATING_METHODS and f.value.id in sc.vars:
            cur = sc.vars[f.value.id]
            if not isinstance(cur, (Tup, Obj, Fn, Cls, Mod, Bound)):
                argv = [s.eval(a.value if isinstance(a, ast.Starred) else a, sc, d) for a in n.args] + [s.eval(k.value, sc, d) for k in n.keywords]
                if not s.untracked(cur) or any(not s.untracked(a) for a in argv):
                    sc.vars[f.value.id] = s.dom.top(f"possibly updated in place by .{f.attr}()")
        return r
    def _e_call(s, n, sc, d):
        args = []
        for a in n.args:
            if isinstance(a, ast.Starred):
                v = s.eval(a.value, sc, d); args.extend(v.items if isinstance(v, Tup) else [v])
            else: args.append(s.eval(a, sc, d))
        kwargs = {k.arg: s.eval(k.value, sc, d) for k in n.keywords if k.arg}
        f = n.func
        if (isinstance(f, ast.Attribute) and isinstance(f.value, ast.Call)
                and isinstance(f.value.func, ast.Name) and f.value.func.id == "super"):
            selfobj = sc.get("self")
            mro = selfobj.ci.mro() if isinstance(selfobj, Obj) else []
            if sc.ci in mro:
                for nxt in mro[mro.index(sc.ci) + 1:]:
                    if f.attr in nxt.methods:
                        kind, node = nxt.methods[f.attr]
                        fn = Fn(node, s.menv(nxt.module), self_obj=selfobj, ci=nxt, module=nxt.module)
                        return s.call_fn(fn, args, kwargs, d + 1)
            return s.dom.U
        fv = s.eval(f, sc, d)
        if isinstance(fv, Fn): return s.call_fn(fv, args, kwargs, d + 1)
        if isinstance(fv, Cls): return s.construct(fv.ci, args, kwargs, d)
        if isinstance(fv, Bound): return s.bound_call(fv, args, kwargs, n)
        name = fv.path if isinstance(fv, Mod) else (f.id if isinstance(f, ast.Name) else None)
        if name is not None: return s.summary(name, args, kwargs, n)
        if all(s.untracked(a) for a in args) and all(s.untracked(v) for v in kwargs.values()): return s.dom.U
        return s.dom.top("call of unknown callee " + ast.unparse(f)[:40])
    def bound_call(s, b, args, kwargs, n):
        if isinstance(b.v, Tup):
            if b.name == "append": b.v.items.append(args[0]); return s.dom.U
            if b.name == "extend": b.v.items.extend(args[0].items if isinstance(args[0], Tup) else [args[0]]); return s.dom.U
            if b.name in ("copy", "items", "keys", "values"): return b.v
            if b.name == "pop": return s.iter_elem(b.v)
            return s.dom.U
        return s.dom.method(b.v, b.name, [s.flat(a) for a in args], n)
    def summary(s, name, args, kwargs, n):
        head = name.split(".")[0]
        name = {"np": "numpy"}.get(head, head) + name[len(head):]
        if name.startswith(IGNORED_CALL_PREFIX): return s.dom.U
        if name == "zip": return Tup([Tup([s.iter_elem(a) for a in args])])
        if name == "enumerate": return Tup([Tup([s.dom.U, s.iter_elem(args[0])])])
        if name in BUILTIN_PASS: return args[0] if args else Tup([])
        if name in ("copy.deepcopy", "copy.copy"): return args[0]
        if name == "sum" and args: return s.dom.pysum(s.iter_elem(args[0]) if isinstance(args[0], Tup) else args[0])
        r = s.dom.summary(name, args, kwargs, n)
        if r is not NotImplemented: return r
        if name in ("delattr", "setattr", "super", "id", "hash", "isinstance", "hasattr", "callable", "type", "str", "repr", "len"):
            return s.dom.U
        if all(s.untracked(a) for a in args) and all(s.untracked(v) for v in kwargs.values()): return s.dom.U
        s.notes.append(f"no summary for {name} @{getattr(n, 'lineno', '?')}")
        return s.dom.top("no summary for " + name)

    # ---------------- statements
    def block(s, body, sc, depth, rets):
        for st in body:
            if s.stmt(st, sc, depth, rets) == "stop": return "stop"
    def merge(s, sc, a, b, cond=None):
        out = {}
        for k in set(a.vars) | set(b.vars):
            va, vb = a.vars.get(k), b.vars.get(k)
            if va is vb: out[k] = va
            elif cond is not None and not s.dom.is_untracked(cond): out[k] = s.cond_join(cond, va, vb)
            else: out[k] = s.vjoin(va, vb)
        sc.vars = out
    def stmt(s, st, sc, depth, rets):
        prev = getattr(s.dom, "cur", None)
        s.dom.cur = (sc.module, getattr(sc.ci, "name", None), st)
        try:
            return s._stmt(st, sc, depth, rets)
        finally:
            s.dom.cur = prev
    def _stmt(s, st, sc, depth, rets):
        t = type(st)
        if t is ast.Expr: s.eval(st.value, sc, depth)
        elif t is ast.Assign:
            v = s.eval(st.value, sc, depth)
            for tg in st.targets: s.bind(tg, v, sc, depth)
        elif t is ast.AnnAssign:
            if st.value is not None: s.bind(st.target, s.eval(st.value, sc, depth), sc, depth)
        elif t is ast.AugAssign:
            cur = s.eval(st.target, sc, depth)
            rhs = s.eval(st.value, sc, depth)
            if isinstance(cur, Obj):
                for m in ({ast.Mult: "__imul__", ast.Div: "__itruediv__", ast.Add: "__iadd__", ast.Sub: "__isub__"}.get(type(st.op)),
                          s.OPS.get(type(st.op), (None,))[0]):
                    if m and cur.ci.lookup(m)[1]:
                        s.bind(st.target, s.call_fn(s.getattr_obj(cur, m, depth), [rhs], {}, depth + 1), sc, depth)
                        break
            elif isinstance(cur, Tup) and isinstance(st.op, ast.Add):
                cur.items.extend(rhs.items if isinstance(rhs, Tup) else [rhs])
            else:
                v = s.binop(st.op, cur, rhs, None, st.value, depth)
                s.bind(st.target, v, sc, depth, partial=isinstance(st.target, ast.Subscript))
        elif t is ast.Return:
            if isinstance(st.value, ast.Name) and st.value.id == "NotImplemented": return "stop"
            rets.append(s.eval(st.value, sc, depth) if st.value else s.dom.U)
            return "stop"
        elif t is ast.Raise: return "stop"
        elif t is ast.If:
            key = ast.unparse(st.test)
            if key in s.assume:
                return s.block(st.body if s.assume[key] else st.orelse, sc, depth, rets)
            c = s.flat(s.eval(st.test, sc, depth))
            a, b = sc.fork(), sc.fork()
            ra, rb = [], []
            sa, sb = s.block(st.body, a, depth, ra), s.block(st.orelse, b, depth, rb)
            if s.dom.is_untracked(c): rets.extend(ra + rb)
            else: rets.extend(s.cond_join(c, r, s.dom.Z) for r in ra + rb)
            if sa == "stop" and sb == "stop": return "stop"
            if sa == "stop": sc.adopt(b)
            elif sb == "stop": sc.adopt(a)
            else: s.merge(sc, a, b, c)
        elif t in (ast.For, ast.While):
            itv = s.eval(st.iter, sc, depth) if t is ast.For else None
            if isinstance(itv, Tup) and itv.exact and not st.orelse:
                for x in list(itv.items):
                    s.bind(st.target, x, sc, depth)
                    if s.block(st.body, sc, depth, rets) == "stop":
                        break
                return None
            elem = s.iter_elem(itv) if t is ast.For else None
            for _ in range(4):
                before = sc.snapshot()
                body = sc.fork()
                if t is ast.For: s.bind(st.target, elem, body, depth)
                s.block(st.body, body, depth, rets)
                s.merge(sc, sc.fork(), body)
                if sc.snapshot() == before: break
            s.block(st.orelse, sc, depth, rets)
        elif t is ast.Try:
            body = sc.fork()
            sb = s.block(st.body, body, depth, rets)
            outs = []
            for h in st.handlers:
                hsc = sc.fork(); s.merge(hsc, hsc.fork(), body)
                if s.block(h.body, hsc, depth, rets) != "stop": outs.append(hsc)
            if sb != "stop":
                if s.block(st.orelse, body, depth, rets) != "stop": outs.append(body)
            if not outs: return "stop"
            sc.adopt(outs[0])
            for o in outs[1:]: s.merge(sc, sc.fork(), o)
            s.block(st.finalbody, sc, depth, rets)
        elif t is ast.With: return s.block(st.body, sc, depth, rets)
        elif t is ast.FunctionDef: sc.set(st.name, Fn(st, sc, ci=sc.ci, module=sc.module))
        elif t in (ast.Pass, ast.Assert, ast.Delete, ast.Import, ast.ImportFrom, ast.Global, ast.Nonlocal, ast.Break, ast.Continue): pass
        else: s.notes.append("unsupported stmt " + t.__name__)

    def bind(s, tg, v, sc, depth, partial=False):
        if isinstance(tg, ast.Name):
            sc.set(tg.id, v)
        elif isinstance(tg, (ast.Tuple, ast.List)):
            if isinstance(v, Tup) and len(v.items) == len(tg.elts): items = v.items
            else: items = [s.iter_elem(v)] * len(tg.elts)
            for e, x in zip(tg.elts, items): s.bind(e, x, sc, depth)
        elif isinstance(tg, ast.Attribute):
            o = s.eval(tg.value, sc, depth)
            if isinstance(o, Obj):
                owner, ent = o.ci.lookup(tg.attr + ".setter")
                if ent:
                    s.call_fn(Fn(ent[1], s.menv(owner.module), self_obj=o, ci=owner, module=owner.module), [v], {}, depth + 1)
                else: o.fields[tg.attr] = v
            elif not isinstance(o, STRUCT):
                nv = s.dom.store_attr(o, tg.attr, s.flat(v))
                if nv is not None: s.bind(tg.value, nv, sc, depth)
        elif isinstance(tg, ast.Subscript):
            cur = s.eval(tg.value, sc, depth)
            if isinstance(cur, Tup):
                k = const_value(tg.slice)
                if isinstance(k, int) and -len(cur.items) <= k < len(cur.items): cur.items[k] = v
                else: cur.items[:] = [s.vjoin(x, v) for x in cur.items] or [v]
            elif isinstance(cur, STRUCT): pass
            else:
                s.bind(tg.value, s.dom.store_subscript(cur, tg.slice, s.flat(v) if isinstance(v, STRUCT) else v), sc, depth)
        elif isinstance(tg, ast.Starred): s.bind(tg.value, v, sc, depth)
