"""./check <property> [--tier quick|thorough] [--replay FILE] [--root DIR]

exit 0  every rule of the property holds on the working tree (KNOWN-FINDING lines for listed findings)
exit 1  `VIOLATION property=<id> replay=<path>` for every finding not listed in known_findings.jsonl
exit 2  `ANALYSIS-ERROR ...`  the analysis itself is broken (missing anchor, unparsable file, an obligation
        that must be decidable became undecided, self-test failure) -- never a VIOLATION line
"""
import argparse
import ast
import importlib
import json
import os
import sys
import time
import traceback

from .core import report
from .core.source import Repo, AnalysisError

PROPS = [f"C{i:02d}" for i in range(1, 21)]


def load_rules(prop):
    return importlib.import_module(f"pvx.rules.{prop.lower()}")


def run_rules(mod, repo, prop, tier):
    ctx = report.Ctx(repo, prop, tier)
    mod.run(ctx)
    new_guard_rule(ctx, prop)
    return ctx


def module_value_reads(repo):
    """changed function -> module-level value names (defined by assignment in this module, or imported from a module of the package where they
    are defined by assignment: `ice`, `earth`, `earth_radius`) that it reads and its confirmed form does not"""
    import ast
    from .core import canon
    if hasattr(repo, "_module_value_reads"):
        return repo._module_value_reads
    own = {}
    for m, tree in repo.modules.items():
        own[m] = {t.id for st in tree.body if isinstance(st, (ast.Assign, ast.AnnAssign)) for t in (st.targets if isinstance(st, ast.Assign) else [st.target])
                  if isinstance(t, ast.Name) and not t.id.startswith("__") and t.id != "logger"}
    out = {}
    ref = canon.reference_functions()
    for m, tree in repo.modules.items():
        values = set(own[m])
        for st in tree.body:
            if isinstance(st, ast.ImportFrom):
                src = repo.abs_from(m, st) if hasattr(repo, "abs_from") else None
                for a in st.names:
                    if src in own and a.name in own[src]:
                        values.add(a.asname or a.name)
        for q, body, i, fn in canon.outer_functions(tree, m):
            if q not in repo.changed or q not in ref:
                continue
            got = canon.new_global_reads(fn, ref[q]["src"], values)
            if got:
                out[q] = got
    repo._module_value_reads = out
    # (callee, parameter) pairs no longer handed on
    dropped = {}
    for m, tree in repo.modules.items():
        for q, body, i, fn in canon.outer_functions(tree, m):
            if q in repo.changed and q in ref:
                d = canon.dropped_forwarding(fn, ref[q]["src"])
                if d:
                    dropped[q] = d
    repo._dropped_forwarding = dropped
    exits = {}
    for m, tree in repo.modules.items():
        for q, body, i, fn in canon.outer_functions(tree, m):
            if q in repo.changed and q in ref:
                d = canon.new_exits(fn, ref[q]["src"])
                if d:
                    exits[q] = d
    repo._new_exits = exits
    # attribute names defined by the package itself (methods, properties, attributes stored on self, class-level names)
    own = set()
    for m, tree in repo.modules.items():
        for n in ast.walk(tree):
            if isinstance(n, ast.ClassDef):
                for st in n.body:
                    if isinstance(st, (ast.FunctionDef, ast.AsyncFunctionDef)):
                        own.add(st.name)
                    elif isinstance(st, ast.Assign):
                        own.update(t.id for t in st.targets if isinstance(t, ast.Name))
            if isinstance(n, ast.Attribute) and isinstance(n.ctx, ast.Store) and isinstance(n.value, ast.Name) and n.value.id == "self":
                own.add(n.attr)
    dropped_r = {}
    for m, tree in repo.modules.items():
        fresh = {}
        for q, body, i, fn in canon.outer_functions(tree, m):
            if q not in ref:
                fresh[fn.name] = fn
        for q, body, i, fn in canon.outer_functions(tree, m):
            if q in repo.changed and q in ref:
                d = [a for a in canon.dropped_reads(fn, ref[q]["src"], fresh) if a in own]
                if d:
                    dropped_r[q] = d
    repo._dropped_reads = dropped_r
    memos = {}
    for m, tree in repo.modules.items():
        for q, body, i, fn in canon.outer_functions(tree, m):
            if q in ref and q not in repo.changed:
                continue                # as confirmed
            d = canon.incomplete_memos(fn)
            if d and q in ref:
                was = {(t, k, p_) for t, k, p_ in canon.incomplete_memos(ast.parse(ref[q]["src"]).body[0])}
                d = [x for x in d if x not in was]
            if d:
                memos[q] = d
    repo._incomplete_memos = memos
    # a new attribute that a method fills on demand from other attributes of self, and a sibling method that re-assigns / updates one of
    # those attributes without touching the remembered value
    confirmed_attrs = set()
    for r_ in ref.values():
        for n in ast.walk(ast.parse(r_["src"])):
            if isinstance(n, ast.Attribute):
                confirmed_attrs.add(n.attr)
            if isinstance(n, ast.Constant) and isinstance(n.value, str) and n.value.isidentifier():
                confirmed_attrs.add(n.value)
    MUT = ("append", "extend", "insert", "pop", "remove", "clear", "update", "sort", "reverse", "setdefault")
    stale = {}
    for cq, ci in repo.classes.items():
        methods = [(nm, ent[1]) for nm, ent in ci.methods.items()]
        for nm, fn in methods:
            fills = {}
            for n in ast.walk(fn):
                if isinstance(n, ast.Assign) and len(n.targets) == 1 and isinstance(n.targets[0], ast.Attribute) and isinstance(n.targets[0].value, ast.Name) \
                        and n.targets[0].value.id == "self" and n.targets[0].attr not in confirmed_attrs:
                    x = n.targets[0].attr
                    val = n.value
                    if isinstance(val, ast.Name):          # self.X = local; local = <expr>
                        for m_ in ast.walk(fn):
                            if isinstance(m_, ast.Assign) and len(m_.targets) == 1 and isinstance(m_.targets[0], ast.Name) and m_.targets[0].id == val.id \
                                    and not (isinstance(m_.value, ast.Call) and ast.unparse(m_.value.func) == "getattr"):
                                val = m_.value
                    reads_back = any((isinstance(m_, ast.Attribute) and m_.attr == x and isinstance(m_.ctx, ast.Load) and isinstance(m_.value, ast.Name) and m_.value.id == "self")
                                     or (isinstance(m_, ast.Constant) and m_.value == x) for m_ in ast.walk(fn))
                    srcs = {m_.attr for m_ in ast.walk(val) if isinstance(m_, ast.Attribute) and isinstance(m_.value, ast.Name) and m_.value.id == "self"
                            and isinstance(m_.ctx, ast.Load) and m_.attr != x}
                    if reads_back and srcs and not (isinstance(val, ast.Constant)):
                        fills[x] = srcs
            for x, srcs in fills.items():
                for nm2, fn2 in methods:
                    if fn2 is fn or nm2 == "__init__":
                        continue
                    touched = set()
                    for n in ast.walk(fn2):
                        if isinstance(n, ast.Attribute) and isinstance(n.value, ast.Name) and n.value.id == "self" and n.attr in srcs:
                            par = getattr(n, "_parent", None)
                            if isinstance(n.ctx, (ast.Store, ast.Del)):
                                touched.add(n.attr)
                            elif isinstance(par, ast.Attribute) and par.attr in MUT and isinstance(getattr(par, "_parent", None), ast.Call) and par._parent.func is par:
                                touched.add(n.attr)
                            elif isinstance(par, ast.Subscript) and isinstance(par.ctx, (ast.Store, ast.Del)) and par.value is n:
                                touched.add(n.attr)
                            elif isinstance(par, ast.AugAssign) and par.target is n:
                                touched.add(n.attr)
                    resets = any(isinstance(n, ast.Attribute) and n.attr == x and isinstance(n.ctx, (ast.Store, ast.Del)) for n in ast.walk(fn2)) \
                        or any(isinstance(n, ast.Constant) and n.value == x for n in ast.walk(fn2))
                    if touched and not resets:
                        stale.setdefault(f"{cq}.{nm2}", []).append((x, sorted(touched), nm))
    repo._stale_caches = stale
    return out


def new_guard_rule(ctx, prop):
    """Rnnz (generic, differential): in a function the property's rules are anchored in, a condition that the confirmed function does not test
    at all now decides whether statements run or whether the function / loop iteration is left early -- the shape of a "fast path" or a
    "nothing to do here" shortcut, which makes a for-all-inputs property depend on a new input class.  Validation (an `if` that only raises)
    is not reported; a rearranged condition of the confirmed function is not new.  Subject to the alignment gate like every other rule."""
    rid = f"R{prop[1:]}z"
    guards = getattr(ctx.repo, "new_guards", None) or {}
    anchored = set()
    for o in ctx.obs:
        anchored.add(o.construct.split("->")[0])
    ctx.rule(rid, "no condition that the confirmed function does not test decides, in an anchor function, whether work is done or skipped (generic differential rule)", kind="N")
    n = 0
    for q, gs in sorted(guards.items()):
        q0 = q.split("#")[0]
        if not any(c == q0 or c.startswith(q0 + ".") or c.startswith(q0 + "->") for c in anchored):
            continue
        for test, what in gs:
            n += 1
            ctx.bad(rid, q0, "every input takes the confirmed paths through this function: no new condition skips or shortcuts work", f"new condition `{test}` {what}",
                    key_detail=f"new guard {test[:60]}")
    rid2 = f"R{prop[1:]}y"
    ctx.rule(rid2, "an anchor function reads no module-level object or constant that the confirmed function did not read (e.g. the module's default `ice` instead of `self.ice`)", kind="N")
    classes = {c.rsplit(".", 1)[0] for c in anchored if c.count(".") >= 3}
    for q, names in sorted(module_value_reads(ctx.repo).items()):
        q0 = q.split("#")[0]
        # (a method of a class the property's rules are anchored in, or an anchored function itself)
        if not (any(c == q0 or c.startswith(q0 + ".") or c.startswith(q0 + "->") for c in anchored) or q0.rsplit(".", 1)[0] in classes):
            continue
        for nm in names:
            n += 1
            ctx.bad(rid2, q0, "the function works on the objects it was given, not on the module's defaults", f"now reads the module-level value `{nm}`", key_detail=f"new global {nm}")
    rid3 = f"R{prop[1:]}x"
    ctx.rule(rid3, "a parameter that the confirmed function handed on to a call it still makes is still handed on (otherwise the callee falls back to its default)", kind="N")
    for q, pairs in sorted((getattr(ctx.repo, "_dropped_forwarding", None) or {}).items()):
        q0 = q.split("#")[0]
        if not (any(c == q0 or c.startswith(q0 + ".") or c.startswith(q0 + "->") for c in anchored) or q0.rsplit(".", 1)[0] in classes):
            continue
        for callee, p_ in pairs:
            n += 1
            ctx.bad(rid3, q0, "what the caller asked for reaches the code that acts on it", f"parameter `{p_}` is no longer passed to {callee}(...)", key_detail=f"dropped {p_} -> {callee}"[:80])
    rid4 = f"R{prop[1:]}w"
    ctx.rule(rid4, "a decision of the confirmed function does not newly end the function / iteration on an arm that used to go on to further work (generic differential rule)", kind="N")
    for q, items in sorted((getattr(ctx.repo, "_new_exits", None) or {}).items()):
        q0 = q.split("#")[0]
        if not any(c == q0 or c.startswith(q0 + ".") or c.startswith(q0 + "->") for c in anchored):
            continue
        for test, what in items:
            n += 1
            ctx.bad(rid4, q0, "every path still runs the statements the confirmed function ran on it", what, key_detail=f"new exit {what[:70]}")
    rid5 = f"R{prop[1:]}v"
    ctx.rule(rid5, "an attribute or method of the package that the confirmed function consulted is still consulted by it or by a new helper it calls (generic differential rule)",
             kind="N")
    for q, names in sorted((getattr(ctx.repo, "_dropped_reads", None) or {}).items()):
        q0 = q.split("#")[0]
        if not (any(c == q0 or c.startswith(q0 + ".") or c.startswith(q0 + "->") for c in anchored)):
            continue
        for nm in names:
            n += 1
            ctx.bad(rid5, q0, "the result still depends on everything the confirmed function made it depend on", f"`.{nm}` is no longer read", key_detail=f"dropped read {nm}")
    rid6 = f"R{prop[1:]}u"
    ctx.rule(rid6, "a result that an anchored class newly remembers between calls is keyed on every parameter the computation reads (generic rule; positive evidence, not gated)",
             kind="N")
    for q, items in sorted((getattr(ctx.repo, "_incomplete_memos", None) or {}).items()):
        q0 = q.split("#")[0]
        if not (any(c == q0 or c.startswith(q0 + ".") or c.startswith(q0 + "->") for c in anchored) or q0.rsplit(".", 1)[0] in classes):
            continue
        for table, key, p_ in items:
            n += 1
            ctx.bad(rid6, q0, "a remembered result is only reused for a call that would compute the same thing",
                    f"`{table}[{key}]` is reused whatever the value of parameter `{p_}`, which the computation reads", key_detail=f"memo {table} misses {p_}"[:80], pointed=True)
    rid7 = f"R{prop[1:]}t"
    ctx.rule(rid7, "a value that an anchored class newly remembers, computed from attributes of self, is dropped by every method that re-assigns or updates those attributes "
             "(generic rule; positive evidence, not gated)", kind="N")
    for q, items in sorted((getattr(ctx.repo, "_stale_caches", None) or {}).items()):
        if q.rsplit(".", 1)[0] not in classes and not any(c == q or c.startswith(q + ".") for c in anchored):
            continue
        for x, touched, filler in items:
            n += 1
            ctx.bad(rid7, q, "no method leaves a remembered value behind when it changes what the value was computed from",
                    f"changes self.{', self.'.join(touched)} but keeps self.{x} (filled on demand by {filler} from it)", key_detail=f"stale {x} after {','.join(touched)}"[:80], pointed=True)
    return n


def analysis_problems(ctx):
    """Things that make the run unreliable (exit 2) rather than a violation."""
    probs = []
    for rid, exp in ctx.expected.items():
        n = sum(1 for o in ctx.obs if o.rule == rid)
        if exp > 0 and n == 0:
            probs.append(f"rule {rid} matched 0 instances (>= {exp} confirmed by hand on the pinned tree)")
    for o in ctx.obs:
        if o.status == report.UNKNOWN and o.required:
            probs.append(f"rule {o.rule} on {o.construct}: obligation '{o.what}' is no longer decidable ({o.detail})")
    return probs


def main(argv=None):
    ap = argparse.ArgumentParser(prog="check")
    ap.add_argument("prop")
    ap.add_argument("--tier", default=os.environ.get("VERIF_TIER") or "quick", choices=["quick", "thorough"])
    ap.add_argument("--replay")
    ap.add_argument("--root", default=os.environ.get("PVX_ROOT", "/repo"))
    ap.add_argument("--no-evidence", action="store_true")
    ap.add_argument("--list", action="store_true", help="print every obligation")
    args = ap.parse_args(argv)
    prop = args.prop.upper()
    seed = int(os.environ.get("VERIF_SEED", "0") or 0)
    t0 = time.time()
    if prop not in PROPS:
        print(f"ANALYSIS-ERROR unknown property {prop}")
        return 2
    try:
        mod = load_rules(prop)
        repo = Repo(args.root)
        ctx = run_rules(mod, repo, prop, args.tier)
    except AnalysisError as e:
        print(f"ANALYSIS-ERROR property={prop} {e}")
        return 2
    except Exception:
        traceback.print_exc()
        print(f"ANALYSIS-ERROR property={prop} internal error in the checker (traceback above)")
        return 2

    if args.replay:
        try:
            rp = json.load(open(args.replay))
        except Exception as e:
            print(f"ANALYSIS-ERROR cannot read replay file: {e}")
            return 2
        hits = [o for o in ctx.obs if o.key == rp.get("key")]
        if not hits:
            same = [o for o in ctx.obs if o.rule == rp.get("rule") and o.construct == rp.get("construct")]
            print(f"replay: rule instance {rp.get('key')} no longer exists on this tree; "
                  f"{len(same)} instance(s) of the same rule on the same construct:")
            for o in same:
                print(f"   [{o.status}] {o.what} -- {o.detail}")
            return 0
        rc = 0
        for o in hits:
            print(f"replay: [{o.status}] rule={o.rule} construct={o.construct} at {o.loc}\n"
                  f"   obligation: {o.what}\n   found: {o.detail}")
            if o.status == report.BAD:
                rc = 1
        return rc

    known = report.known_keys(prop)
    viol = ctx.violations()
    seen = set()
    new, old = [], []
    for o in viol:
        if o.key in seen:
            continue
        seen.add(o.key)
        (old if o.key in known else new).append(o)
    for o in old:
        print(f"KNOWN-FINDING: property={prop} {o.rule} {o.construct}: {o.what} -- {o.detail} [{o.loc}]")
    rc = 0
    for o in new:
        rp = report.write_replay(prop, o)
        print(f"VIOLATION property={prop} replay={rp}")
        print(f"   rule={o.rule} construct={o.construct} at {o.loc}\n   obligation: {o.what}\n   found: {o.detail}")
        rc = 1

    probs = analysis_problems(ctx)
    selftest = None
    if args.tier == "thorough" and rc == 0 and not probs:
        try:
            from .selftest import run_selftest
            selftest = run_selftest(mod, repo, prop, ctx)
            for f in selftest.get("failures", []):
                probs.append("self-test: " + f)
        except Exception:
            traceback.print_exc()
            probs.append("self-test crashed")

    if args.list:
        for o in ctx.obs:
            print(f"  [{o.status:9s}] {o.rule:6s} {o.construct}: {o.what}" + (f" -- {o.detail}" if o.detail else ""))

    wall = time.time() - t0
    if not args.no_evidence:
        meta = dict(getattr(mod, "META", {}))
        report.write_evidence(prop, args.tier, seed, ctx, meta, wall, len(new), selftest=selftest,
                              extra={"known_findings_reported": [o.key for o in old],
                                     "analysis_problems": probs})
    n_ok = sum(1 for o in ctx.obs if o.status == report.OK)
    n_un = sum(1 for o in ctx.obs if o.status == report.UNKNOWN)
    print(f"{prop} [{args.tier}] obligations={len(ctx.obs)} proved={n_ok} undecided={n_un} "
          f"violations={len(new)} known={len(old)} modules={len(repo.modules)} wall={wall:.2f}s")
    if rc == 1:
        return 1
    if probs:
        for p in probs:
            print(f"ANALYSIS-ERROR property={prop} {p}")
        return 2
    return 0


if __name__ == "__main__":
    sys.exit(main())
