"""Shared helpers for the rules that drive the abstract interpreter (pvx/core/ai.py)."""
import ast

from ..core.ai import Interp, Obj, Fn, Tup, Cls, Mod
from ..core.domains.degree import Degree, D
from ..core import report


def lam(src, env):
    """A callable abstract value from lambda source text evaluated in a tiny environment."""
    return Fn(ast.parse(src).body[0].value, dict(env))


def degree_interp(repo, depth=10):
    dom = Degree()
    it = Interp(repo, dom, depth=depth)
    return dom, it


def plain_signal(repo, dom, values=None, times=None):
    S = repo.cls("pyrex.signals.Signal")
    return Obj(S, {"times": dom.U if times is None else times, "values": dom.U if values is None else values, "_value_type": dom.U})


def function_signal(repo, dom, out=None, factors=None, times=None, t0=None):
    FS = repo.cls("pyrex.signals.FunctionSignal")
    f = lam("lambda t: V", {"V": dom.U if out is None else out})
    return Obj(FS, {"times": dom.U if times is None else times, "_functions": Tup([f]), "_t0s": Tup([dom.U if t0 is None else t0]),
                    "_buffers": Tup([Tup([dom.U, dom.U])]), "_factors": Tup([dom.U if factors is None else factors]),
                    "_filters": Tup([Tup([])]), "_value_type": dom.U, "_static_attrs": dom.U})


def degree_verdict(ctx, rule, construct, what, val, want_deg, want_lin=False, notes=None, loc=None):
    """Record the obligation 'value has homogeneity degree want_deg (linear if want_lin)' from an abstract value."""
    from fractions import Fraction as Fr
    note = f" notes={sorted(set(notes))[:3]}" if notes else ""
    if not isinstance(val, D):
        ctx.unknown(rule, construct, what, f"abstract value is {val!r}{note}", loc=loc)
        return
    if val.kind == "top":
        ctx.unknown(rule, construct, what, f"{val!r}{note}", loc=loc)
    elif val.kind == "nonhom":
        ctx.bad(rule, construct, what, f"found {val!r}", key_detail=what, loc=loc)
    elif val.kind == "zero":
        if want_deg == 0:
            ctx.ok(rule, construct, what, "Zero (independent)", loc=loc)
        else:
            ctx.bad(rule, construct, what, "result is identically zero in the tracked input (input discarded)", key_detail=what, loc=loc)
    else:
        ok = val.deg == Fr(want_deg) and (not want_lin or val.lin or val.deg != 1)
        if ok:
            ctx.ok(rule, construct, what, repr(val), loc=loc)
        else:
            ctx.bad(rule, construct, what, f"found {val!r}, expected degree {want_deg}" + (" (linear)" if want_lin else ""), key_detail=what, loc=loc)
