"""C20 -- the package uses only library interfaces that exist (exhaustive over the package source).

Every import statement and every attribute chain rooted at an imported non-pyrex module alias, in every
module of the package, at any nesting, is resolved against the *installed* numpy / scipy / h5py / stdlib.
Only those libraries are imported by this check; pyrex is parsed, never imported.
"""
import ast
import importlib
import inspect
import sys
import types
import warnings

from ..core.source import parent, AnalysisError

META = {
    "explanation": "Exhaustive enumeration of the import statements and of the maximal attribute chains rooted at "
                   "an imported third-party/stdlib alias in all modules of the package (module bodies, class bodies, "
                   "defaults, function bodies, lambdas); each chain is resolved by getattr against the distributions "
                   "installed in /venv, which lie inside the declared range.  Decides: every referenced library name "
                   "exists (R20a), undeclared packages are only imported under an ImportError/find_spec guard "
                   "(R20b/c), alternatives count when one arm resolves (R20d), keyword names bind (R20e, thorough).",
    "exhaustive": True,
    "not_decided": ["other versions inside the declared range than the installed one",
                    "attributes of runtime objects (array methods such as ndarray.ptp) -- no type information",
                    "names reached through dynamic getattr/importlib",
                    "semantics of the library functions beyond their existence"],
    "trusted_base": ["CPython ast", "importlib/getattr on the installed numpy, scipy, h5py, stdlib"],
    "assumptions": ["the installed distributions are representative of the declared range's upper end"],
}

STDLIB = set(sys.stdlib_module_names)
GUARD_EXC = {"ImportError", "ModuleNotFoundError", "AttributeError", "Exception", "*"}


def declared_requirements(repo):
    src = repo.setup_source()
    try:
        tree = ast.parse(src)
    except SyntaxError as e:
        raise AnalysisError(f"cannot parse setup.py: {e}")
    req = None
    for n in ast.walk(tree):
        if isinstance(n, ast.keyword) and n.arg == "install_requires" and isinstance(n.value, (ast.List, ast.Tuple)):
            req = set()
            for e in n.value.elts:
                if isinstance(e, ast.Constant) and isinstance(e.value, str):
                    name = e.value
                    for sep in "<>=!~ ;[":
                        name = name.split(sep)[0]
                    req.add(name.strip().lower().replace("-", "_"))
    if req is None:
        raise AnalysisError("setup.py: install_requires list not found")
    return req


def handler_names(tr):
    names = set()
    for h in tr.handlers:
        if h.type is None:
            names.add("*")
        else:
            for t in (h.type.elts if isinstance(h.type, ast.Tuple) else [h.type]):
                names.add(ast.unparse(t).split(".")[-1])
    return names


def find_spec_flags(tree):
    """Module-level names whose value traces to importlib.util.find_spec('<package>') -> {flag name: package}."""
    flags = {}
    for st in tree.body:
        if isinstance(st, ast.Assign) and len(st.targets) == 1 and isinstance(st.targets[0], ast.Name):
            for c in ast.walk(st.value):
                if isinstance(c, ast.Call) and ast.unparse(c.func).endswith("find_spec") and c.args and isinstance(c.args[0], ast.Constant):
                    flags[st.targets[0].id] = str(c.args[0].value).split(".")[0]
    return flags


def guards_of(node, flags, subject=None):
    """Qualifying guards enclosing `node`.  `subject` = (root alias, first missing attribute, top-level package) of what is being protected:
    an `if hasattr(M, 'a')` only protects the chain M.a, an availability flag only the package it was computed for; a `try` whose handler
    catches ImportError / AttributeError protects whatever fails inside its body."""
    out = []
    alias, attr, pkg = subject or (None, None, None)
    child, p = node, parent(node)
    while p is not None:
        if isinstance(p, ast.Try):
            if child in p.body and (handler_names(p) & GUARD_EXC):
                out.append(("try-body", p))
            elif isinstance(child, ast.ExceptHandler) and child in p.handlers:
                t = child.type
                hn = {"*"} if t is None else {ast.unparse(x).split(".")[-1] for x in (t.elts if isinstance(t, ast.Tuple) else [t])}
                if hn & GUARD_EXC:
                    out.append(("try-handler", p))
        if isinstance(p, (ast.If, ast.IfExp)):
            test = p.test
            in_body = (child in p.body) if isinstance(p, ast.If) else (child is p.body)
            ok = False
            for c in ast.walk(test):
                if isinstance(c, ast.Call) and ast.unparse(c.func) == "hasattr" and len(c.args) == 2 and isinstance(c.args[1], ast.Constant):
                    if alias is not None and ast.unparse(c.args[0]).split(".")[0] == alias and (attr is None or c.args[1].value == attr):
                        ok = True
                if isinstance(c, ast.Call) and ast.unparse(c.func).endswith("find_spec") and c.args and isinstance(c.args[0], ast.Constant):
                    if pkg is not None and str(c.args[0].value).split(".")[0] == pkg:
                        ok = True
                if isinstance(c, ast.Name) and c.id in flags and pkg is not None and flags[c.id] == pkg:
                    ok = True
                if isinstance(c, ast.Attribute) and c.attr in ("__available__",) and pkg is not None:
                    ok = True       # availability flag of a wrapper module (pyrex.custom.pyspice.__available__)
            if ok and in_body:
                out.append(("if", p))
            # the other arm of `if hasattr(M, 'new'): ... else: <M.old>` runs exactly on the versions of M that lack `new`: it is the
            # fallback of an availability test on the same module, like the handler of `try: from M import new / except ImportError`
            if not in_body and isinstance(p, ast.If) and child in p.orelse and alias is not None and isinstance(test, ast.Call) \
                    and ast.unparse(test.func) == "hasattr" and len(test.args) == 2 and isinstance(test.args[1], ast.Constant) \
                    and ast.unparse(test.args[0]).split(".")[0] == alias and test.args[1].value != attr:
                out.append(("if-fallback", p))
        child, p = p, parent(p)
    return out


def maximal_chains(tree):
    for n in ast.walk(tree):
        if isinstance(n, ast.Attribute):
            par = parent(n)
            if isinstance(par, ast.Attribute) and par.value is n:
                continue
            attrs, cur = [], n
            while isinstance(cur, ast.Attribute):
                attrs.append(cur.attr)
                cur = cur.value
            if isinstance(cur, ast.Name):
                yield cur, list(reversed(attrs)), n


def shadowed(name_node):
    """Is the root name rebound (parameter / assignment / loop target) in an enclosing function?"""
    nm = name_node.id
    p = parent(name_node)
    while p is not None:
        if isinstance(p, (ast.FunctionDef, ast.Lambda, ast.AsyncFunctionDef)):
            a = p.args
            for arg in a.posonlyargs + a.args + a.kwonlyargs + ([a.vararg] if a.vararg else []) + ([a.kwarg] if a.kwarg else []):
                if arg.arg == nm:
                    return True
            if not isinstance(p, ast.Lambda):
                for n in ast.walk(p):
                    if isinstance(n, ast.Name) and n.id == nm and isinstance(n.ctx, ast.Store):
                        return True
        p = parent(p)
    return False


_cache = {}


def resolve(modname, attrs):
    """Walk getattr along attrs from module `modname` -> (n_resolved, error or None, deprecated?, object)."""
    key = (modname, tuple(attrs))
    if key in _cache:
        return _cache[key]
    dep = False
    try:
        with warnings.catch_warnings():
            warnings.simplefilter("ignore")
            obj = importlib.import_module(modname)
    except Exception as e:
        r = (-1, f"{type(e).__name__}: {e}".splitlines()[0][:140], False, None)
        _cache[key] = r
        return r
    i = 0
    for i, a in enumerate(attrs):
        try:
            with warnings.catch_warnings():
                warnings.simplefilter("error")
                nxt = getattr(obj, a)
        except (DeprecationWarning, FutureWarning, PendingDeprecationWarning):
            dep = True
            with warnings.catch_warnings():
                warnings.simplefilter("ignore")
                nxt = getattr(obj, a)
        except AttributeError as e:
            nxt = None
            if isinstance(obj, types.ModuleType):
                try:
                    with warnings.catch_warnings():
                        warnings.simplefilter("ignore")
                        nxt = importlib.import_module(obj.__name__ + "." + a)
                except Exception:
                    nxt = None
            if nxt is None:
                r = (i, str(e).splitlines()[0][:140], dep, None)
                _cache[key] = r
                return r
        except Exception as e:      # e.g. lazy import failing
            r = (i, f"{type(e).__name__}: {e}".splitlines()[0][:140], dep, None)
            _cache[key] = r
            return r
        obj = nxt
        if not isinstance(obj, (types.ModuleType, type)):
            r = (len(attrs), None, dep, obj if i == len(attrs) - 1 else None)
            _cache[key] = r
            return r
    r = (len(attrs), None, dep, obj)
    _cache[key] = r
    return r


def run(ctx):
    repo = ctx.repo
    ctx.rule("R20a", "every attribute chain rooted at an imported library alias resolves against the installed distribution", expected=500, kind="S")
    ctx.rule("R20b", "every import resolves; unguarded imports are stdlib, a declared requirement, or pyrex", expected=60, kind="S")
    ctx.rule("R20c", "imports of undeclared packages sit under an ImportError / find_spec guard", kind="N")
    ctx.rule("R20d", "alternative arms (try/except ImportError, hasattr) count when one arm resolves", kind="S")
    declared = declared_requirements(repo)
    ctx.analysed["declared_requirements"] = sorted(declared)
    ctx.analysed["installed"] = {}
    for lib in sorted(declared):
        try:
            with warnings.catch_warnings():
                warnings.simplefilter("ignore")
                m = importlib.import_module(lib)
            ctx.analysed["installed"][lib] = getattr(m, "__version__", "?")
        except Exception as e:
            raise AnalysisError(f"declared requirement {lib} is not importable in the checker's interpreter: {e}")
    ctx.analysed["installed"]["python"] = sys.version.split()[0]
    n_chains = 0
    dep_seen = {}
    per_module = {}
    for mname, tree in repo.modules.items():
        path = repo.paths[mname]
        flags = find_spec_flags(tree)
        local = {}      # alias -> (module dotted, first attr or None, import node)
        # ---------------- imports (anywhere in the module)
        failed_try_arms = {}     # id(try) -> {"body": bool_all_ok, "handler": bool_all_ok}
        imports = []
        for n in ast.walk(tree):
            if isinstance(n, ast.Import):
                for a in n.names:
                    top = a.name.split(".")[0]
                    if top == repo.PKG:
                        continue
                    imports.append((n, a.name, None, a.asname))
                    local[a.asname or top] = (a.name if a.asname else top, None, n)
            elif isinstance(n, ast.ImportFrom):
                if n.level:
                    continue
                top = (n.module or "").split(".")[0]
                if top == repo.PKG:
                    continue
                for a in n.names:
                    if a.name == "*":
                        continue
                    imports.append((n, n.module, a.name, a.asname))
                    local[a.asname or a.name] = (n.module, a.name, n)
        results = []
        for node, module, name, asname in imports:
            k, err, dep, _ = resolve(module, [name] if name else [])
            results.append((node, module, name, err))
            g = guards_of(node, flags, (None, None, module.split(".")[0]))
            for kind, tr in g:
                if kind in ("try-body", "try-handler"):
                    arm = failed_try_arms.setdefault(id(tr), {"try-body": True, "try-handler": True, "n": {"try-body": 0, "try-handler": 0}})
                    arm["n"][kind] += 1
                    if err:
                        arm[kind] = False
        for node, module, name, err in results:
            what = f"import {module}" if name is None else f"from {module} import {name}"
            construct = f"{path}:{what}"
            top = module.split(".")[0]
            g = guards_of(node, flags, (None, None, top))
            declared_ok = top in STDLIB or top.lower().replace("-", "_") in declared
            ctx.count("imports")
            if err:
                # R20d: an alternative arm that resolves makes the pair fine
                alt_ok = False
                for kind, tr in g:
                    arms = failed_try_arms.get(id(tr))
                    if kind == "try-body" and arms and (arms["n"]["try-handler"] == 0 or arms["try-handler"]) and declared_ok:
                        # body import failed, handler is a fallback that itself resolves (or needs no import)
                        alt_ok = arms["n"]["try-handler"] > 0 or not declared_ok or True
                    if kind == "try-handler" and arms and arms["try-body"] and arms["n"]["try-body"] > 0:
                        alt_ok = True       # handler arm never runs with this install: body resolves
                    if kind == "if" and not declared_ok:
                        alt_ok = True       # optional dependency behind its availability flag
                if not declared_ok and any(kind == "try-body" for kind, _ in g):
                    alt_ok = True           # optional dependency behind try/except ImportError
                if alt_ok:
                    ctx.ok("R20d", construct, "unresolvable import sits in a guarded alternative whose other arm resolves",
                           f"{err}; guards={[k for k, _ in g]}", loc=ctx.loc(mname, node))
                else:
                    ctx.bad("R20b", construct, "import resolves against the installed distributions", err,
                            key_detail="unresolved import", loc=ctx.loc(mname, node))
            else:
                ctx.ok("R20b", construct, "import resolves against the installed distributions", loc=ctx.loc(mname, node))
            if not declared_ok:
                if g:
                    ctx.ok("R20c", construct, "undeclared package imported only under a guard", f"guards={[k for k, _ in g]}",
                           loc=ctx.loc(mname, node))
                else:
                    ctx.bad("R20c", construct, "undeclared package imported only under a guard",
                            f"'{top}' is neither stdlib nor in install_requires {sorted(declared)} and the import is unguarded",
                            key_detail="undeclared unguarded import", loc=ctx.loc(mname, node))
        # ---------------- attribute chains
        per_chain = {}
        for root, attrs, outer in maximal_chains(tree):
            if root.id not in local or shadowed(root):
                continue
            mod, first, impnode = local[root.id]
            full = ([first] if first else []) + attrs
            n_chains += 1
            ctx.count("attribute_chains")
            k, err, dep, obj = resolve(mod, full)
            if k == -1:
                continue        # the import itself failed -> reported above (or guarded)
            dotted = mod + "." + ".".join(full[: k + 1] if err else full)
            rec = per_chain.setdefault((dotted, bool(err)), {"lines": [], "err": err, "guarded": 0, "nodes": []})
            rec["lines"].append(outer.lineno)
            rec["nodes"].append(outer)
            if err:
                g = guards_of(outer, flags, (root.id, full[k] if k < len(full) else None, mod.split(".")[0]))
                # a fallback arm only counts when the arm it falls back from resolves with this install (so the fallback never runs here)
                g = [(kind, nd) for kind, nd in g if kind != "if-fallback"
                     or not resolve(mod, ([first] if first else []) + [nd.test.args[1].value])[1]]
                gi = guards_of(impnode, flags, (None, None, mod.split(".")[0]))
                if g or gi:
                    rec["guarded"] += 1
            if dep:
                dep_seen.setdefault(dotted, set()).add(path)
        for (dotted, is_err), rec in sorted(per_chain.items()):
            construct = f"{path}:{dotted}"
            if is_err and rec["guarded"] < len(rec["lines"]):
                ctx.bad("R20a", construct, "library attribute exists in the installed distribution",
                        f"{rec['err']} -- {len(rec['lines'])} site(s) at lines {sorted(rec['lines'])[:12]}",
                        key_detail="unresolved attribute", loc=f"{path}:{min(rec['lines'])}")
            elif is_err:
                ctx.ok("R20d", construct, "unresolvable attribute only under a hasattr/try guard", rec["err"],
                       loc=f"{path}:{min(rec['lines'])}")
            else:
                ctx.ok("R20a", construct, "library attribute exists in the installed distribution",
                       f"{len(rec['lines'])} site(s)", loc=f"{path}:{min(rec['lines'])}")
        per_module[path] = sum(len(r["lines"]) for r in per_chain.values())
        ctx.guard(r20g, mname, path, tree, local)
        ctx.guard(r20h, mname, path, tree)
        # ---------------- R20e keyword names (thorough)
        if ctx.tier == "thorough":
            ctx.guard(r20e, mname, tree, local)
    ctx.guard(r20f)
    ctx.analysed["chains_per_module"] = per_module
    ctx.analysed["deprecated_but_present"] = {k: sorted(v) for k, v in dep_seen.items()}
    if n_chains < 500:
        raise AnalysisError(f"only {n_chains} library attribute chains found (>1000 on the pinned tree): enumeration broken")


ARRAY_MAKERS = {"zeros", "ones", "empty", "full", "array", "asarray", "asanyarray", "zeros_like", "ones_like", "empty_like", "full_like", "linspace", "logspace",
                "arange", "concatenate", "stack", "vstack", "hstack", "copy", "cumsum", "diff", "sqrt", "exp", "log", "sin", "cos", "abs", "real", "imag", "cross",
                "interp", "where", "roll", "flipud", "fliplr", "meshgrid", "tile", "repeat"}


def r20g(ctx, mname, path, tree, local):
    """Methods and attributes used on a local that is certainly an ndarray -- every assignment to it in its function is a call of a numpy
    array constructor / ufunc -- exist on numpy.ndarray of the installed numpy (ndarray.itemset, .newbyteorder, .ptp were removed in 2.0)."""
    ctx.rule("R20g", "attributes used on locals that are certainly numpy arrays exist on numpy.ndarray", kind="N")
    np_aliases = {k for k, v in local.items() if v[0] == "numpy" and not v[1]}
    if not np_aliases:
        return
    for fn in [n for n in ast.walk(tree) if isinstance(n, (ast.FunctionDef, ast.AsyncFunctionDef))]:
        assigned = {}
        for n in ast.walk(fn):
            tgts = []
            if isinstance(n, ast.Assign):
                tgts = [(t, n.value) for t in n.targets]
            elif isinstance(n, (ast.AugAssign, ast.AnnAssign)) and n.value is not None:
                tgts = [(n.target, n.value)]
            elif isinstance(n, (ast.For, ast.AsyncFor, ast.comprehension)):
                tgts = [(n.target, None)]
            elif isinstance(n, ast.arg):
                assigned.setdefault(n.arg, []).append(None)
            for t, v in tgts:
                for m in ast.walk(t):
                    if isinstance(m, ast.Name) and isinstance(m.ctx, ast.Store):
                        assigned.setdefault(m.id, []).append(v if m is t else None)

        def is_array_call(v):
            return (isinstance(v, ast.Call) and isinstance(v.func, ast.Attribute) and isinstance(v.func.value, ast.Name) and v.func.value.id in np_aliases
                    and v.func.attr in ARRAY_MAKERS)
        arrays = {x for x, vs in assigned.items() if vs and all(is_array_call(v) for v in vs)}
        sites = []          # (name node of an attribute access, certainly an ndarray there)
        for n in ast.walk(fn):
            if isinstance(n, ast.Attribute) and isinstance(n.value, ast.Name) and n.value.id in arrays and isinstance(n.ctx, ast.Load):
                sites.append(n)
        # locally: between `x = np.maker(...)` and the next statement of the same list that rebinds x, x is an ndarray
        for holder in ast.walk(fn):
            for field in ("body", "orelse", "finalbody"):
                seq = getattr(holder, field, None)
                if not (isinstance(seq, list) and seq and isinstance(seq[0], ast.stmt)):
                    continue
                for i, st in enumerate(seq):
                    if isinstance(st, ast.Assign) and len(st.targets) == 1 and isinstance(st.targets[0], ast.Name) and is_array_call(st.value):
                        x = st.targets[0].id
                        for later in seq[i + 1:]:
                            rebinds = any(isinstance(m, ast.Name) and m.id == x and isinstance(m.ctx, (ast.Store, ast.Del)) for m in ast.walk(later))
                            if rebinds:
                                break
                            for m in ast.walk(later):
                                if isinstance(m, ast.Attribute) and isinstance(m.value, ast.Name) and m.value.id == x and isinstance(m.ctx, ast.Load) and m not in sites:
                                    sites.append(m)
        for n in sites:
            k, err, dep, obj = resolve("numpy", ["ndarray", n.attr])
            construct = f"{path}:numpy.ndarray.{n.attr}"
            if err:
                ctx.bad("R20g", construct, "attribute of a numpy array exists in the installed numpy", f"`{n.value.id}.{n.attr}` in {fn.name}: {n.value.id} is the result of a numpy "
                        f"array constructor there; {err}", key_detail="unresolved ndarray attribute", loc=f"{path}:{n.lineno}")
            else:
                ctx.ok("R20g", construct, "attribute of a numpy array exists in the installed numpy", loc=f"{path}:{n.lineno}")


def r20h(ctx, mname, path, tree):
    """importlib.util.find_spec('a.b') imports package `a` first and raises ModuleNotFoundError when it is absent: an availability probe
    must name a top-level package (or sit in a try that catches ImportError)."""
    ctx.rule("R20h", "availability probes (find_spec) name a top-level package, so that an absent optional dependency answers None instead of raising", kind="N")
    for n in ast.walk(tree):
        if isinstance(n, ast.Call) and ast.unparse(n.func).endswith("find_spec") and n.args and isinstance(n.args[0], ast.Constant) and isinstance(n.args[0].value, str):
            name = n.args[0].value
            guarded = any(kind in ("try-body",) for kind, _ in guards_of(n, {}, (None, None, name.split(".")[0])))
            construct = f"{path}:find_spec({name!r})"
            if "." in name and not guarded:
                ctx.bad("R20h", construct, "probe of a top-level package", f"find_spec({name!r}) imports {name.split('.')[0]!r} and raises when it is not installed", key_detail="dotted probe",
                        loc=f"{path}:{n.lineno}")
            else:
                ctx.ok("R20h", construct, "probe of a top-level package", loc=f"{path}:{n.lineno}")


def module_level_names(tree):
    names = set()

    def add_target(t):
        for n in ast.walk(t):
            if isinstance(n, ast.Name):
                names.add(n.id)

    def walk(body):
        for st in body:
            if isinstance(st, (ast.FunctionDef, ast.AsyncFunctionDef, ast.ClassDef)):
                names.add(st.name)
            elif isinstance(st, ast.Assign):
                for t in st.targets:
                    add_target(t)
            elif isinstance(st, (ast.AnnAssign, ast.AugAssign)):
                add_target(st.target)
            elif isinstance(st, ast.Import):
                for a in st.names:
                    names.add(a.asname or a.name.split(".")[0])
            elif isinstance(st, ast.ImportFrom):
                for a in st.names:
                    names.add("*" if a.name == "*" else (a.asname or a.name))
            elif isinstance(st, (ast.If, ast.Try, ast.With, ast.For, ast.While)):
                for f in ("body", "orelse", "finalbody"):
                    walk(getattr(st, f, []) or [])
                for h in getattr(st, "handlers", []):
                    walk(h.body)
    walk(tree.body)
    names |= {"__file__", "__name__", "__doc__", "__path__", "__package__", "__spec__", "__dict__", "__loader__"}     # implicit module attributes
    return names


def r20f(ctx):
    """imports between the package's own modules: `from pyrex.x import name` / `from .x import name` must name a module of the package and a
    module-level definition in it -- importing each sub-package succeeds only if these resolve (the custom sub-packages cannot be imported here,
    so no test would notice a helper renamed in one place only)."""
    repo = ctx.repo
    ctx.rule("R20f", "every import between the package's own modules names an existing module and a name defined at its top level", expected=40, kind="S")
    defs = {m: module_level_names(t) for m, t in repo.modules.items()}
    for mname, tree in repo.modules.items():
        path = repo.paths[mname]
        for n in ast.walk(tree):
            if isinstance(n, ast.ImportFrom):
                base = repo.abs_from(mname, n) if n.level else (n.module or "")
                if not (base == repo.PKG or base.startswith(repo.PKG + ".")):
                    continue
                for a in n.names:
                    if a.name == "*":
                        continue
                    ctx.count("internal_imports")
                    target_mod = base
                    what = f"from {base} import {a.name}"
                    if target_mod not in repo.modules:
                        ctx.bad("R20f", f"{path}:{what}", "the imported module exists in the package", f"no module {target_mod}", key_detail="missing internal module",
                                loc=ctx.loc(mname, n))
                        continue
                    ok = a.name in defs[target_mod] or "*" in defs[target_mod] or (target_mod + "." + a.name) in repo.modules
                    ctx.check(ok, "R20f", f"{path}:{what}", "the imported name is defined at the top level of that module (or is a sub-module)",
                              "" if ok else f"{a.name} is not defined in {repo.paths[target_mod]}", key_detail="missing internal name", loc=ctx.loc(mname, n))
            elif isinstance(n, ast.Import):
                for a in n.names:
                    if a.name == repo.PKG or a.name.startswith(repo.PKG + "."):
                        ctx.count("internal_imports")
                        ctx.check(a.name in repo.modules, "R20f", f"{path}:import {a.name}", "the imported module exists in the package", "", key_detail="missing internal module",
                                  loc=ctx.loc(mname, n))
    # attribute access on internally imported modules:  `import pyrex.x as m; m.name`
    for mname, tree in repo.modules.items():
        path = repo.paths[mname]
        alias = {}
        for n in ast.walk(tree):
            if isinstance(n, ast.Import):
                for a in n.names:
                    if a.asname and a.name in repo.modules:
                        alias[a.asname] = a.name
            elif isinstance(n, ast.ImportFrom):
                base = repo.abs_from(mname, n) if n.level else (n.module or "")
                for a in n.names:
                    if (base + "." + a.name) in repo.modules:
                        alias[a.asname or a.name] = base + "." + a.name
        for root, attrs, outer in maximal_chains(tree):
            if root.id in alias and not shadowed(root) and attrs:
                tm = alias[root.id]
                ok = attrs[0] in defs[tm] or "*" in defs[tm] or (tm + "." + attrs[0]) in repo.modules      # a star import may define anything
                ctx.check(ok, "R20f", f"{path}:{tm}.{attrs[0]}", "attribute of an internally imported module is defined there", "", key_detail="missing internal attribute",
                          loc=ctx.loc(mname, outer))


def r20e(ctx, mname, tree, local):
    ctx.rule("R20e", "keyword names passed to resolvable library callables exist in their signature (thorough)", kind="N")
    path = ctx.repo.paths[mname]
    for n in ast.walk(tree):
        if not isinstance(n, ast.Call) or not n.keywords:
            continue
        f = n.func
        attrs, cur = [], f
        while isinstance(cur, ast.Attribute):
            attrs.append(cur.attr)
            cur = cur.value
        if not isinstance(cur, ast.Name) or cur.id not in local or shadowed(cur):
            continue
        mod, first, _ = local[cur.id]
        full = ([first] if first else []) + list(reversed(attrs))
        k, err, dep, obj = resolve(mod, full)
        if err or obj is None or not callable(obj):
            continue
        try:
            sig = inspect.signature(obj)
        except (ValueError, TypeError):
            continue
        params = sig.parameters
        if any(p.kind == p.VAR_KEYWORD for p in params.values()):
            continue
        for kw in n.keywords:
            if kw.arg is None:
                continue
            dotted = mod + "." + ".".join(full)
            ok = kw.arg in params and params[kw.arg].kind != inspect.Parameter.POSITIONAL_ONLY
            ctx.check(ok, "R20e", f"{path}:{dotted}", f"keyword '{kw.arg}' accepted by {dotted}{sig}"[:200],
                      f"call `{ast.unparse(n)[:80]}`", key_detail=f"keyword {kw.arg}", loc=ctx.loc(mname, n))


SELFTEST = {
    "faults": [
        {"name": "availability probe of a submodule", "file": "pyrex/custom/pyspice.py", "old": "find_spec('PySpice')", "new": "find_spec('PySpice.Spice.NgSpice.Shared')", "rule": "R20h"},
        {"name": "ndarray.itemset on a freshly allocated array", "file": "pyrex/signals.py", "old": "            responses = np.zeros(len(freqs), dtype=np.complex128)\n",
         "new": "            responses = np.zeros(len(freqs), dtype=np.complex128)\n            responses.itemset(0, 0)\n", "rule": "R20g"},
        {"name": "removed numpy function in the fallback arm of a test for a name that does not exist either", "file": "pyrex/internal_functions.py",
         "old": "try:\n    from numpy import trapezoid as trapz\nexcept ImportError:\n    from numpy import trapz\n",
         "new": "if hasattr(np, 'trapezoidal'):\n    trapz = np.trapezoidal\nelse:\n    trapz = np.trapz\n", "rule": "R20a"},
        {"name": "removed stdlib function under an unrelated hasattr guard", "file": "pyrex/detector.py", "old": "                        sig = inspect.signature(sub.build_antennas)\n                        keys = sig.parameters.keys()",
         "new": "                        sig = inspect.getargspec(sub.build_antennas)\n                        keys = sig.args", "rule": "R20a"},
        {"name": "helper renamed in internal_functions, one custom import site forgotten", "file": "pyrex/internal_functions.py", "old": "def normalize(vector):", "new": "def normalise(vector):",
         "rule": "R20f"},
        {"name": "sub-package imports a module that does not exist", "file": "pyrex/custom/irex/__init__.py", "old": "from .antenna import", "new": "from .antennas import", "rule": "R20f"},
        {"name": "removed numpy alias", "file": "pyrex/earth_model.py", "old": "np.linspace(", "new": "np.linspace_(",
         "rule": "R20a", "construct": "earth_model"},
        {"name": "unguarded optional import", "file": "pyrex/kernel.py", "old": "import logging\n", "new": "import logging\nimport PySpice\n",
         "rule": "R20c", "construct": "kernel"},
        {"name": "scipy function that does not exist", "file": "pyrex/antenna.py", "old": "scipy.signal.butter(", "new": "scipy.signal.butterworth(",
         "rule": "R20a", "construct": "antenna"},
    ],
    "benign": [
        {"name": "availability test with a fallback arm instead of try/except ImportError", "file": "pyrex/internal_functions.py",
         "old": "try:\n    from numpy import trapezoid as trapz\nexcept ImportError:\n    from numpy import trapz\n",
         "new": "if hasattr(np, 'trapezoid'):\n    trapz = np.trapezoid\nelse:\n    trapz = np.trapz\n"},
        {"name": "alias rename", "file": "pyrex/earth_model.py", "old": "import numpy as np\n", "new": "import numpy as np\nimport numpy as _np2\n"},
    ],
}
