"""C04 -- signals keep times and values aligned, copy independently and combine pointwise."""
import ast

from ..core.source import AnalysisError, parent
from ..core.ai import Interp, Obj, Fn, Tup
from ..core.domains.length import Length
from ..core.astutil import strip_doc, stmts_in_order, calls, is_call, kwargs_of, guards, u, returns, names_in, canon
from ..core.exprnf import local_env

META = {
    "explanation": "R04a constructors of Signal / FunctionSignal store freshly built arrays (np.array / np.concatenate / np.zeros ...), never the "
                   "argument or np.asarray of it; R04b return provenance of copy / with_times / __add__ / __mul__ / __rmul__ / __truediv__ in every "
                   "signal class: each return is a family constructor call (whose constructor copies, R04a), an object obtained from .copy() "
                   "whose later attribute stores are fresh values, or NotImplemented; `self` is returned only by the in-place operators and by "
                   "__radd__ under `other == 0`; R04c the five component lists of FunctionSignal are deep-copied in copy/__add__; R04d the three "
                   "__add__ siblings share one guard list and type-coercion rule; R04e with_times interpolates with left=right=0 (Signal), "
                   "stays empty (EmptySignal), re-evaluates (FunctionSignal); R04f length domain: in both arms of Signal.__init__ "
                   "len(values) == len(times).  Sufficient (given numpy copy semantics) for 'results share no mutable state with operands'.",
    "not_decided": ["numerical equality of interpolation", "resample", "dtype effects of in-place *="],
    "trusted_base": ["CPython ast", "np.array(x) copies, np.concatenate / np.zeros / arithmetic return new arrays, copy.deepcopy copies lists"],
    "assumptions": ["Signal.Type members and callables are immutable and may be shared"],
}

SIG = "pyrex.signals.Signal"
ES = "pyrex.signals.EmptySignal"
FS = "pyrex.signals.FunctionSignal"
FAMILY = ("Signal", "EmptySignal", "FunctionSignal")
COPYING_CALLS = {"np.array", "np.concatenate", "np.zeros", "np.ones", "np.linspace", "np.copy", "copy.deepcopy", "copy.copy", "np.interp", "np.full",
                 "np.zeros_like", "np.ones_like", "np.empty", "list", "np.arange", "np.real", "scipy.signal.resample"}
ALIASING_CALLS = {"np.asarray", "np.asanyarray", "np.atleast_1d", "np.ravel", "np.reshape"}
IMMUTABLE_ATTRS = {"value_type", "Type", "dt"}
OPS = ["copy", "with_times", "__add__", "__mul__", "__rmul__", "__truediv__"]
INPLACE = ["__imul__", "__itruediv__", "__iadd__", "__isub__"]


def params_of(fn):
    a = fn.args
    return [p.arg for p in a.posonlyargs + a.args + a.kwonlyargs if p.arg != "self"]


def fresh(expr, fn, env, depth=0):
    """Is the value of `expr` certainly a new object (not an alias of a parameter or of an attribute of self/other)?"""
    if isinstance(expr, ast.Constant):
        return True
    if isinstance(expr, (ast.ListComp, ast.List, ast.Tuple, ast.Dict, ast.DictComp, ast.GeneratorExp, ast.BinOp, ast.UnaryOp, ast.Compare, ast.BoolOp, ast.JoinedStr)):
        return True         # arithmetic and displays build new objects
    if isinstance(expr, ast.Call):
        f = u(expr.func)
        if f in ALIASING_CALLS:
            return False
        if f == "np.array":
            return not any(k.arg == "copy" and u(k.value) == "False" for k in expr.keywords)
        return True
    if isinstance(expr, ast.IfExp):
        return fresh(expr.body, fn, env, depth) and fresh(expr.orelse, fn, env, depth)
    if isinstance(expr, ast.Attribute):
        if expr.attr in IMMUTABLE_ATTRS:
            return True
        return False
    if isinstance(expr, ast.Subscript):
        return False        # a view / an element of someone else's container
    if isinstance(expr, ast.Name):
        if expr.id in params_of(fn):
            return False
        if expr.id in env and depth < 4:
            return fresh(env[expr.id], fn, env, depth + 1)
        # names assigned several times: every definition must be fresh
        defs = [s.value for s in ast.walk(fn) if isinstance(s, ast.Assign) and len(s.targets) == 1 and u(s.targets[0]) == expr.id]
        return bool(defs) and all(fresh(d, fn, {}, depth + 1) for d in defs) if depth < 4 else False
    return False


def signal_classes(repo):
    return [c for c in repo.classes.values() if c.is_subclass_of("Signal")]


def r04a(ctx):
    repo = ctx.repo
    ctx.rule("R04a", "constructors store fresh arrays: self.times / self.values are assigned from copy-constructing expressions", expected=4, kind="N")
    for q in (SIG, FS):
        fn = repo.member(q, "__init__")
        env = local_env(fn)
        for attr in ("times", "values"):
            st = [s for s in ast.walk(fn) if isinstance(s, ast.Assign) and u(s.targets[0]) == f"self.{attr}"]
            if not st:
                if q == SIG:
                    ctx.bad("R04a", f"{q}.__init__", f"self.{attr} is assigned", "no assignment", key_detail=f"{attr} store")
                continue
            for s in st:
                ok = fresh(s.value, fn, env)
                ctx.check(ok, "R04a", f"{q}.__init__", f"self.{attr} holds a new array, not the caller's object", u(s.value)[:80], key_detail=f"self.{attr} aliased",
                          loc=ctx.loc("pyrex.signals", s))
    # subclasses that define __init__ must reach a family constructor via super().__init__ (so the copies happen)
    for ci in signal_classes(repo):
        if "__init__" in ci.methods and ci.name not in ("Signal", "FunctionSignal"):
            fn = ci.methods["__init__"][1]
            sup = [c for c in ast.walk(fn) if is_call(c, name="__init__") and "super()" in u(c.func)]
            own = [s for s in ast.walk(fn) if isinstance(s, ast.Assign) and u(s.targets[0]) in ("self.times", "self.values")]
            ok = bool(sup) and all(fresh(s.value, fn, local_env(fn)) for s in own)
            ctx.check(ok, "R04a", f"{ci.qual}.__init__", "times/values are set through the base constructor (or from fresh arrays)", "", key_detail="subclass constructor")


def r04b(ctx):
    repo = ctx.repo
    ctx.rule("R04b", "return provenance: constructor call / object from .copy() with fresh stores / NotImplemented; `self` only from in-place operators "
             "and __radd__ under other == 0", expected=14, kind="S")
    for ci in signal_classes(repo):
        for m in OPS + ["__radd__"] + INPLACE:
            if m not in ci.methods:
                continue
            fn = ci.methods[m][1]
            env = local_env(fn)
            construct = f"{ci.qual}.{m}"
            copies = {}       # local name -> creating expr
            for s in ast.walk(fn):
                if isinstance(s, ast.Assign) and len(s.targets) == 1 and isinstance(s.targets[0], ast.Name):
                    v = s.value
                    if isinstance(v, ast.Call) and ((isinstance(v.func, ast.Attribute) and v.func.attr == "copy" and u(v.func.value) in ("self", "other"))
                                                    or u(v.func) in FAMILY or (isinstance(v.func, ast.Attribute) and v.func.attr in ("with_times",))):
                        copies[s.targets[0].id] = v
            for r in returns(fn):
                v = r.value
                if v is None:
                    continue
                txt = u(v)
                if txt == "NotImplemented":
                    continue
                if txt == "self":
                    if m in INPLACE:
                        ctx.ok("R04b", construct, "in-place operator returns self", loc=ctx.loc(ci.module, r))
                    elif m == "__radd__":
                        g = guards(r, stop=fn)
                        ok = any(u(t).replace(" ", "") == "other==0" and pol for t, pol in g)
                        ctx.check(ok, "R04b", construct, "self is returned only for `other == 0` (what sum() starts with)", str([u(t) for t, _ in g]),
                                  key_detail="self returned", loc=ctx.loc(ci.module, r))
                    else:
                        ctx.bad("R04b", construct, "the result is a new object", "returns self", key_detail="returns self", loc=ctx.loc(ci.module, r))
                    continue
                if isinstance(v, ast.Call) and u(v.func) in FAMILY:
                    ctx.ok("R04b", construct, "returns a newly constructed signal (the constructor copies its arrays)", txt[:70], loc=ctx.loc(ci.module, r))
                    continue
                if isinstance(v, ast.Call) and isinstance(v.func, ast.Attribute) and v.func.attr == "copy" and u(v.func.value) in ("self", "other"):
                    ctx.ok("R04b", construct, "returns a copy", txt, loc=ctx.loc(ci.module, r))
                    continue
                if isinstance(v, ast.Name) and v.id in copies:
                    # every later attribute store on the copy must be a fresh value
                    bad = []
                    for s in ast.walk(fn):
                        tg = None
                        if isinstance(s, ast.Assign):
                            tg = [t for t in s.targets if isinstance(t, ast.Attribute) and u(t.value) == v.id]
                        elif isinstance(s, ast.AugAssign) and isinstance(s.target, ast.Attribute) and u(s.target.value) == v.id:
                            tg = [s.target]
                        for t in tg or []:
                            if t.attr in IMMUTABLE_ATTRS:
                                continue
                            if not fresh(s.value, fn, env):
                                bad.append(u(s)[:70])
                    ctx.check(not bad, "R04b", construct, f"`{v.id}` comes from {u(copies[v.id])[:40]} and only fresh values are stored on it afterwards",
                              f"aliasing stores: {bad}", key_detail="aliasing store on the result", loc=ctx.loc(ci.module, r))
                    continue
                if m in ("__radd__",) or isinstance(v, ast.Constant):
                    continue
                ctx.unknown("R04b", construct, "return value is a constructor call, a copy or NotImplemented", txt[:70], loc=ctx.loc(ci.module, r))


def r04c(ctx):
    repo = ctx.repo
    ctx.rule("R04c", "FunctionSignal.copy and __add__: each of the five component lists is deep-copied / rebuilt, never shared", expected=10, kind="N")
    init = repo.member(FS, "__init__")
    comps = [u(s.targets[0]).split(".", 1)[1] for s in strip_doc(init) if isinstance(s, ast.Assign) and u(s.targets[0]).startswith("self._")
             and isinstance(s.value, ast.List)]
    if len(comps) != 5:
        raise AnalysisError(f"FunctionSignal.__init__: expected 5 component lists, found {comps}")
    ctx.analysed["component_lists"] = comps
    # components whose *elements* are lists that the class updates in place (self._buffers[i][0] = ..., group.append(...) for group in
    # self._filters): sharing the inner lists between two signals is then observable, whatever the rest of the function looks like
    cls = repo.classes[FS].node
    nested = set()
    for n in ast.walk(cls):
        if isinstance(n, ast.Subscript) and isinstance(n.ctx, ast.Store) and isinstance(n.value, ast.Subscript) and isinstance(n.value.value, ast.Attribute) \
                and n.value.value.attr in comps:
            nested.add(n.value.value.attr)
        if isinstance(n, ast.For) and isinstance(n.iter, ast.Attribute) and n.iter.attr in comps and isinstance(n.target, ast.Name):
            if any(isinstance(c, ast.Call) and isinstance(c.func, ast.Attribute) and c.func.attr in ("append", "extend", "insert") and isinstance(c.func.value, ast.Name)
                   and c.func.value.id == n.target.id for c in ast.walk(n)):
                nested.add(n.iter.attr)
    ctx.analysed["components_with_inner_lists_updated_in_place"] = sorted(nested)

    def shallow(v, owner, c_):
        """v is `owner.c_` itself or a one-level copy of it"""
        src = f"{owner}.{c_}"
        if u(v) == src:
            return True
        if isinstance(v, ast.Call) and u(v.func) in ("list", "copy.copy") and len(v.args) == 1 and u(v.args[0]) == src:
            return True
        if isinstance(v, ast.Call) and isinstance(v.func, ast.Attribute) and v.func.attr == "copy" and u(v.func.value) == src and not v.args:
            return True
        if isinstance(v, ast.Subscript) and u(v.value) == src and isinstance(v.slice, ast.Slice) and v.slice.lower is None and v.slice.upper is None:
            return True
        return False
    cp = repo.member(FS, "copy")
    got = {}
    for s in ast.walk(cp):
        if isinstance(s, ast.Assign) and isinstance(s.targets[0], ast.Attribute) and s.targets[0].attr in comps:
            got[s.targets[0].attr] = s.value
    for c_ in comps:
        v = got.get(c_)
        ok = v is not None and ((is_call(v, func="copy.deepcopy") and u(v.args[0]) == f"self.{c_}") or isinstance(v, ast.ListComp))
        ctx.check(ok, "R04c", f"{FS}.copy", f"{c_} of the copy is a deep copy of self.{c_}", u(v) if v is not None else "not assigned", key_detail=f"{c_} in copy",
                  loc=ctx.loc("pyrex.signals", cp), pointed=bool(v is not None and c_ in nested and shallow(v, "self", c_)))
    ad = repo.member(FS, "__add__")
    got = {}
    for s in ast.walk(ad):
        if isinstance(s, ast.AugAssign) and isinstance(s.target, ast.Attribute) and s.target.attr in comps:
            got[s.target.attr] = s.value
    for c_ in comps:
        v = got.get(c_)
        ok = v is not None and is_call(v, func="copy.deepcopy") and u(v.args[0]) == f"other.{c_}"
        ctx.check(ok, "R04c", f"{FS}.__add__", f"{c_} of the sum is extended by a deep copy of other.{c_}", u(v) if v is not None else "not extended",
                  key_detail=f"{c_} in __add__", loc=ctx.loc("pyrex.signals", ad), pointed=bool(v is not None and c_ in nested and shallow(v, "other", c_)))


def guard_list(fn):
    out = []
    for st in strip_doc(fn):
        if isinstance(st, ast.If) and len(st.body) == 1 and isinstance(st.body[0], (ast.Raise, ast.Return)) and not st.orelse:
            b = st.body[0]
            act = ("raise " + u(b.exc.func)) if isinstance(b, ast.Raise) and isinstance(b.exc, ast.Call) else u(b)
            out.append((u(st.test), act))
        else:
            break
    return out


def r04d(ctx):
    repo = ctx.repo
    ctx.rule("R04d", "__add__ siblings (Signal, EmptySignal, FunctionSignal): same guard list (non-Signal -> NotImplemented; different times -> ValueError; "
             "both types defined and different -> ValueError) and same type coercion", expected=6, kind="N")
    ref = [("not isinstance(other, Signal)", "return NotImplemented"), ("not np.array_equal(self.times, other.times)", "raise ValueError"),
           ("self.value_type != self.Type.undefined and other.value_type != self.Type.undefined and (self.value_type != other.value_type)", "raise ValueError")]
    coer = "if self.value_type == self.Type.undefined:\n    value_type = other.value_type\nelse:\n    value_type = self.value_type"
    for q in (SIG, ES, FS):
        fn = repo.member(q, "__add__")
        gl = guard_list(fn)
        ctx.check(gl == ref, "R04d", f"{q}.__add__", "guards: non-signal -> NotImplemented, different time grids -> ValueError, incompatible value types -> ValueError",
                  f"got {gl}", key_detail="guard list", loc=ctx.loc("pyrex.signals", fn))
        body = strip_doc(fn)
        nxt = u(body[len(gl)]) if len(body) > len(gl) else ""
        ctx.check(nxt == coer, "R04d", f"{q}.__add__", "result type is the other's when self's is undefined, else self's", nxt.replace("\n", " / "), key_detail="type coercion")
    # what is summed
    r = [x for x in returns(repo.member(SIG, "__add__")) if u(x.value) != "NotImplemented"]
    ok = len(r) == 1 and u(r[0].value) == "Signal(self.times, self.values + other.values, value_type=value_type)"
    ctx.check(ok, "R04d", f"{SIG}.__add__", "sum is pointwise on the common grid with the coerced type", u(r[0].value) if r else "", key_detail="pointwise sum")
    body = [u(s) for s in strip_doc(repo.member(ES, "__add__"))][-3:]
    ctx.check(body == ["new_signal = other.copy()", "new_signal.value_type = value_type", "return new_signal"], "R04d", f"{ES}.__add__",
              "the empty signal is neutral: the sum is a copy of the other operand with the coerced type", str(body), key_detail="empty neutral")
    fa = repo.member(FS, "__add__")
    chain = [n for n in strip_doc(fa) if isinstance(n, ast.If) and u(n.test) == "isinstance(other, FunctionSignal)"]
    ok = len(chain) == 1 and len(chain[0].orelse) == 1 and isinstance(chain[0].orelse[0], ast.If) and u(chain[0].orelse[0].test) == "isinstance(other, EmptySignal)"
    if ok:
        els = chain[0].orelse[0].orelse
        ok = len(els) == 1 and u(els[0]) == "return Signal(self.times, self.values + other.values, value_type=value_type)"
        mid = [u(s) for s in chain[0].orelse[0].body]
        ok = ok and mid == ["new_signal = self.copy()", "new_signal.value_type = value_type", "return new_signal"]
    ctx.check(ok, "R04d", f"{FS}.__add__", "FunctionSignal + FunctionSignal merges components; + EmptySignal is a typed copy; + Signal evaluates and adds pointwise",
              "", key_detail="function signal cases")
    rd = repo.member(SIG, "__radd__")
    ctx.check([u(s) for s in strip_doc(rd)] == ["if other == 0:\n    return self\nelse:\n    return NotImplemented"], "R04d", f"{SIG}.__radd__",
              "0 + signal is the signal itself (for sum()); anything else is refused", "", key_detail="radd")
    # scaling multiplies every value
    for m, op in (("__mul__", "self.values * other"), ("__rmul__", "other * self.values"), ("__truediv__", "self.values / other")):
        fn = repo.member(SIG, m)
        r = [x for x in returns(fn) if u(x.value) != "NotImplemented"]
        ok = len(r) == 1 and u(r[0].value) == f"Signal(self.times, {op}, value_type=self.value_type)"
        ctx.check(ok, "R04d", f"{SIG}.{m}", "scaling builds a new signal on the same grid and type with every value scaled", u(r[0].value) if r else "", key_detail=f"{m} shape")
    for m, op in (("__mul__", "f * other"), ("__rmul__", "other * f"), ("__truediv__", "f / other")):
        fn = repo.member(FS, m)
        lc = [n for n in ast.walk(fn) if isinstance(n, ast.ListComp)]
        ok = len(lc) == 1 and u(lc[0].generators[0].iter) == "self._factors" and u(lc[0].elt).replace(lc[0].generators[0].target.id, "f") == op
        ctx.check(ok, "R04d", f"{FS}.{m}", "scaling a function signal scales every component factor", u(lc[0]) if lc else "", key_detail=f"{m} factors")


def r04e(ctx):
    repo = ctx.repo
    ctx.rule("R04e", "with_times: Signal -> np.interp(new_times, self.times, self.values, left=0, right=0); EmptySignal stays empty; FunctionSignal re-evaluates (no interp)",
             expected=3, kind="N")
    fn = repo.member(SIG, "with_times")
    nt = fn.args.args[1].arg
    ic = calls(fn, func="np.interp")
    ok = len(ic) == 1
    if ok:
        c = ic[0]
        kw = {k: u(v) for k, v in kwargs_of(c).items()}
        ok = [u(a) for a in c.args] == [nt, "self.times", "self.values"] and kw == {"left": "0", "right": "0"}
    ctx.check(ok, "R04e", f"{SIG}.with_times", "linear interpolation of (times, values) at the new times, zero outside the original span", u(ic[0]) if ic else "",
              key_detail="interp arguments", loc=ctx.loc("pyrex.signals", fn))
    r = returns(fn)
    env = local_env(fn)
    ok = len(r) == 1 and is_call(r[0].value, func="Signal") and len(r[0].value.args) >= 2 and bool(ic)
    if ok:
        c = r[0].value
        vals = c.args[1]
        if isinstance(vals, ast.Name):
            vals = env.get(vals.id)
        ok = u(c.args[0]) == nt and vals is ic[0] and u(kwargs_of(c).get("value_type")) == "self.value_type"
    ctx.check(ok, "R04e", f"{SIG}.with_times", "result is a new Signal on the new grid with the interpolated values and the same type", u(r[0].value) if r else "",
              key_detail="result")
    fn = repo.member(ES, "with_times")
    r = returns(fn)
    ok = len(r) == 1 and is_call(r[0].value, func="EmptySignal") and u(r[0].value.args[0]) == fn.args.args[1].arg
    ctx.check(ok, "R04e", f"{ES}.with_times", "an empty signal re-gridded is an empty signal on the new grid", u(r[0].value) if r else "", key_detail="empty with_times")
    fn = repo.member(FS, "with_times")
    ok = not calls(fn, func="np.interp") and any(isinstance(s, ast.Assign) and u(s.value) == "self.copy()" for s in strip_doc(fn))
    st = [s for s in ast.walk(fn) if isinstance(s, ast.Assign) and isinstance(s.targets[0], ast.Attribute) and s.targets[0].attr == "times"]
    ok = ok and len(st) == 1 and fn.args.args[1].arg in names_in(st[0].value)
    ctx.check(ok, "R04e", f"{FS}.with_times", "a function-backed signal is copied and given the new grid (values are re-evaluated lazily, no interpolation)", "",
              key_detail="function with_times")


def r04f(ctx):
    repo = ctx.repo
    ctx.rule("R04f", "Signal.__init__: len(values) == len(times) in the pad arm and in the truncate arm", expected=2, kind="S")
    dom = Length()
    it = Interp(repo, dom, depth=10)
    S = repo.cls(SIG)
    fn = repo.member(SIG, "__init__")
    tests = [u(n.test) for n in strip_doc(fn) if isinstance(n, ast.If)]
    if len(tests) != 1:
        ctx.unknown("R04f", f"{SIG}.__init__", "one pad/truncate decision", str(tests))
        return
    N, Vn = dom.sym("N"), dom.sym("V")
    for arm, cond in (("pad", True), ("truncate", False)):
        it.assume = {tests[0]: cond}
        # arm fact: the truncate arm is entered when len(times) - len(values) <= 0, i.e. V >= N (the definition of len_diff is checked below)
        dom.facts = [] if cond else [(Vn, N)]
        o = Obj(S, {})
        it.call_fn(Fn(fn, it.menv("pyrex.signals"), self_obj=o, ci=S, module="pyrex.signals"), [dom.arr(N), dom.arr(Vn)], {}, 0)
        t, v = o.fields.get("times"), o.fields.get("values")
        ok = getattr(t, "kind", None) == "arr" and getattr(v, "kind", None) == "arr" and t.lin == N
        if not ok:
            ctx.unknown("R04f", f"{SIG}.__init__", f"[{arm} arm] lengths of times and values are known", f"times={t!r} values={v!r}")
            continue
        if arm == "pad":
            ctx.check(v.lin == N, "R04f", f"{SIG}.__init__", "[pad arm] values are extended to the length of times", f"len(values)={v.lin}", key_detail="pad length")
        else:
            # the slice values[:len(times)] has length min(V, N); in this arm V >= N (len_diff <= 0)
            ok = v.lin == N or repr(v.lin) in ("N",)
            ctx.check(ok, "R04f", f"{SIG}.__init__", "[truncate arm] values are cut to the length of times", f"len(values)={v.lin}", key_detail="truncate length")
    it.assume = {}
    env = local_env(fn)
    ld = env.get("len_diff")
    ok = ld is not None and u(ld) == "len(times) - len(values)" and tests[0].replace(" ", "") == "len_diff>0"
    ctx.check(ok, "R04f", f"{SIG}.__init__", "padding happens exactly when len(times) - len(values) > 0 and adds that many zeros", u(ld) if ld is not None else "", key_detail="pad amount")
    pad = [s for s in ast.walk(fn) if isinstance(s, ast.Assign) and u(s.targets[0]) == "self.values" and is_call(s.value, func="np.concatenate")]
    ok = len(pad) == 1 and u(pad[0].value) == "np.concatenate((values, np.zeros(len_diff)))"
    ctx.check(ok, "R04f", f"{SIG}.__init__", "short value arrays are zero-padded at the end", u(pad[0].value) if pad else "", key_detail="pad with zeros")


def r04g(ctx):
    """`a function-backed signal re-evaluates its function exactly` needs FunctionSignal.values to be the eager definition and the two
    copies of the buffer-point count (_full_times / _value_window) to agree: C06's R06d, reported here as well."""
    from . import c06
    from ._cross import relay
    relay(ctx, "R04g", "FunctionSignal.values is the eager evaluation of its definition; _full_times and _value_window count buffer points alike (= R06d)", "C06", c06.r06d, "R06d", kind="N")


def r04h(ctx):
    """`scaling multiplies every sample`: `sig *= k` on a function-backed signal whose values were already read must not leave the cached
    values behind -- an in-place update of a component list is covered by a cache clear or a static re-assignment (C06's R06b)."""
    from . import c06
    from ._cross import relay
    relay(ctx, "R04h", "in-place updates of a lazily evaluated signal's components are followed by a cache clear on every path (= R06b)", "C06",
          lambda c: c06.r06b(c, c06.lazy_classes(c.repo)), "R06b", kind="N")


def run(ctx):
    ctx.guard(r04h)
    ctx.guard(r04g)
    ctx.guard(r04a)
    ctx.guard(r04b)
    ctx.guard(r04c)
    ctx.guard(r04d)
    ctx.guard(r04e)
    ctx.guard(r04f)


SELFTEST = {
    "faults": [
        {"name": "np.asarray(times) in Signal.__init__", "file": "pyrex/signals.py", "old": "    def __init__(self, times, values, value_type=None):\n        self.times = np.array(times)",
         "new": "    def __init__(self, times, values, value_type=None):\n        self.times = np.asarray(times)", "rule": "R04a"},
        {"name": "filters shared by the copy", "file": "pyrex/signals.py", "old": "        new_signal._filters = copy.deepcopy(self._filters)", "new": "        new_signal._filters = self._filters",
         "rule": ["R04c", "R04b"]},
        {"name": "right=0 dropped", "file": "pyrex/signals.py", "old": "                               left=0, right=0)", "new": "                               left=0)", "rule": "R04e"},
        {"name": "times guard deleted from EmptySignal.__add__", "file": "pyrex/signals.py",
         "old": "        if not np.array_equal(self.times, other.times):\n            raise ValueError(\"Can't add signals with different times\")\n", "new": "", "occurrence": 2, "rule": "R04d"},
        {"name": "mul returns self", "file": "pyrex/signals.py", "old": "        new_signal = self.copy()\n        new_signal._factors = factors\n        return new_signal",
         "new": "        self._factors = factors\n        return self", "occurrence": 1, "rule": "R04b"},
        {"name": "truncate arm keeps all values", "file": "pyrex/signals.py", "old": "            self.values = np.array(values[:len(times)])", "new": "            self.values = np.array(values)",
         "rule": "R04f"},
        {"name": "radd returns self for anything", "file": "pyrex/signals.py", "old": "        if other==0:\n            return self\n        else:\n            return NotImplemented",
         "new": "        return self", "rule": ["R04b", "R04d"]},
        {"name": "with_times stores the caller's array (the defect repaired in FunctionSignal.with_times)", "file": "pyrex/signals.py",
         "old": "        new_signal.times = np.array(new_times)", "new": "        new_signal.times = new_times", "rule": "R04b"},
    ],
    "benign": [
        {"name": "np.copy for np.array", "file": "pyrex/signals.py", "old": "    def __init__(self, times, values, value_type=None):\n        self.times = np.array(times)",
         "new": "    def __init__(self, times, values, value_type=None):\n        self.times = np.array(times, copy=True)"},
    ],
}
