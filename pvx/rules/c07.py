"""C07 -- Askaryan pulses obey their scaling laws and fail gracefully."""
import ast

from ..core.source import AnalysisError, parent
from ..core.ai import Interp, Obj, Fn, Tup
from ..core.domains.affine import Affine
from ..core.astutil import strip_doc, calls, is_call, kwargs_of, guards, u, returns, names_in, parse_expr
from ..core.exprnf import NF
from ._ai import degree_interp, degree_verdict, lam

META = {
    "explanation": "Models ZHS, AVZ, ARZ (+ the deprecated ARVZ forwarding wrapper).  R07a degree domain through the constructors, their nested "
                   "signal functions and ARZ.shower_signal (on-cone arm and convolution arm): the trace is homogeneous of degree -1 in "
                   "viewing_distance for every input.  R07b every load of the parameter viewing_angle is the argument of abs (or the same-named "
                   "keyword of a family constructor): dependence on the angle only through its magnitude.  R07c affine domain on the time "
                   "axis: with `times` and `t0` of translation weight 1 every returned array has weight 0 (joint time shift invariance).  R07d "
                   "the `function` argument reaching FunctionSignal.__init__ is a callable definition (nested def / lambda / bound method) or "
                   "None, never an array expression; zero-energy arms return zeros(len(times)).  R07e degree +1 in the shower energy for ZHS and "
                   "for the ARZ on-cone arm.  R07f the two time-sign arms of the RAC parameterisations use complementary masks consistently.",
    "not_decided": ["whole-sample shift equivariance (integer rounding of int(.../dt))", "finiteness", "peak on the Cherenkov cone and monotone fall-off",
                    "AVZ energy proportionality (energy enters the LPM width: the interpreter returns a definite non-homogeneous value; no obligation)"],
    "trusted_base": ["CPython ast", "summary tables of the degree and affine domains"],
    "assumptions": [],
}

MODELS = ["pyrex.askaryan.ZHSAskaryanSignal", "pyrex.askaryan.AVZAskaryanSignal", "pyrex.askaryan.ARZAskaryanSignal"]
ARZ = "pyrex.askaryan.ARZAskaryanSignal"
ZHS = "pyrex.askaryan.ZHSAskaryanSignal"


def energy_tests(fn):
    """texts of `<something energy> == 0` tests in a constructor / method"""
    return [u(n.test) for n in ast.walk(fn) if isinstance(n, ast.If) and isinstance(n.test, ast.Compare) and "energy" in u(n.test.left) and u(n.test.comparators[0]) == "0"
            and isinstance(n.test.ops[0], ast.Eq)]


def oncone_test(repo):
    fn = repo.member(ARZ, "shower_signal")
    t = [u(n.test) for n in ast.walk(fn) if isinstance(n, ast.If) and "oncone_range" in u(n.test)]
    if len(t) != 1:
        raise AnalysisError("ARZAskaryanSignal.shower_signal: on-cone test not found")
    return t[0]


def r07a(ctx):
    repo = ctx.repo
    ctx.rule("R07a", "trace is Hom(-1) in viewing_distance (constructor -> nested function -> values); ARZ.shower_signal on both arms", expected=5, kind="S")
    dom, it = degree_interp(repo)
    U, LIN = dom.U, dom.LIN
    for q in MODELS + ["pyrex.askaryan.ARVZAskaryanSignal"]:
        ci = repo.cls(q)
        it.notes.clear()
        it.assume = {t: False for t in energy_tests(repo.lookup(q, "__init__")[2])}
        obj = it.construct(ci, [], {"times": U, "particle": U, "viewing_angle": U, "viewing_distance": LIN, "ice_model": U, "t0": U}, 0)
        v = it.getattr_obj(obj, "values", 0)
        degree_verdict(ctx, "R07a", f"{q}", "field values are inversely proportional to the viewing distance", it.flat(v) if not hasattr(v, "kind") else v, -1, notes=it.notes,
                       loc=ctx.loc(ci.module, ci.node))
    oc = oncone_test(repo)
    ss = repo.member(ARZ, "shower_signal")
    for arm, val in (("on-cone", True), ("convolution", False)):
        it.notes.clear()
        it.assume = {oc: val, **{t: False for t in energy_tests(ss)}}
        obj = Obj(repo.cls(ARZ), {})
        out = it.call_fn(it.getattr_obj(obj, "shower_signal", 0), [], {"times": U, "energy": U, "profile_function": lam("lambda z, e: Q", {"Q": U}),
                                                                         "potential_function": lam("lambda t, e: R", {"R": U}), "viewing_angle": U,
                                                                         "viewing_distance": LIN, "n": U, "t0": U}, 0)
        degree_verdict(ctx, "R07a", f"{ARZ}.shower_signal", f"[{arm} arm] returned field is of degree -1 in viewing_distance", it.flat(out), -1, notes=it.notes,
                       loc=ctx.loc("pyrex.askaryan", ss))
    it.assume = {}


def r07b(ctx):
    repo = ctx.repo
    ctx.rule("R07b", "every load of the parameter `viewing_angle` is the argument of abs(), or the same-named keyword of a family constructor", expected=3, kind="S")
    for q in MODELS + ["pyrex.askaryan.ARVZAskaryanSignal"]:
        fn = repo.member(q, "__init__")
        loads = [n for n in ast.walk(fn) if isinstance(n, ast.Name) and n.id == "viewing_angle" and isinstance(n.ctx, ast.Load)]
        bad = []
        for n in loads:
            p = parent(n)
            if isinstance(p, ast.Call) and u(p.func) in ("np.abs", "abs", "np.absolute", "np.fabs") and p.args and p.args[0] is n:
                continue
            if isinstance(p, ast.keyword) and p.arg == "viewing_angle" and "super()" in u(parent(p).func):
                continue
            if isinstance(p, ast.Call) and u(p.func) == "np.cos" and p.args[0] is n:
                continue            # even function
            st = n
            while not isinstance(st, ast.stmt):
                st = parent(st)
            bad.append((n, u(st)[:90]))
        if bad:
            for n, txt in bad:
                ctx.bad("R07b", q, "the viewing angle enters only through its magnitude", f"raw use in `{txt}`", key_detail=f"raw viewing_angle in: {txt[:60]}",
                        loc=ctx.loc("pyrex.askaryan", n))
        else:
            ctx.ok("R07b", q, "the viewing angle enters only through its magnitude", f"{len(loads)} load(s), all under abs()/forwarded", loc=ctx.loc("pyrex.askaryan", fn))
        # the range check is on the magnitude
        if q in MODELS:
            chk = [n for n in strip_doc(fn) if isinstance(n, ast.If) and any(isinstance(x, ast.Raise) for x in n.body) and "np.pi" in u(n.test)]
            ok = len(chk) == 1 and u(chk[0].test) in ("theta > np.pi",) and any(isinstance(s, ast.Assign) and u(s.targets[0]) == "theta" and isinstance(s.value, ast.Call)
                                                                             and u(s.value.func) in ("np.abs", "abs", "np.absolute", "np.fabs")
                                                                             and [u(a) for a in s.value.args] == ["viewing_angle"] for s in strip_doc(fn))
            ctx.check(ok, "R07b", q, "angles beyond pi are rejected on the magnitude theta = |viewing_angle|", u(chk[0].test) if chk else "", key_detail="range check")


def r07c(ctx):
    repo = ctx.repo
    ctx.rule("R07c", "joint time shift: with times and t0 of weight 1 the array returned by the model's sampled function has weight 0", expected=3, kind="S")
    dom = Affine()
    it = Interp(repo, dom, depth=10)
    U, P = dom.U, dom.P
    for q in MODELS:
        ci = repo.cls(q)
        it.notes.clear()
        it.assume = {t: False for t in energy_tests(repo.member(q, "__init__"))}
        if q == ARZ:
            it.assume.update({t: False for t in energy_tests(repo.member(ARZ, "shower_signal"))})
        obj = it.construct(ci, [], {"times": P, "particle": U, "viewing_angle": U, "viewing_distance": U, "ice_model": U, "t0": P}, 0)
        fns = obj.fields.get("_functions")
        f = fns.items[0] if isinstance(fns, Tup) and fns.items else None
        if not isinstance(f, Fn):
            ctx.unknown("R07c", q, "the sampled function of the model is a nested definition", repr(f))
            continue
        outs = []
        arms = [({}, "")] if q != ARZ else [({oncone_test(repo): True}, "[on-cone] "), ({oncone_test(repo): False}, "[convolution] ")]
        for extra, tag in arms:
            it.assume.update(extra)
            out = it.flat(it.call_fn(f, [P], {}, 0))
            what = f"{tag}sampled on absolute times with the same t0, the trace does not move with a common shift of both"
            if out.kind == "top":
                ctx.unknown("R07c", q, what, f"{out!r} notes={sorted(set(it.notes))[:3]}")
            elif out.kind == "bad" or (out.kind == "w" and out.w != 0):
                ctx.bad("R07c", q, what, repr(out), key_detail=f"{tag}time-shift invariance")
            else:
                ctx.ok("R07c", q, what, repr(out))
    it.assume = {}


def r07d(ctx):
    repo = ctx.repo
    ctx.rule("R07d", "the `function` argument of FunctionSignal.__init__ is a callable definition or None at every call site; zero-energy arms return zeros(len(times))",
             expected=6, kind="N")
    fsinit = repo.member("pyrex.signals.FunctionSignal", "__init__")
    fparam = fsinit.args.args[2].arg
    n = 0
    for ci in repo.classes.values():
        if not ci.is_subclass_of("FunctionSignal"):
            continue
        for mname, (kind, fn) in ci.methods.items():
            nested = {x.name for x in ast.walk(fn) if isinstance(x, ast.FunctionDef) and x is not fn}
            for c in ast.walk(fn):
                if not isinstance(c, ast.Call):
                    continue
                target = None
                if is_call(c, name="__init__") and "super()" in u(c.func):
                    mro = ci.mro()
                    nxt = next((m for m in mro[1:] if "__init__" in m.methods), None)
                    if nxt is not None and nxt.name == "FunctionSignal":
                        target = c
                elif u(c.func) == "FunctionSignal":
                    target = c
                if target is None:
                    continue
                n += 1
                arg = target.args[1] if len(target.args) > 1 else kwargs_of(target).get(fparam)
                if arg is None:
                    ctx.bad("R07d", f"{ci.qual}.{mname}", "a function argument is supplied to FunctionSignal.__init__", u(target)[:80], key_detail="no function argument",
                            loc=ctx.loc(ci.module, target))
                    continue
                ok = (isinstance(arg, ast.Lambda) or (isinstance(arg, ast.Name) and arg.id in nested) or (isinstance(arg, ast.Constant) and arg.value is None)
                      or (isinstance(arg, ast.Attribute) and u(arg.value) == "self") or (isinstance(arg, ast.Name) and arg.id in [a.arg for a in fn.args.args]))
                ctx.check(ok, "R07d", f"{ci.qual}.{mname}", "the value passed as `function` is a callable (nested def, lambda, bound method, forwarded parameter) or None",
                          f"`{u(arg)[:60]}` in `{u(target)[:70]}`", key_detail=f"function argument {u(arg)[:40]}", loc=ctx.loc(ci.module, target))
    if n < 6:
        raise AnalysisError(f"only {n} FunctionSignal constructor call sites found (>= 8 on the pinned tree)")
    # zero-energy arms
    ss = repo.member(ARZ, "shower_signal")
    z = [nn for nn in strip_doc(ss) if isinstance(nn, ast.If) and u(nn.test) == "energy == 0"]
    ok = len(z) == 1 and len(z[0].body) == 1 and isinstance(z[0].body[0], ast.Return) and u(z[0].body[0].value) == "np.zeros(len(times))" and strip_doc(ss).index(z[0]) == 0
    ctx.check(ok, "R07d", f"{ARZ}.shower_signal", "zero shower energy returns an all-zero field of the length of times before anything else", "", key_detail="zero energy arm")
    zi = repo.member(ZHS, "__init__")
    z = [nn for nn in strip_doc(zi) if isinstance(nn, ast.If) and u(nn.test) == "self.energy == 0"]
    ok = len(z) == 1 and isinstance(z[0].body[-1], ast.Return)
    if ok:
        c = [x for x in ast.walk(z[0]) if is_call(x, name="__init__") and "super()" in u(x.func)]
        ok = len(c) == 1
        if ok:
            arg = c[0].args[1] if len(c[0].args) > 1 else kwargs_of(c[0]).get(fparam)
            body = arg.body if isinstance(arg, ast.Lambda) else None
            if body is None and isinstance(arg, ast.Name):
                d = [x for x in ast.walk(zi) if isinstance(x, ast.FunctionDef) and x.name == arg.id]
                body = d[0].body[-1].value if d and isinstance(d[0].body[-1], ast.Return) else None
            p0 = (arg.args.args[0].arg if isinstance(arg, ast.Lambda) and arg.args.args else "times")
            ok = body is not None and u(body).replace(p0, "T") in ("np.zeros(len(T))", "np.zeros_like(T)", "np.zeros(T.shape)", "0 * T", "T * 0", "np.zeros(np.shape(T))")
            kw = kwargs_of(c[0]).get("value_type")
            ok = ok and kw is not None and u(kw).endswith("Type.field")
    ctx.check(ok, "R07d", f"{ZHS}.__init__", "zero shower energy builds a field signal whose function returns zeros of the sampled length, then returns", "",
              key_detail="zero energy arm")


def r07e(ctx):
    repo = ctx.repo
    ctx.rule("R07e", "on the cone the amplitude is proportional to the shower energy: ZHS Hom(1) in energy; ARZ on-cone arm Hom(1) in energy (through the RAC functions)",
             expected=3, kind="S")
    dom, it = degree_interp(repo)
    U, LIN = dom.U, dom.LIN
    P = repo.cls("pyrex.particle.Particle")
    I = repo.cls("pyrex.particle.Interaction")
    it.assume = {t: False for t in energy_tests(repo.member(ZHS, "__init__"))}
    part = Obj(P, {"energy": LIN, "interaction": Obj(I, {"em_frac": U, "had_frac": U}), "vertex": U})
    obj = it.construct(repo.cls(ZHS), [], {"times": U, "particle": part, "viewing_angle": U, "viewing_distance": U, "ice_model": U, "t0": U}, 0)
    v = it.getattr_obj(obj, "values", 0)
    degree_verdict(ctx, "R07e", ZHS, "field values are proportional to the particle's shower energy", it.flat(v) if not hasattr(v, "kind") else v, 1, notes=it.notes)
    ss = repo.member(ARZ, "shower_signal")
    for pot in ("em_shower_RAC", "had_shower_RAC"):
        it.notes.clear()
        it.assume = {oncone_test(repo): True, **{t: False for t in energy_tests(ss)}}
        obj = Obj(repo.cls(ARZ), {})
        out = it.call_fn(it.getattr_obj(obj, "shower_signal", 0), [], {"times": U, "energy": LIN, "profile_function": lam("lambda z, e: Q", {"Q": U}),
                                                                         "potential_function": it.getattr_obj(obj, pot, 0), "viewing_angle": U,
                                                                         "viewing_distance": U, "n": U, "t0": U}, 0)
        degree_verdict(ctx, "R07e", f"{ARZ}.shower_signal[{pot}]", "[on-cone arm] field is proportional to the shower energy", it.flat(out), 1, notes=it.notes)
    it.assume = {}
    # the constructor wires EM energy with the EM profile/potential and hadronic with hadronic
    init = repo.member(ARZ, "__init__")
    cs = [c for c in ast.walk(init) if is_call(c, name="shower_signal", recv="self")]
    pairs = sorted((u(kwargs_of(c).get("energy")), u(kwargs_of(c).get("profile_function")), u(kwargs_of(c).get("potential_function"))) for c in cs)
    ok = pairs == [("self.em_energy", "self.em_shower_profile", "self.em_shower_RAC"), ("self.had_energy", "self.had_shower_profile", "self.had_shower_RAC")]
    ctx.check(ok, "R07e", f"{ARZ}.__init__", "EM energy goes with the EM profile and potential, hadronic with hadronic; both see |angle|, distance, n and t0",
              str(pairs), key_detail="shower wiring")
    common = all({k: u(v) for k, v in kwargs_of(c).items() if k in ("times", "viewing_angle", "viewing_distance", "n", "t0")} ==
                 {"times": "times", "viewing_angle": "theta", "viewing_distance": "viewing_distance", "n": "n", "t0": "t0"} for c in cs)
    ctx.check(common and len(cs) == 2, "R07e", f"{ARZ}.__init__", "both showers are evaluated on the sampled times with theta = |viewing_angle|", "", key_detail="shower arguments")


def r07f(ctx):
    repo = ctx.repo
    ctx.rule("R07f", "RAC parameterisations: the time>=0 and time<0 masks are complementary and each arm uses its own mask on both sides of the assignment",
             expected=2, kind="N")
    for m in ("em_shower_RAC", "had_shower_RAC"):
        fn = repo.member(ARZ, m)
        t = fn.args.args[0].arg
        arms = [s for s in strip_doc(fn) if isinstance(s, ast.Assign) and isinstance(s.targets[0], ast.Subscript)]
        masks = [u(s.targets[0].slice) for s in arms]
        ok = sorted(m_.replace(" ", "") for m_ in masks) == sorted([f"{t}>=0", f"{t}<0"])
        ctx.check(ok, "R07f", f"{ARZ}.{m}", "two arms with complementary masks time>=0 / time<0", str(masks), key_detail="complementary masks",
                  loc=ctx.loc("pyrex.askaryan", fn))
        for s in arms:
            mk = u(s.targets[0].slice)
            inner = {u(x.slice) for x in ast.walk(s.value) if isinstance(x, ast.Subscript)}
            ctx.check(inner == {mk}, "R07f", f"{ARZ}.{m}", f"arm [{mk}] evaluates its formula on the samples selected by the same mask", str(sorted(inner)),
                      key_detail=f"mask consistency {mk}")
        en = fn.args.args[1].arg
        lin = all(isinstance(s.value, ast.BinOp) and en in names_in(s.value.left) and en not in names_in(s.value.right) for s in arms)
        ctx.check(lin, "R07f", f"{ARZ}.{m}", "energy is an overall factor of both arms", "", key_detail="energy factor")


def r07g(ctx):
    """AVZ hadronic cone width: a piecewise parameterisation in epsilon = log10(E_had / 1 TeV) that is only defined for epsilon >= 0.  The arms
    must be contiguous half-open intervals starting at 0; below that the width stays 0 and the hadronic term is skipped (a width evaluated
    outside its domain, e.g. at epsilon = -inf for zero hadronic energy, makes the field non-finite)."""
    repo = ctx.repo
    ctx.rule("R07g", "AVZ hadronic width: interval arms lo < eps <= hi are contiguous from eps >= 0; default width 0; hadronic term only when the width is non-zero; "
             "zero hadronic energy maps to eps = -inf", expected=3, kind="N")
    AVZ = "pyrex.askaryan.AVZAskaryanSignal"
    init = repo.member(AVZ, "__init__")
    g = [n for n in ast.walk(init) if isinstance(n, ast.FunctionDef) and n is not init and n.name == "get_signal"]
    if len(g) != 1:
        ctx.unknown("R07g", AVZ, "nested get_signal found", "")
        return
    g = g[0]
    chain = [n for n in g.body if isinstance(n, ast.If) and "epsilon" in u(n.test) and "had_energy" not in u(n.test)]
    if len(chain) != 1:
        ctx.unknown("R07g", AVZ, "one interval chain on epsilon", f"{len(chain)}")
        return
    arms = []
    cur = chain[0]
    while True:
        arms.append(cur.test)
        if len(cur.orelse) == 1 and isinstance(cur.orelse[0], ast.If):
            cur = cur.orelse[0]
        else:
            tail = cur.orelse
            break

    def bounds(t):
        lo = hi = None
        parts = t.values if isinstance(t, ast.BoolOp) and isinstance(t.op, ast.And) else [t]
        for c_ in parts:
            if not (isinstance(c_, ast.Compare) and len(c_.ops) == 1):
                return None
            l, r, op = u(c_.left), u(c_.comparators[0]), type(c_.ops[0]).__name__
            if r == "epsilon":
                l, r, op = r, l, {"Lt": "Gt", "LtE": "GtE", "Gt": "Lt", "GtE": "LtE"}.get(op, op)
            if l != "epsilon":
                return None
            try:
                val = float(ast.literal_eval(c_.comparators[0] if u(c_.left) == "epsilon" else c_.left))
            except Exception:
                return None
            if op in ("Gt", "GtE"):
                lo = (val, op == "GtE")
            elif op in ("Lt", "LtE"):
                hi = (val, op == "LtE")
        return lo, hi
    bs = [bounds(t) for t in arms]
    ok = all(b is not None for b in bs) and bs[0][0] == (0.0, True)
    if ok:
        for (lo1, hi1), (lo2, hi2) in zip(bs, bs[1:]):
            ok = ok and hi1 is not None and lo2 is not None and hi1[0] == lo2[0] and hi1[1] != lo2[1]
        ok = ok and bs[-1][1] is None and not tail
    ctx.check(ok, "R07g", f"{AVZ}.__init__.<get_signal>", "the width arms partition [0, inf): first arm starts at eps >= 0, each arm starts where the previous one ends, nothing applies below 0",
              str([u(t) for t in arms]), key_detail="epsilon interval chain", loc=ctx.loc("pyrex.askaryan", chain[0]))
    body = [u(x) for x in g.body]
    i_def = next((i for i, t in enumerate(body) if t == "dThetaHad = 0"), None)
    ok = i_def is not None and i_def < g.body.index(chain[0])
    ctx.check(ok, "R07g", f"{AVZ}.__init__.<get_signal>", "the width defaults to 0 before the chain", "", key_detail="default width")
    had = [n for n in g.body if isinstance(n, ast.If) and "had_frac" in u(n.test)]
    ok = len(had) == 1 and "np.any(dThetaHad != 0)" in u(had[0].test)
    ctx.check(ok, "R07g", f"{AVZ}.__init__.<get_signal>", "the hadronic term (which divides by the width) is evaluated only when the width is non-zero", u(had[0].test) if had else "",
              key_detail="width guard")
    z = [n for n in g.body if isinstance(n, ast.If) and u(n.test) == "self.had_energy == 0"]
    ok = len(z) == 1 and u(z[0].body[0]) == "epsilon = -np.inf" and u(z[0].orelse[0]) == "epsilon = np.log10(self.had_energy / 1000.0)"
    ctx.check(ok, "R07g", f"{AVZ}.__init__.<get_signal>", "zero hadronic energy is mapped to eps = -inf (outside every arm) instead of log10(0)", "", key_detail="zero hadronic energy")


def r07h(ctx):
    from ._fwd import forwarding
    ctx.rule("R07h", "every Askaryan model (and the deprecated alias classes) hands its constructor parameters -- times, particle, angle, distance, ice model, t0 -- to the model it extends", expected=5, kind="N")
    forwarding(ctx, "R07h", {"pyrex.askaryan"}, "Askaryan models")


def run(ctx):
    ctx.guard(r07h)
    ctx.guard(r07g)
    ctx.guard(r07a)
    ctx.guard(r07b)
    ctx.guard(r07c)
    ctx.guard(r07d)
    ctx.guard(r07e)
    ctx.guard(r07f)


SELFTEST = {
    "faults": [
        {"name": "out-of-window AVZ pulse returned before the odd-length fix-up (generic new-exit rule)", "file": "pyrex/askaryan.py",
         "old": "                trace = np.zeros(len(trace), dtype=trace.dtype)\n            else:\n                long_trace = np.concatenate((trace, np.zeros(len(trace))))\n                trace = np.roll(long_trace, shift)[:len(trace)]",
         "new": "                return np.zeros(len(trace), dtype=trace.dtype)\n            long_trace = np.concatenate((trace, np.zeros(len(trace))))\n            trace = np.roll(long_trace, shift)[:len(trace)]",
         "rule": "R07w"},
        {"name": "lower bound of the hadronic width chain dropped", "file": "pyrex/askaryan.py", "old": "            if (epsilon >= 0 and epsilon <= 2):", "new": "            if (epsilon <= 2):",
         "rule": "R07g"},
        {"name": "1/R^2", "file": "pyrex/askaryan.py", "old": "            e_omega /= viewing_distance\n", "new": "            e_omega /= viewing_distance**2\n", "rule": "R07a", "construct": "ZHS"},
        {"name": "sqrt(R) in ARZ convolution arm", "file": "pyrex/askaryan.py", "old": "        return np.diff(A) / viewing_distance", "new": "        return np.diff(A) / np.sqrt(viewing_distance)",
         "rule": "R07a", "construct": "ARZ"},
        {"name": "raw viewing_angle in AVZ", "file": "pyrex/askaryan.py", "old": "                E *= np.sin(theta) / np.sin(theta_c)\n                em_tmp[1:] += (E / viewing_distance",
         "new": "                E *= np.sin(viewing_angle) / np.sin(theta_c)\n                em_tmp[1:] += (E / viewing_distance", "rule": "R07b", "construct": "AVZ"},
        {"name": "t0 dropped from the ZHS phase", "file": "pyrex/askaryan.py", "old": "freq_vals = e_omega * np.exp(-1j*2*np.pi*freqs*(t0-times[0]))", "new": "freq_vals = e_omega * np.exp(-1j*2*np.pi*freqs*(times[0]))",
         "rule": "R07c", "construct": "ZHS"},
        {"name": "array passed as function", "file": "pyrex/askaryan.py", "old": "        super().__init__(times, get_signal_from_showers,", "new": "        super().__init__(times, get_signal_from_showers(times),",
         "rule": "R07d"},
        {"name": "on-cone arm loses t0", "file": "pyrex/askaryan.py", "old": "            times = np.concatenate((times, [times[-1]+dt])) - t0", "new": "            times = np.concatenate((times, [times[-1]+dt]))",
         "rule": "R07c", "construct": "ARZ"},
        {"name": "energy squared in em RAC", "file": "pyrex/askaryan.py", "old": "        rac[time>=0] = (-4.5e-17 * energy *", "new": "        rac[time>=0] = (-4.5e-17 * energy**2 *", "rule": "R07e"},
        {"name": "mask mismatch in had RAC", "file": "pyrex/askaryan.py", "old": "(np.exp(-ta[time<0]/0.043) + (1+2.92*ta[time<0])**-3.21))", "new": "(np.exp(-ta[time<0]/0.043) + (1+2.92*ta[time>=0])**-3.21))",
         "rule": "R07f"},
        {"name": "hadronic energy with EM potential", "file": "pyrex/askaryan.py", "old": "                                          potential_function=self.had_shower_RAC,",
         "new": "                                          potential_function=self.em_shower_RAC,", "rule": "R07e"},
        {"name": "zero-energy ARZ arm returns None-length", "file": "pyrex/askaryan.py", "old": "        if energy==0:\n            return np.zeros(len(times))", "new": "        if energy==0:\n            return np.zeros(1)",
         "rule": "R07d"},
    ],
    "benign": [
        {"name": "x = x / R for x /= R", "file": "pyrex/askaryan.py", "old": "            e_omega /= viewing_distance\n", "new": "            e_omega = e_omega / viewing_distance\n"},
        {"name": "abs for np.abs", "file": "pyrex/askaryan.py", "old": "        theta = np.abs(viewing_angle)", "new": "        theta = abs(viewing_angle)", "occurrence": 2},
    ],
}
