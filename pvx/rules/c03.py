"""C03 -- ray propagation is passive, delays by the time of flight, polarization transverse."""
import ast

from ..core.source import AnalysisError, parent
from ..core import paths
from ..core.ai import Interp, Obj, Fn, Tup
from ..core.domains.sign import Sign, V
from ..core.astutil import strip_doc, stmts_in_order, calls, is_call, kwargs_of, guards, u, returns, names_in, parse_expr
from ..core.exprnf import NF, local_env
from ._ai import degree_interp, plain_signal, function_signal, degree_verdict, lam

META = {
    "explanation": "Siblings BasicRayTracePath.propagate (inherited by SpecializedRayTracePath), UniformRayTracePath.propagate and "
                   "LayeredRayTracePath.propagate.  R03a degree domain: returned signals are linear in the input signal's values (Signal and "
                   "FunctionSignal inputs) and in the polarization vector.  R03b path-state analysis: every returned signal object received "
                   "exactly one .shift(self.tof) and exactly one .filter_frequencies(...) (force_real=True on the polarized arm) on every path. "
                   "R03c the argument signal is never mutated in place (only copies / products are).  R03d sign domain: all four attenuation "
                   "methods return exp(non-positive) or a product of such factors, i.e. a value in (0,1], assuming positive attenuation lengths "
                   "(discharged by C16/R16g).  R03e the Fresnel expressions of the three classes are one normal form each and r_p is r_s with "
                   "n_1<->n_2 exchanged; coefficients multiply the matching polarization.  R03f returned polarization vectors are normalized "
                   "cross products, hence unit, mutually orthogonal and (for the p vector) perpendicular to the received direction.",
    "not_decided": ["|Fresnel coefficient| <= 1 (real algebra over runtime indices)", "monotonicity of attenuation in |f| (ice-model numerics)",
                    "interpolation error of attenuation_interpolation", "u_s0 perpendicular to the received direction (planar-ray physics)",
                    "the energy inequality as a whole"],
    "trusted_base": ["CPython ast", "summary tables of the degree and sign domains", "normalize() returns a unit vector"],
    "assumptions": ["ice.attenuation_length(...) > 0 (R16g)"],
}

PATHS = ["pyrex.ray_tracing.BasicRayTracePath", "pyrex.ray_tracing.SpecializedRayTracePath", "pyrex.ray_tracing.UniformRayTracePath",
         "pyrex.custom.layered_ice.ray_tracing.LayeredRayTracePath"]
OWNERS = ["pyrex.ray_tracing.BasicRayTracePath", "pyrex.ray_tracing.UniformRayTracePath", "pyrex.custom.layered_ice.ray_tracing.LayeredRayTracePath"]
INPLACE = {"shift", "filter_frequencies", "resample", "set_buffers"}


def arm_assumptions(fn):
    """texts of the two `is None` tests of propagate, with their parameter names"""
    sig = fn.args.args[1].arg
    pol = fn.args.args[2].arg
    return sig, pol, {f"{pol} is None": False, f"{sig} is None": False}


def r03a(ctx):
    repo = ctx.repo
    ctx.rule("R03a", "returned signals' values are Lin in the input signal (Signal / FunctionSignal) and Lin in the polarization; unpolarized arm Lin in the signal",
             expected=16, kind="S")
    dom, it = degree_interp(repo)
    U, LIN = dom.U, dom.LIN
    for q in PATHS:
        ci = repo.cls(q)
        owner, kind, fn = repo.lookup(q, "propagate")
        sig, pol, assume = arm_assumptions(fn)
        for kind_ in ("Signal", "FunctionSignal"):
            for what in ("signal", "polarization"):
                it.notes.clear()
                it.assume = dict(assume)
                p = Obj(ci, {"from_point": U, "to_point": U, "theta0": U, "ice": U, "dz": U, "direct": U, "paths": Tup([U]), "_reflections": U})
                s_in = (plain_signal(repo, dom, values=LIN if what == "signal" else None) if kind_ == "Signal"
                        else function_signal(repo, dom, out=LIN if what == "signal" else None))
                out = it.call_fn(it.getattr_obj(p, "propagate", 0), [], {sig: s_in, pol: LIN if what == "polarization" else U, "attenuation_interpolation": U}, 0)
                vals = []
                if isinstance(out, Tup) and out.items and isinstance(out.items[0], Tup):
                    for o in out.items[0].items:
                        vals.append(it.getattr_obj(o, "values", 0) if isinstance(o, Obj) else o)
                if len(vals) != 2:
                    ctx.unknown("R03a", f"{q}.propagate", f"[{kind_}] polarized arm returns two signals", repr(out)[:80])
                    continue
                for name, v in zip(("s", "p"), vals):
                    degree_verdict(ctx, "R03a", f"{q}.propagate", f"[{kind_} input] {name}-signal is linear in the {what}", it.flat(v) if not hasattr(v, "kind") else v,
                                   1, want_lin=True, notes=it.notes, loc=ctx.loc(owner.module, fn))
        # unpolarized arm
        it.assume = {f"{pol} is None": True, f"{sig} is None": False}
        p = Obj(ci, {"from_point": U, "to_point": U, "theta0": U, "ice": U, "dz": U, "direct": U, "paths": Tup([U]), "_reflections": U})
        out = it.call_fn(it.getattr_obj(p, "propagate", 0), [], {sig: plain_signal(repo, dom, values=LIN), pol: U, "attenuation_interpolation": U}, 0)
        v = it.getattr_obj(out, "values", 0) if isinstance(out, Obj) else out
        degree_verdict(ctx, "R03a", f"{q}.propagate", "[no polarization] returned signal is linear in the input signal", it.flat(v) if not hasattr(v, "kind") else v, 1, want_lin=True,
                       notes=it.notes, loc=ctx.loc(owner.module, fn))
    it.assume = {}


def r03b(ctx):
    repo = ctx.repo
    ctx.rule("R03b", "every returned signal object got exactly one .shift(self.tof) and one .filter_frequencies(...) on every path; force_real=True with Fresnel factors",
             expected=9, kind="N")
    for q in OWNERS:
        fn = repo.member(q, "propagate")
        mod = repo.cls(q).module
        c = f"{q}.propagate"
        sigp = fn.args.args[1].arg
        # signal-valued locals: assigned from signal.copy() or signal * x
        locals_ = {}
        for st in ast.walk(fn):
            if isinstance(st, ast.Assign) and len(st.targets) == 1 and isinstance(st.targets[0], ast.Name):
                v = st.value
                if (is_call(v, name="copy", recv=sigp)) or (isinstance(v, ast.BinOp) and isinstance(v.op, ast.Mult) and sigp in (u(v.left), u(v.right))):
                    locals_[st.targets[0].id] = st
        if not locals_:
            ctx.unknown("R03b", c, "signal-valued locals derived from the input found", "")
            continue
        names = sorted(locals_)
        results = []

        def step(node, state):
            d = dict(state)
            for n in ast.walk(node):
                if isinstance(n, ast.Call) and isinstance(n.func, ast.Attribute) and isinstance(n.func.value, ast.Name) and n.func.value.id in names:
                    k = n.func.value.id
                    sh, fl = d.get(k, (0, 0))
                    if n.func.attr == "shift":
                        sh = min(sh + 1, 3)
                    elif n.func.attr == "filter_frequencies":
                        fl = min(fl + 1, 3)
                    d[k] = (sh, fl)
            if isinstance(node, ast.Return) and node.value is not None:
                for k in names:
                    if k in names_in(node.value):
                        results.append((k, d.get(k, (0, 0)), node))
            return tuple(sorted(d.items()))
        paths.flow(strip_doc(fn), step, {()})
        by = {}
        for k, cnt, node in results:
            by.setdefault(k, set()).add(cnt)
        for k in names:
            cnts = by.get(k, set())
            ctx.check(cnts == {(1, 1)}, "R03b", c, f"returned `{k}` is shifted once and filtered once on every path that returns it",
                      f"(shifts, filters) seen at its returns: {sorted(cnts)}", key_detail=f"{k} delay/filter count", loc=ctx.loc(mod, locals_[k]))
            sh = [x for x in ast.walk(fn) if is_call(x, name="shift", recv=k)]
            ctx.check(all(len(x.args) == 1 and u(x.args[0]) == "self.tof" for x in sh) and sh, "R03b", c, f"`{k}` is delayed by self.tof", str([u(x) for x in sh]),
                      key_detail=f"{k} delay amount")
        # force_real on the polarized arm
        for k in names:
            fl = [x for x in ast.walk(fn) if is_call(x, name="filter_frequencies", recv=k)]
            for x in fl:
                arg = u(x.args[0]) if x.args else ""
                env = {}
                for st in ast.walk(fn):
                    if isinstance(st, ast.Assign) and isinstance(st.targets[0], ast.Name):
                        env[st.targets[0].id] = st.value
                d = env.get(arg)
                uses_fresnel = d is not None and isinstance(d, ast.Lambda) and any(nm in names_in(d.body) for nm in ("r_s", "r_p", "f_s", "f_p"))
                if uses_fresnel:
                    fr = kwargs_of(x).get("force_real")
                    ctx.check(fr is not None and u(fr) == "True", "R03b", c, f"`{k}` is filtered with force_real=True (the Fresnel factor may be complex)", u(x),
                              key_detail=f"{k} force_real")


def r03c(ctx):
    repo = ctx.repo
    ctx.rule("R03c", "the argument signal is not mutated: no in-place method, augmented assignment or attribute store on it", expected=3, kind="S")
    for q in OWNERS:
        fn = repo.member(q, "propagate")
        sigp = fn.args.args[1].arg
        muts = []
        for n in ast.walk(fn):
            if is_call(n, recv=sigp) and n.func.attr in INPLACE:
                muts.append(u(n)[:60])
            elif isinstance(n, ast.AugAssign) and u(n.target).split(".")[0].split("[")[0] == sigp:
                muts.append(u(n)[:60])
            elif isinstance(n, ast.Assign):
                for t in n.targets:
                    if isinstance(t, (ast.Attribute, ast.Subscript)) and u(t).split(".")[0].split("[")[0] == sigp:
                        muts.append(u(n)[:60])
                    if isinstance(t, ast.Name) and t.id == sigp:
                        muts.append("rebinding: " + u(n)[:50])
        # aliases: another name bound to the bare parameter
        for n in ast.walk(fn):
            if isinstance(n, ast.Assign) and isinstance(n.value, ast.Name) and n.value.id == sigp:
                muts.append("alias: " + u(n))
        ctx.check(not muts, "R03c", f"{q}.propagate", f"`{sigp}` is only copied / multiplied, never changed in place", str(muts), key_detail="input mutated",
                  loc=ctx.loc(repo.cls(q).module, fn))


def r03d(ctx):
    repo = ctx.repo
    ctx.rule("R03d", "attenuation(f) lies in (0,1]: exp of a non-positive quantity or a product of such factors starting from ones", expected=4, kind="S")
    dom = Sign()
    it = Interp(repo, dom, depth=10)
    for q in PATHS:
        ci = repo.cls(q)
        it.notes.clear()
        p = Obj(ci, {"paths": Tup([V("any")])})
        out = it.call_fn(it.getattr_obj(p, "attenuation", 0), [V("any")], {}, 0)
        v = it.flat(out)
        owner, kind, fn = repo.lookup(q, "attenuation")
        what = "attenuation factor is in (0, 1] for every frequency"
        if v.k == "unit":
            ctx.ok("R03d", f"{q}.attenuation", what, "Unit", loc=ctx.loc(owner.module, fn))
        elif v.k in ("pos",):
            ctx.bad("R03d", f"{q}.attenuation", what, "positive but not bounded by 1 (exp of a value that is not non-positive, or a product with such a factor)",
                    key_detail="attenuation above one", loc=ctx.loc(owner.module, fn))
        elif v.k in ("neg", "nonpos", "zero"):
            ctx.bad("R03d", f"{q}.attenuation", what, f"sign is {v.k}", key_detail="attenuation sign", loc=ctx.loc(owner.module, fn))
        else:
            ctx.unknown("R03d", f"{q}.attenuation", what, f"{v!r} notes={sorted(set(it.notes))[:3]}", loc=ctx.loc(owner.module, fn))
    # frequency enters through its magnitude
    for q in ("pyrex.ray_tracing.BasicRayTracePath", "pyrex.ray_tracing.UniformRayTracePath"):
        fn = repo.member(q, "attenuation")
        f = fn.args.args[1].arg
        loads = [n for n in ast.walk(fn) if isinstance(n, ast.Name) and n.id == f and isinstance(n.ctx, ast.Load)]
        ok = all(isinstance(parent(n), ast.Call) and u(parent(n).func) in ("np.abs", "abs") for n in loads)
        ctx.check(ok and loads, "R03d", f"{q}.attenuation", "the frequency enters only through its magnitude", str([u(parent(n)) for n in loads]), key_detail="|f|")


FRESNEL = {"r_s": "(n_1*cos_1 - n_2*cos_2) / (n_1*cos_1 + n_2*cos_2)", "r_p": "(n_2*cos_1 - n_1*cos_2) / (n_2*cos_1 + n_1*cos_2)",
           "t_s": "(2*n_1*cos_1) / (n_1*cos_1 + n_2*cos_2)", "t_p": "(2*n_1*cos_1) / (n_2*cos_1 + n_1*cos_2)",
           "sin_2": "n_1/n_2*np.sin(theta_1)"}


def r03e(ctx):
    repo = ctx.repo
    ctx.rule("R03e", "Fresnel clones: sin_2, cos_2 (both arms), r_s, r_p (and t_s, t_p) are one normal form each across the three classes; r_p is r_s "
             "with n_1<->n_2 on the cosine coefficients; coefficients multiply the matching polarization", expected=14, kind="N")
    forms = {}
    for q in OWNERS:
        fn = repo.member(q, "fresnel")
        for n in ast.walk(fn):
            if isinstance(n, (ast.Assign, ast.AugAssign)):
                tgt = n.targets[0] if isinstance(n, ast.Assign) else n.target
                if isinstance(tgt, ast.Name) and tgt.id in ("sin_2", "cos_2", "r_s", "r_p", "t_s", "t_p") and not isinstance(n.value, ast.Constant):
                    # cos_2 has two arms distinguished by the sin_2 <= 1 test
                    role = tgt.id
                    if role == "cos_2":
                        g = guards(n, stop=fn)
                        inner = g[0] if g else None
                        arm = "real" if inner and ((u(inner[0]).replace(" ", "") == "sin_2<=1") == inner[1]) else "total-reflection"
                        role = f"cos_2[{arm}]"
                    forms.setdefault(role, []).append((q, n))
    want_roles = {"sin_2", "cos_2[real]", "cos_2[total-reflection]", "r_s", "r_p"}
    if not want_roles <= set(forms):
        raise AnalysisError(f"Fresnel roles not found: {sorted(want_roles - set(forms))}")
    spec = dict(FRESNEL)
    spec["cos_2[real]"] = "np.sqrt(1 - sin_2**2)"
    spec["cos_2[total-reflection]"] = "np.sqrt(sin_2**2 - 1)*1j"
    for role, lst in sorted(forms.items()):
        want = NF().nf(parse_expr(spec[role]))
        for q, n in lst:
            fenv = {k: v for k, v in local_env(repo.member(q, "fresnel")).items() if k not in ("sin_2", "cos_2", "r_s", "r_p", "t_s", "t_p", "n_1", "n_2", "cos_1", "theta_1")}
            got = NF(fenv).nf(n.value)
            ctx.check(got.equals(want), "R03e", f"{q}.fresnel", f"{role} has the common normal form `{spec[role]}`", u(n.value), key_detail=f"{role} formula",
                      loc=ctx.loc(repo.cls(q).module, n))
    ctx.analysed["fresnel_instances"] = {k: len(v) for k, v in forms.items()}
    # the total-reflection test
    for q in OWNERS:
        fn = repo.member(q, "fresnel")
        tests = {u(n.test).replace(" ", "") for n in ast.walk(fn) if isinstance(n, ast.If) and "sin_2" in u(n.test)}
        ctx.check(tests == {"sin_2<=1"}, "R03e", f"{q}.fresnel", "real coefficients exactly when sin_2 <= 1", str(tests), key_detail="total reflection test")
    # how the coefficients are used in propagate: s with s, p with p
    for q in OWNERS:
        fn = repo.member(q, "propagate")
        env = {}
        for st in ast.walk(fn):
            if isinstance(st, ast.Assign) and isinstance(st.targets[0], ast.Name):
                env[st.targets[0].id] = st.value
        unpack = [st for st in ast.walk(fn) if isinstance(st, ast.Assign) and isinstance(st.targets[0], ast.Tuple) and u(st.value) == "self.fresnel"]
        ok = len(unpack) == 1
        if ok:
            a, b = [e.id for e in unpack[0].targets[0].elts]
            ls, lp = env.get("attenuation_s"), env.get("attenuation_p")
            ok = (isinstance(ls, ast.Lambda) and isinstance(lp, ast.Lambda) and a in names_in(ls.body) and b not in names_in(ls.body)
                  and b in names_in(lp.body) and a not in names_in(lp.body))
            fs = [x for x in ast.walk(fn) if is_call(x, name="filter_frequencies")]
            pair = {u(x.func.value): u(x.args[0]) for x in fs if x.args}
            ok = ok and pair.get("signal_s") == "attenuation_s" and pair.get("signal_p") == "attenuation_p"
            ss, sp = env.get("signal_s"), env.get("signal_p")
            ok = ok and ss is not None and sp is not None and "pol_s" in names_in(ss) and "pol_p" in names_in(sp)
        ctx.check(ok, "R03e", f"{q}.propagate", "first Fresnel coefficient filters the s signal (scaled by pol_s), second the p signal (scaled by pol_p)", "",
                  key_detail="coefficient pairing", loc=ctx.loc(repo.cls(q).module, fn))
    # fresnel returns (s, p) in this order
    for q in OWNERS:
        fn = repo.member(q, "fresnel")
        rs = [u(r.value) for r in returns(fn)]
        ok = all(r in ("(1, 1)", "(r_s, r_p)", "(f_s, f_p)") for r in rs) and rs
        ctx.check(ok, "R03e", f"{q}.fresnel", "returns (s coefficient, p coefficient)", str(rs), key_detail="return order")


def r03f(ctx):
    repo = ctx.repo
    ctx.rule("R03f", "polarization basis: u_s0 = normalize(cross(emitted, z)), u_p0 = normalize(cross(u_s0, emitted)), u_p1 = normalize(cross(u_s0, received)); "
             "pol_s/pol_p are the projections on u_s0/u_p0; (u_s0, u_p1) returned", expected=6, kind="N")
    for q in OWNERS:
        fn = repo.member(q, "propagate")
        pol = fn.args.args[2].arg
        env = {}
        for st in ast.walk(fn):
            if isinstance(st, ast.Assign) and isinstance(st.targets[0], ast.Name):
                env.setdefault(st.targets[0].id, []).append(st.value)

        def one(name):
            v = env.get(name, [])
            return u(v[0]) if len({u(x) for x in v}) == 1 else None
        ok = (one("u_s0") == "normalize(np.cross(self.emitted_direction, [0, 0, 1]))" and one("u_p0") == "normalize(np.cross(u_s0, self.emitted_direction))"
              and one("u_p1") == "normalize(np.cross(u_s0, self.received_direction))")
        ctx.check(ok, "R03f", f"{q}.propagate", "s/p unit vectors are normalized cross products with the emitted / received directions",
                  f"u_s0={one('u_s0')} u_p0={one('u_p0')} u_p1={one('u_p1')}", key_detail="basis vectors", loc=ctx.loc(repo.cls(q).module, fn))
        ok = one("pol_s") in (f"np.dot({pol}, u_s0)", f"np.dot(u_s0, {pol})", f"np.vdot({pol}, u_s0)") and one("pol_p") in (f"np.dot({pol}, u_p0)", f"np.dot(u_p0, {pol})", f"np.vdot({pol}, u_p0)")
        ctx.check(ok, "R03f", f"{q}.propagate", "amplitudes are the projections of the polarization on u_s0 and u_p0 (launch basis)", f"{one('pol_s')} / {one('pol_p')}",
                  key_detail="projections")
        rs = [u(r.value) for r in returns(fn) if r.value is not None and "u_s0" in u(r.value)]
        ok = sorted(rs) == sorted(["(u_s0, u_p1)", "((signal_s, signal_p), (u_s0, u_p1))"])
        ctx.check(ok, "R03f", f"{q}.propagate", "the returned vectors are (u_s0, u_p1): s unchanged, p at the receiving point", str(rs), key_detail="returned basis")
    nz = repo.func("pyrex.internal_functions.normalize")
    env = local_env(nz)
    arg = nz.args.args[0].arg
    want = NF().nf(parse_expr(f"{arg} / np.linalg.norm({arg})"))
    got = [NF(env).nf(r.value) for r in returns(nz) if r.value is not None]
    zero_guard = [n for n in ast.walk(nz) if isinstance(n, ast.If) and u(n.test).replace(" ", "").endswith("==0")]
    ok = any(g.equals(want) for g in got) and all(g.equals(want) or g.equals(NF(env).nf(parse_expr(arg))) for g in got) and (len(got) == 1 or zero_guard)
    ctx.check(ok, "R03f", "pyrex.internal_functions.normalize", "normalize returns the vector divided by its Euclidean norm (the zero vector unchanged)",
              str([repr(g) for g in got]), key_detail="normalize")


def r03g(ctx):
    """attenuation pre-computation grid of BasicRayTracePath.propagate: both arms (with / without polarization) build the same grid, and the
    interpolation grid is symmetric in frequency (-f, 0, +f) because np.interp clamps outside its abscissa."""
    repo = ctx.repo
    ctx.rule("R03g", "attenuation_interpolation grid: identical construction in both arms of propagate; symmetric [-flip(logf), 0, logf]; attenuation evaluated on it and "
             "interpolated on the same abscissa", expected=4, kind="N")
    q = "pyrex.ray_tracing.BasicRayTracePath"
    fn = repo.member(q, "propagate")
    blocks = [n for n in ast.walk(fn) if isinstance(n, ast.If) and u(n.test).replace(" ", "") in ("attenuation_interpolationisNone", "attenuation_interpolationisnotNone")]
    ctx.check(len(blocks) == 2, "R03g", f"{q}.propagate", "one grid decision per arm (polarized / unpolarized)", f"{len(blocks)} found", key_detail="grid decisions",
              loc=ctx.loc("pyrex.ray_tracing", fn))
    if len(blocks) != 2:
        return
    from ..core.astutil import canon
    a, b = canon([blocks[0]]), canon([blocks[1]])
    ctx.check(a == b, "R03g", f"{q}.propagate", "the frequency grid for the attenuation is built identically in both arms (clone)", "arms differ" if a != b else "", key_detail="grid clone")
    for i, blk in enumerate(blocks):
        interp_arm = blk.orelse if "isNone" in u(blk.test).replace(" ", "") and "not" not in u(blk.test) else blk.body
        st = [x for x in interp_arm if isinstance(x, ast.Assign) and u(x.targets[0]) == "freqs"]
        ok = len(st) == 1 and is_call(st[0].value, func="np.concatenate")
        if ok:
            parts = st[0].value.args[0].elts if isinstance(st[0].value.args[0], (ast.Tuple, ast.List)) else []
            ok = len(parts) == 3 and u(parts[1]) == "[0]" and isinstance(parts[2], ast.Name) and u(parts[0]) in (f"-np.flipud({parts[2].id})", f"-{parts[2].id}[::-1]", f"np.flipud(-{parts[2].id})")
        ctx.check(ok, "R03g", f"{q}.propagate", f"[arm {i + 1}] interpolation grid is symmetric: negative mirror, zero, positive log-spaced frequencies", u(st[0].value) if st else "",
                  key_detail=f"symmetric grid arm {i + 1}", loc=ctx.loc("pyrex.ray_tracing", blk))
    av = [x for x in ast.walk(fn) if isinstance(x, ast.Assign) and u(x.targets[0]) == "atten_vals"]
    ok = len(av) == 2 and all(u(x.value) == "self.attenuation(freqs)" for x in av)
    lams = [x for x in ast.walk(fn) if isinstance(x, ast.Lambda) and any(is_call(c, func="np.interp") for c in ast.walk(x.body))]
    ok2 = len(lams) == 3
    for lm in lams:
        c = [c for c in ast.walk(lm.body) if is_call(c, func="np.interp")][0]
        ok2 = ok2 and [u(x) for x in c.args] == [lm.args.args[0].arg, "freqs", "atten_vals"]
    ctx.check(ok and ok2, "R03g", f"{q}.propagate", "the attenuation is evaluated on that grid and interpolated at the filter's frequencies on the same abscissa", "", key_detail="interpolation operands")


def r03h(ctx):
    """propagate() works on `signal.copy()` and filters / shifts that copy: `passive` (the input signal is left as it was) and `each frequency
    component multiplied by the attenuation` once need the copy of a function-backed signal to share no component list with the input
    (the attenuation filter is appended to the inner lists of `_filters` in place).  Decided by C04's R04c; reported here as well."""
    from . import c04
    from ._cross import relay
    relay(ctx, "R03h", "the copy that propagate() filters shares no component list with the incoming signal (= R04c)", "C04", c04.r04c, "R04c", kind="N")


def run(ctx):
    ctx.guard(r03h)
    ctx.guard(r03g)
    ctx.guard(r03a)
    ctx.guard(r03b)
    ctx.guard(r03c)
    ctx.guard(r03d)
    ctx.guard(r03e)
    ctx.guard(r03f)


SELFTEST = {
    "faults": [
        {"name": "interpolation grid for non-negative frequencies only (unpolarized arm)", "file": "pyrex/ray_tracing.py",
         "old": "                    freqs = np.concatenate((-np.flipud(logf), [0], logf))", "new": "                    freqs = np.concatenate(([0], logf))", "occurrence": 1, "rule": "R03g"},
        {"name": "r_p with the r_s denominator hoisted", "file": "pyrex/ray_tracing.py",
         "old": "            r_s = (n_1*cos_1 - n_2*cos_2) / (n_1*cos_1 + n_2*cos_2)\n            r_p = (n_2*cos_1 - n_1*cos_2) / (n_2*cos_1 + n_1*cos_2)\n            return r_s, r_p",
         "new": "            denom = n_1*cos_1 + n_2*cos_2\n            r_s = (n_1*cos_1 - n_2*cos_2) / denom\n            r_p = (n_2*cos_1 - n_1*cos_2) / denom\n            return r_s, r_p", "rule": "R03e"},
        {"name": "p signal not delayed (basic)", "file": "pyrex/ray_tracing.py", "old": "                signal_p.shift(self.tof)\n", "new": "", "occurrence": 1, "rule": "R03b",
         "construct": "BasicRayTracePath"},
        {"name": "exp(+|...|) attenuation", "file": "pyrex/ray_tracing.py", "old": "        return np.exp(-np.abs(self.z_integral(integrand)))", "new": "        return np.exp(np.abs(self.z_integral(integrand)))",
         "rule": "R03d"},
        {"name": "n_1<->n_2 swapped in one r_p", "file": "pyrex/ray_tracing.py", "old": "            r_p *= (n_2*cos_1 - n_1*cos_2) / (n_2*cos_1 + n_1*cos_2)",
         "new": "            r_p *= (n_1*cos_1 - n_2*cos_2) / (n_2*cos_1 + n_1*cos_2)", "rule": "R03e"},
        {"name": "u_p1 from the emitted direction", "file": "pyrex/ray_tracing.py", "old": "            u_p1 = normalize(np.cross(u_s0, self.received_direction))",
         "new": "            u_p1 = normalize(np.cross(u_s0, self.emitted_direction))", "occurrence": 1, "rule": "R03f"},
        {"name": "input signal shifted in place", "file": "pyrex/ray_tracing.py", "old": "                new_signal = signal.copy()\n                new_signal.shift(self.tof)\n                # Pre-calculate",
         "new": "                signal.shift(self.tof)\n                new_signal = signal.copy()\n                # Pre-calculate", "rule": ["R03c", "R03b"]},
        {"name": "coefficients crossed", "file": "pyrex/ray_tracing.py", "old": "                attenuation_s = lambda f: np.interp(f, freqs, atten_vals) * r_s\n                attenuation_p = lambda f: np.interp(f, freqs, atten_vals) * r_p",
         "new": "                attenuation_s = lambda f: np.interp(f, freqs, atten_vals) * r_p\n                attenuation_p = lambda f: np.interp(f, freqs, atten_vals) * r_s", "rule": "R03e"},
        {"name": "force_real dropped on the p signal (uniform)", "file": "pyrex/ray_tracing.py", "old": "                signal_p.filter_frequencies(attenuation_p, force_real=True)",
         "new": "                signal_p.filter_frequencies(attenuation_p)", "occurrence": 2, "rule": "R03b"},
        {"name": "signal squared", "file": "pyrex/ray_tracing.py", "old": "                signal_s = signal * pol_s\n", "new": "                signal_s = signal * pol_s * pol_s\n", "occurrence": 1,
         "rule": "R03a"},
        {"name": "layered attenuation starts from twos", "file": "pyrex/custom/layered_ice/ray_tracing.py", "old": "            attens = np.ones(f.shape)", "new": "            attens = np.ones(f.shape)*2",
         "rule": "R03d"},
        {"name": "total reflection test flipped", "file": "pyrex/custom/layered_ice/ray_tracing.py", "old": "                if sin_2<=1:\n                    cos_2 = np.sqrt(1 - (sin_2)**2)",
         "new": "                if sin_2>=1:\n                    cos_2 = np.sqrt(1 - (sin_2)**2)", "occurrence": 1, "rule": "R03e"},
    ],
    "benign": [
        {"name": "common r_s denominator hoisted (correctly)", "file": "pyrex/ray_tracing.py",
         "old": "            r_s = (n_1*cos_1 - n_2*cos_2) / (n_1*cos_1 + n_2*cos_2)\n            r_p = (n_2*cos_1 - n_1*cos_2) / (n_2*cos_1 + n_1*cos_2)\n            return r_s, r_p",
         "new": "            denom = n_1*cos_1 + n_2*cos_2\n            r_s = (n_1*cos_1 - n_2*cos_2) / denom\n            r_p = (n_2*cos_1 - n_1*cos_2) / (n_2*cos_1 + n_1*cos_2)\n            return r_s, r_p"},
        {"name": "shift after filter", "file": "pyrex/ray_tracing.py",
         "old": "                signal_s.shift(self.tof)\n                signal_p.shift(self.tof)\n                signal_s.filter_frequencies(attenuation_s, force_real=True)\n                signal_p.filter_frequencies(attenuation_p, force_real=True)",
         "new": "                signal_s.filter_frequencies(attenuation_s, force_real=True)\n                signal_p.filter_frequencies(attenuation_p, force_real=True)\n                signal_s.shift(self.tof)\n                signal_p.shift(self.tof)",
         "occurrence": 1},
        {"name": "x*x for x**2 in cos_2", "file": "pyrex/ray_tracing.py", "old": "                cos_2 = np.sqrt(1 - (sin_2)**2)", "new": "                cos_2 = np.sqrt(1 - sin_2*sin_2)", "occurrence": 1},
    ],
}
