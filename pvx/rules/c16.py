"""C16 -- ice models are self-consistent: index, inverse, gradient, ranges and attenuation."""
import ast

from ..core.source import AnalysisError, parent
from ..core.ai import Interp, Obj, Fn, Tup
from ..core.domains.sign import Sign, V
from ..core.astutil import strip_doc, stmts_in_order, calls, is_call, kwargs_of, guards, u, returns, names_in, parse_expr
from ..core.exprnf import NF, local_env
from ..core.calculus import ddx, NotDifferentiable

META = {
    "explanation": "R16k (pointed) scalar and array arms of depth_with_index clamp to the same edges of valid_range.  R16a scalar/array twins: the decision list of the scalar arm (guard -> value) of AntarcticIce.index, UniformIce.index and "
                   "AntarcticIce.depth_with_index equals the 'formula then masked assignments' of the array arm (same comparators, bounds, values, "
                   "base formula) -- sufficient for scalar = array agreement at every depth incl. exactly on the bounds.  R16b contains() is the closed "
                   "interval and index() uses the strict complements with the declared outside indices.  R16c the syntactic derivative d/dz of the "
                   "in-range index formula equals gradient(z)[2]; components 0,1 are 0.  R16d index(depth_with_index(n)) normalises to n (with "
                   "exp(log x) = x) and the clamps return the range edges.  R16e the attenuation arms (3 + 3 + 2) use one formula and one f<1e9 / "
                   "f>=1e9 split after stripping broadcasting decorations.  R16f UniformIce shares AntarcticIce's attenuation implementation.  R16g "
                   "sign domain: attenuation lengths are positive (Antarctic/Uniform exp(.), Greenland via the clamp to a positive minimum).  R16h "
                   "layered ice: sorted layers, contiguous boundaries, half-open lookup with the bottom edge included.",
    "not_decided": ["monotonicity of the index as numbers", "'numerically distinguishable from the asymptote'", "finiteness", "ArasimIce positivity (extrapolating interp1d)"],
    "trusted_base": ["CPython ast", "PolyNF identities incl. exp(log x) = x", "sign-domain summary table"],
    "assumptions": ["k, a > 0 is not needed for the structural clauses"],
}

ANT = "pyrex.ice_model.AntarcticIce"
UNI = "pyrex.ice_model.UniformIce"
ARA = "pyrex.ice_model.ArasimIce"
GRN = "pyrex.ice_model.GreenlandIce"
LAY = "pyrex.custom.layered_ice.ice_model.LayeredIce"


class _Norm(ast.NodeTransformer):
    def visit_Call(self, n):
        self.generic_visit(n)
        if ast.unparse(n.func) in ("np.asarray", "np.array") and len(n.args) == 1 and not n.keywords:
            return n.args[0]
        return n


def ntext(node):
    fresh = ast.parse(ast.unparse(node), mode="eval").body
    return ast.unparse(_Norm().visit(fresh))


def scalar_list(handler_body):
    out = []
    st = handler_body
    while True:
        st = [s for s in st if not (isinstance(s, ast.Expr) and isinstance(s.value, ast.Constant))]
        if len(st) == 1 and isinstance(st[0], ast.If):
            i = st[0]
            if not (len(i.body) == 1 and isinstance(i.body[0], ast.Return)):
                return None
            out.append((ntext(i.test), ntext(i.body[0].value)))
            st = i.orelse
        elif len(st) == 1 and isinstance(st[0], ast.Return):
            out.append((None, ntext(st[0].value)))
            return out
        else:
            return None


def array_list(stmts, try_node, arg):
    name = formula = None
    masks = []
    for st in try_node.body:
        if isinstance(st, ast.Assign) and isinstance(st.targets[0], ast.Name):
            name, formula = st.targets[0].id, st.value
    ret = None
    for st in stmts:
        if isinstance(st, ast.Assign) and isinstance(st.targets[0], ast.Name):
            name, formula = st.targets[0].id, st.value
        elif (isinstance(st, ast.Assign) and isinstance(st.targets[0], ast.Subscript) and isinstance(st.targets[0].value, ast.Name)
              and st.targets[0].value.id == name):
            masks.append((ntext(st.targets[0].slice), ntext(st.value)))
        elif isinstance(st, ast.Return):
            ret = st
    if ret is None or not (isinstance(ret.value, ast.Name) and ret.value.id == name) or formula is None:
        return None
    f = ntext(formula)
    # array-construction decoration:  np.ones(len(z)) * X  ->  X
    for deco in (f"np.ones(len({arg})) * ", f"np.ones_like({arg}) * "):
        f = f.replace(deco, "")
    return masks + [(None, f)]


def r16a(ctx):
    repo = ctx.repo
    ctx.rule("R16a", "scalar arm decision list == array arm masked assignments (guards, values, base formula)", expected=3, kind="S")
    for q, m in ((ANT, "index"), (UNI, "index"), (ANT, "depth_with_index")):
        fn = repo.member(q, m)
        arg = fn.args.args[1].arg
        body = strip_doc(fn)
        construct = f"{q}.{m}"
        if not (body and isinstance(body[0], ast.Try) and body[0].handlers and "TypeError" in u(body[0].handlers[0].type)):
            ctx.unknown("R16a", construct, "function has the try(len)/except TypeError scalar-array idiom", "")
            continue
        sc = scalar_list(body[0].handlers[0].body)
        ar = array_list(body[1:], body[0], arg)
        if sc is None or ar is None:
            ctx.unknown("R16a", construct, "both arms are pure decision lists", f"scalar={sc} array={ar}")
            continue
        ok = sc == ar
        diff = [(a, b) for a, b in zip(sc, ar) if a != b] if len(sc) == len(ar) else f"{len(sc)} scalar arms vs {len(ar)} array arms"
        ctx.check(ok, "R16a", construct, "scalar and array evaluation take the same decisions (comparators, bounds, values) and use the same formula",
                  f"differences: {diff}", key_detail="scalar/array twins differ", loc=ctx.loc(repo.cls(q).module, fn))
        # masks must not overlap with later ones in a way that changes precedence: the guards are mutually exclusive (< lo, > hi)
        guards_ = [g for g, _ in sc if g is not None]
        ctx.analysed.setdefault("twin_guards", {})[construct] = guards_


def r16b(ctx):
    repo = ctx.repo
    ctx.rule("R16b", "contains is the closed interval [lo, hi]; index uses z < lo -> index_below, z > hi -> index_above; index_above/below default to the boundary / n",
             expected=6, kind="N")
    for q in (ANT, UNI):
        fn = repo.member(q, "contains")
        r = returns(fn)
        p = fn.args.args[1].arg
        ok = len(r) == 1 and u(r[0].value) == f"self.valid_range[0] <= {p}[2] <= self.valid_range[1]"
        ctx.check(ok, "R16b", f"{q}.contains", "a point is inside iff valid_range[0] <= z <= valid_range[1] (both ends included)", u(r[0].value) if r else "", key_detail="closed interval",
                  loc=ctx.loc("pyrex.ice_model", fn))
        fn = repo.member(q, "index")
        body = strip_doc(fn)
        sc = scalar_list(body[0].handlers[0].body) if body and isinstance(body[0], ast.Try) else None
        z = fn.args.args[1].arg
        want = [(f"{z} < self.valid_range[0]", "self.index_below"), (f"{z} > self.valid_range[1]", "self.index_above")]
        ctx.check(sc is not None and sc[:2] == want, "R16b", f"{q}.index", "strictly below the range -> index_below, strictly above -> index_above, otherwise the profile",
                  str(sc[:2] if sc else sc), key_detail="outside indices")
        init = repo.member(q, "__init__")
        ok = "self.valid_range = tuple(sorted(valid_range))" in [u(s) for s in strip_doc(init)]
        ctx.check(ok, "R16b", f"{q}.__init__", "the range is stored sorted (lower bound first)", "", key_detail="sorted range")
    for q, (da, db) in ((ANT, ("self.index(self.valid_range[1])", "self.index(self.valid_range[0])")), (UNI, ("self.n", "self.n"))):
        for m, dflt, priv in (("index_above", da, "_index_above"), ("index_below", db, "_index_below")):
            fn = repo.member(q, m)
            txt = [u(s) for s in strip_doc(fn)]
            ok = txt == [f"if self.{priv} is None:\n    return {dflt}\nelse:\n    return self.{priv}"]
            ctx.check(ok, "R16b", f"{q}.{m}", f"{m} is the declared value, defaulting to {dflt}", str(txt), key_detail=f"{m} default")


def inrange_formula(fn):
    body = strip_doc(fn)
    sc = scalar_list(body[0].handlers[0].body) if body and isinstance(body[0], ast.Try) else None
    if sc is None:
        return None
    return parse_expr(sc[-1][1])


def r16c(ctx):
    repo = ctx.repo
    ctx.rule("R16c", "gradient(z) == (0, 0, d/dz of the in-range index formula)", expected=2, kind="S")
    for q in (ANT, UNI):
        fn = repo.member(q, "index")
        z = fn.args.args[1].arg
        f = inrange_formula(fn)
        g = repo.member(q, "gradient")
        r = returns(g)
        gz = g.args.args[1].arg
        comps = None
        if len(r) == 1:
            v = r[0].value
            if is_call(v, func="np.array") and isinstance(v.args[0], (ast.List, ast.Tuple)) and len(v.args[0].elts) == 3:
                comps = v.args[0].elts
        if f is None or comps is None:
            ctx.unknown("R16c", f"{q}.gradient", "gradient returns a 3-vector literal and the index formula is recognisable", "")
            continue
        try:
            d = ddx(f, z)
        except NotDifferentiable as e:
            ctx.unknown("R16c", f"{q}.gradient", "index formula is differentiable by the syntactic rules", str(e))
            continue
        dnf = NF().nf(d)
        got = NF({gz: ast.Name(id=z, ctx=ast.Load())} if gz != z else {}).nf(comps[2])
        ctx.check(dnf.equals(got), "R16c", f"{q}.gradient", "vertical component equals the depth derivative of the index profile", f"d/dz index = {dnf!r}; gradient[2] = {got!r}",
                  key_detail="gradient z", loc=ctx.loc("pyrex.ice_model", g))
        ctx.check(all(NF().nf(c).num.is_zero() for c in comps[:2]), "R16c", f"{q}.gradient", "horizontal components are zero (stratified medium)", str([u(c) for c in comps[:2]]),
                  key_detail="gradient xy")


def r16d(ctx):
    repo = ctx.repo
    ctx.rule("R16d", "index(depth_with_index(n)) == n in normal form; clamps compare n with the indices at the range edges and return that edge", expected=3, kind="S")
    idx = repo.member(ANT, "index")
    z = idx.args.args[1].arg
    f = inrange_formula(idx)
    dw = repo.member(ANT, "depth_with_index")
    n = dw.args.args[1].arg
    body = strip_doc(dw)
    sc = scalar_list(body[0].handlers[0].body) if body and isinstance(body[0], ast.Try) else None
    if f is None or sc is None:
        ctx.unknown("R16d", f"{ANT}.depth_with_index", "index and inverse formulas are recognisable", "")
        return
    inv = parse_expr(sc[-1][1])
    comp = NF({z: inv}).nf(f)
    ctx.check(comp.equals(NF().nf(parse_expr(n))), "R16d", f"{ANT}.depth_with_index", "the in-range inverse composed with the index profile is the identity (exact arithmetic)",
              f"index(inverse({n})) = {comp!r}", key_detail="inverse composition", loc=ctx.loc("pyrex.ice_model", dw))
    want = [(f"{n} < self.index(self.valid_range[1])", "self.valid_range[1]"), (f"{n} > self.index(self.valid_range[0])", "self.valid_range[0]")]
    ctx.check(sc[:2] == want, "R16d", f"{ANT}.depth_with_index", "an index below the surface value clamps to the upper edge, above the bottom value to the lower edge",
              str(sc[:2]), key_detail="inverse clamps")
    ud = repo.member(UNI, "depth_with_index")
    ctx.check(any(isinstance(s, ast.Raise) and "NotImplementedError" in u(s) for s in strip_doc(ud)), "R16d", f"{UNI}.depth_with_index",
              "uniform ice refuses the (ill-defined) inverse", "", key_detail="uniform inverse")


def strip_broadcast(src):
    """Remove broadcasting decorations so that the three shape arms can be compared."""
    import re
    s = src
    s = re.sub(r"np\.broadcast_to\((\w+)\[:, np\.newaxis\], \(len\(\w+\), len\(\w+\)\)\)", r"\1", s)
    s = re.sub(r"np\.broadcast_to\((\w+), len\(\w+\)\)", r"\1", s)
    s = re.sub(r"np\.full\(len\(\w+\), (\w+)\)", r"\1", s)
    s = s.replace("[:, np.newaxis]", "")
    s = re.sub(r"np\.zeros\(\(len\(\w+\), len\(\w+\)\)\)", "0", s)
    s = re.sub(r"np\.zeros\(len\(\w+\)\)", "0", s)
    return s


def shape_arms(fn, names):
    """if/elif/else chain on isinstance(.., np.ndarray) -> list of (test, {name: [normalised stores]})"""
    chain = [n for n in strip_doc(fn) if isinstance(n, ast.If) and "isinstance(" in u(n.test) and "np.ndarray" in u(n.test)]
    if not chain:
        return None
    cur = chain[0]
    arms = []
    while True:
        arms.append((u(cur.test), cur.body))
        if len(cur.orelse) == 1 and isinstance(cur.orelse[0], ast.If):
            cur = cur.orelse[0]
        else:
            if cur.orelse:
                arms.append((None, cur.orelse))
            break
    out = []
    for t, body in arms:
        d = {}
        for st in body:
            if isinstance(st, ast.Assign) and isinstance(st.targets[0], ast.Name) and st.targets[0].id in names:
                d.setdefault(st.targets[0].id, []).append(("=", None, strip_broadcast(u(st.value))))
            elif isinstance(st, ast.AugAssign) and isinstance(st.target, ast.Subscript) and u(st.target.value) in names:
                sl = st.target.slice
                mask = sl.elts[-1] if isinstance(sl, ast.Tuple) else sl
                d.setdefault(u(st.target.value), []).append((type(st.op).__name__, u(mask), strip_broadcast(u(st.value))))
            elif isinstance(st, ast.Return):
                d.setdefault("return", []).append(("=", None, strip_broadcast(u(st.value))))
        out.append((t, d))
    return out


def r16e(ctx):
    repo = ctx.repo
    ctx.rule("R16e", "attenuation shape arms: same formula and same f<1e9 / f>=1e9 split in every arm after stripping broadcasting; 2-D arm is rows=depth, columns=frequency",
             expected=3, kind="S")
    fn = repo.member(ANT, "_atten_coeffs")
    arms = shape_arms(fn, {"a", "b"})
    c = f"{ANT}._atten_coeffs"
    if arms is None or len(arms) < 3:
        ctx.unknown("R16e", c, "three shape arms found", str(arms)[:100])
    else:
        # canonical content of each arm: a = b1 ; b = (b0-b1)/w0 where f < 1e9 ; (b2-b1)/w2 where f >= 1e9
        def canon_arm(t, d, tail=None):
            a = [x[2] for x in d.get("a", [])]
            b = d.get("b", [])
            split = {}
            for op, mask, val in b:
                if mask is not None:
                    split[mask.replace(" ", "")] = NF().nf(parse_expr(val))
            return a, split
        ref = None
        detail = []
        ok = True
        for t, d in arms[:2]:
            a, split = canon_arm(t, d)
            detail.append((t, a, sorted(split)))
            ok = ok and a == ["b1"] and set(split) == {"f<1000000000.0", "f>=1000000000.0"} \
                and split["f<1000000000.0"].equals(NF().nf(parse_expr("(b0-b1)/w0"))) and split["f>=1000000000.0"].equals(NF().nf(parse_expr("(b2-b1)/w2")))
        # scalar arms: elif f < 1e9: a=b1; b=(b0-b1)/w0   else: a=b1; b=(b2-b1)/w2
        t3, d3 = arms[2]
        ok = ok and (t3 or "").replace(" ", "") == "f<1000000000.0" and [x[2] for x in d3.get("a", [])] == ["b1"] \
            and len(d3.get("b", [])) == 1 and NF().nf(parse_expr(d3["b"][0][2])).equals(NF().nf(parse_expr("(b0-b1)/w0")))
        if len(arms) > 3:
            t4, d4 = arms[3]
            ok = ok and t4 is None and [x[2] for x in d4.get("a", [])] == ["b1"] and NF().nf(parse_expr(d4["b"][0][2])).equals(NF().nf(parse_expr("(b2-b1)/w2")))
        else:
            ok = False
        ctx.check(ok, "R16e", c, "matrix, frequency-array and scalar arms compute a = b1 and b = (b0-b1)/w0 below 1 GHz, (b2-b1)/w2 from 1 GHz on",
                  str(detail)[:200], key_detail="coefficient arms", loc=ctx.loc("pyrex.ice_model", fn))
        tests = [t for t, _ in arms]
        ok = tests[0] == "isinstance(t, np.ndarray) and isinstance(f, np.ndarray)" and tests[1] == "isinstance(f, np.ndarray)"
        src = u(fn)
        ok = ok and "b[:, f < 1000000000.0]" in src and "np.zeros((len(t), len(f)))" in src and "b1[:, np.newaxis]" in src
        ctx.check(ok, "R16e", c, "the matrix arm is rows = depth (temperature), columns = frequency", str(tests[:2]), key_detail="matrix orientation")
    fn = repo.member(ARA, "attenuation_length")
    arms = shape_arms(fn, {"lengths"})
    ok = arms is not None and len(arms) == 3 and all(d.get("return", [("", None, "")])[0][2] == "lengths" for _, d in arms) \
        and arms[0][0] == "isinstance(z, np.ndarray) and isinstance(f, np.ndarray)" and arms[1][0] == "isinstance(f, np.ndarray)"
    src = u(fn)
    ok = ok and "np.broadcast_to(lengths[:, np.newaxis], (len(z), len(f)))" in src and "lengths = interp(-z)" in src
    ctx.check(ok, "R16e", f"{ARA}.attenuation_length", "all three shape arms return the same depth-interpolated lengths, broadcast over frequency (rows = depth)", "",
              key_detail="arasim arms", loc=ctx.loc("pyrex.ice_model", fn))
    fn = repo.member(GRN, "attenuation_length")
    arms = shape_arms(fn, {"alen"})
    ok = arms is not None and len(arms) >= 2
    if ok:
        f1 = [x[2] for x in arms[0][1].get("alen", []) if x[1] is None]
        f2 = [x[2] for x in arms[1][1].get("alen", []) if x[1] is None]
        ok = len(f1) == 1 and len(f2) == 1 and NF().nf(parse_expr(f1[0])).equals(NF().nf(parse_expr(f2[0]))) \
            and NF().nf(parse_expr(f1[0])).equals(NF().nf(parse_expr("-5.5e-07 * (f - 75000000.0) + alen_75")))
    ctx.check(ok, "R16e", f"{GRN}.attenuation_length", "matrix and scalar/row arms use the one formula -0.55e-6 (f - 75 MHz) + alen_75(z)", "", key_detail="greenland arms",
              loc=ctx.loc("pyrex.ice_model", fn))


def r16f(ctx):
    repo = ctx.repo
    ctx.rule("R16f", "UniformIce.temperature/_atten_coeffs/attenuation_length are AntarcticIce's implementations", expected=3, kind="N")
    ci = repo.cls(UNI)
    want = {"temperature": "staticmethod(AntarcticIce.temperature)", "_atten_coeffs": "staticmethod(AntarcticIce._atten_coeffs)",
            "attenuation_length": "AntarcticIce.attenuation_length"}
    for k, v in want.items():
        got = ci.class_attrs.get(k)
        ctx.check(got is not None and u(got) == v and k not in ci.methods, "R16f", f"{UNI}.{k}", f"is {v}", u(got) if got is not None else "defined separately",
                  key_detail="shared implementation")


def r16g(ctx):
    repo = ctx.repo
    ctx.rule("R16g", "attenuation lengths are positive: exp(.) for Antarctic/Uniform; Greenland clamped from below by a positive literal", expected=3, kind="S")
    dom = Sign()
    it = Interp(repo, dom, depth=10)
    for q in (ANT, UNI):
        ci = repo.cls(q)
        out = it.call_fn(it.getattr_obj(Obj(ci, {}), "attenuation_length", 0), [V("any"), V("any")], {}, 0)
        v = it.flat(out)
        what = "attenuation length is positive for every depth and frequency"
        if v.k in ("pos", "unit"):
            ctx.ok("R16g", f"{q}.attenuation_length", what, v.k)
        elif v.k in ("neg", "nonpos", "zero", "nonneg"):
            ctx.bad("R16g", f"{q}.attenuation_length", what, f"sign is {v.k}", key_detail="attenuation length sign")
        else:
            ctx.unknown("R16g", f"{q}.attenuation_length", what, repr(v))
    # Greenland: clamp refinement (pattern): after the formula, both `alen[alen < m] = m` (array) and `elif alen < m: alen = m` (scalar) with m a positive literal
    fn = repo.member(GRN, "attenuation_length")
    env = {}
    for st in strip_doc(fn):
        if isinstance(st, ast.Assign) and isinstance(st.targets[0], ast.Name):
            env[st.targets[0].id] = st.value
    m = env.get("min_alen")
    pos = m is not None and isinstance(m, ast.Constant) and isinstance(m.value, (int, float)) and m.value > 0
    last = [s for s in strip_doc(fn) if isinstance(s, ast.If) and "isinstance(alen, np.ndarray)" == u(s.test)]
    ok = pos and len(last) == 1
    if ok:
        i = last[0]
        ok = [u(s) for s in i.body] == ["alen[alen < min_alen] = min_alen"] and len(i.orelse) == 1 and isinstance(i.orelse[0], ast.If) \
            and u(i.orelse[0].test) == "alen < min_alen" and [u(s) for s in i.orelse[0].body] == ["alen = min_alen"] and not i.orelse[0].orelse
        body = strip_doc(fn)
        ok = ok and body.index(i) == len(body) - 2 and isinstance(body[-1], ast.Return) and u(body[-1].value) == "alen"
    ctx.check(ok, "R16g", f"{GRN}.attenuation_length", "the returned length is clamped from below by the positive constant min_alen on both the array and the scalar path",
              f"min_alen={u(m) if m is not None else None}", key_detail="greenland clamp", loc=ctx.loc("pyrex.ice_model", fn))
    ctx.not_decided.append("ArasimIce.attenuation_length positivity: extrapolating interp1d (undecided as stated)")


def r16h(ctx):
    repo = ctx.repo
    ctx.rule("R16h", "LayeredIce: layers sorted top-down; boundaries contiguous; layer_at_depth uses lo < depth <= hi with the lowest bound included; "
             "index falls back to index_above/below only outside", expected=5, kind="N")
    if LAY not in repo.classes:
        raise AnalysisError("LayeredIce not found")
    ci = repo.cls(LAY)
    init = repo.member(LAY, "__init__")
    st = [s_ for s_ in strip_doc(init) if isinstance(s_, ast.Assign) and u(s_.targets[0]) == "self.layers"]
    ok = False
    detail = u(st[0].value) if st else ""
    if len(st) == 1:
        srt = [c for c in ast.walk(st[0].value) if is_call(c, func="sorted")]
        if len(srt) == 1 and srt[0].args and u(srt[0].args[0]) == init.args.args[1].arg:
            kw = kwargs_of(srt[0])
            key = kw.get("key")
            rev = kw.get("reverse")
            if isinstance(key, ast.Lambda):
                a = key.args.args[0].arg
                kb = u(key.body).replace(" ", "")
                desc = kb in (f"-{a}.valid_range[0]", f"-{a}.valid_range[1]") and rev is None
                desc = desc or (kb in (f"{a}.valid_range[0]", f"{a}.valid_range[1]", f"{a}.valid_range") and rev is not None and u(rev) == "True")
                ok = desc
    ctx.check(ok, "R16h", f"{LAY}.__init__", "layers are stored sorted by depth, shallowest first", detail, key_detail="sorted layers", loc=ctx.loc(ci.module, init))
    b = repo.lookup(LAY, "boundaries")[2]
    body = [u(x) for x in strip_doc(b)]
    want = ["strata = [self.layers[0].valid_range[1], self.layers[0].valid_range[0]]",
            "for layer in self.layers[1:]:\n    if layer.valid_range[1] != strata[-1]:\n        raise ValueError('Adjacent layers do not connect properly')\n    strata.append(layer.valid_range[0])",
            "return strata"]
    from ..core.astutil import canon, canon_src
    ok = canon(strip_doc(b)) == canon_src("\n".join(want))
    ctx.check(ok, "R16h", f"{LAY}.boundaries", "each further layer's upper edge must equal the previous lower edge (else ValueError); strata are collected top-down", "",
              key_detail="contiguity")
    la = repo.member(LAY, "layer_at_depth")
    inner = [n for n in ast.walk(la) if isinstance(n, ast.For) and u(n.iter) == "self.layers"]
    ok = len(inner) == 1
    if ok:
        lp = inner[0]
        lv = lp.target.id
        outer = parent(lp)
        dv = outer.target.id if isinstance(outer, ast.For) else None
        tests = [n for n in lp.body if isinstance(n, ast.If)]
        ok = dv is not None and len(tests) == 1 and u(tests[0].test) == f"{lv}.valid_range[0] < {dv} <= {lv}.valid_range[1]" \
            and isinstance(tests[0].body[-1], ast.Break) and len(tests[0].body) == 2 and u(tests[0].body[0]) == f"layers.append({lv})"
        ctx.check(ok, "R16h", f"{LAY}.layer_at_depth", "a depth belongs to the first layer with lower < depth <= upper; the search stops there", u(tests[0].test) if tests else "",
                  key_detail="half-open lookup", loc=ctx.loc(ci.module, la))
        els = lp.orelse
        ok = len(els) == 1 and isinstance(els[0], ast.If) and u(els[0].test) in (f"{lv}.valid_range[0] == {dv}", f"{dv} == {lv}.valid_range[0]") \
            and [u(x) for x in els[0].body] == [f"layers.append({lv})"] and any(isinstance(x, ast.Raise) and "ValueError" in u(x) for x in els[0].orelse)
        ctx.check(ok, "R16h", f"{LAY}.layer_at_depth", "only the bottom edge of the deepest layer is additionally included; any other depth raises ValueError", "",
                  key_detail="bottom edge")
    else:
        ctx.unknown("R16h", f"{LAY}.layer_at_depth", "search loop over self.layers found", "")
    idx = repo.member(LAY, "index")
    tr = [n for n in ast.walk(idx) if isinstance(n, ast.Try)]
    ok = len(tr) == 1
    if ok:
        t = tr[0]
        dv = parent(t).target.id if isinstance(parent(t), ast.For) else "depth"
        ok = [u(x) for x in t.body] == [f"n = self.layer_at_depth({dv}).index({dv})"] and len(t.handlers) == 1 and "ValueError" in u(t.handlers[0].type)
        h = t.handlers[0].body
        ok = ok and len(h) == 1 and isinstance(h[0], ast.If)
        if ok:
            i0 = h[0]
            ok = u(i0.test) == f"{dv} > self.layers[0].valid_range[1]" and [u(x) for x in i0.body] == ["n = self.index_above"] and len(i0.orelse) == 1 \
                and isinstance(i0.orelse[0], ast.If) and u(i0.orelse[0].test) in (f"{dv} <= self.layers[-1].valid_range[0]", f"{dv} < self.layers[-1].valid_range[0]") \
                and [u(x) for x in i0.orelse[0].body] == ["n = self.index_below"] and any(isinstance(x, ast.Raise) for x in i0.orelse[0].orelse)
    ctx.check(ok, "R16h", f"{LAY}.index", "every depth is dispatched to its layer's index; above the stack -> index_above, below -> index_below, gaps raise", "",
              key_detail="layered index", loc=ctx.loc(ci.module, idx))
    # the per-depth dispatch is the only way to a result: scalar and array depths take the same route (layer_at_depth's half-open lookup)
    rets = [u(r_.value) for r_ in returns(idx)]
    layer_calls = [c_ for c_ in ast.walk(idx) if isinstance(c_, ast.Call) and isinstance(c_.func, ast.Attribute) and c_.func.attr == "index"
                   and not (isinstance(c_.func.value, ast.Name) and c_.func.value.id == "self")]
    in_try = [c_ for t_ in tr for b_ in t_.body for c_ in ast.walk(b_) if c_ in layer_calls]
    ok = sorted(rets) == sorted(["indices[0]", "np.asarray(indices)"]) and len(layer_calls) == len(in_try) == 1
    ctx.check(ok, "R16h", f"{LAY}.index", "results only come from the per-depth loop (no second route, e.g. a whole-array fast path with its own containment test)",
              f"returns={rets}; layer index calls={len(layer_calls)} (inside the dispatch: {len(in_try)})", key_detail="single dispatch route")
    ct = repo.member(LAY, "contains")
    ok = canon(strip_doc(ct)) == canon_src("for layer in self.layers:\n    if layer.contains(point):\n        return True\nreturn False", keep=("point",)) or \
        canon(strip_doc(ct)) == canon_src("for layer in self.layers:\n    if layer.contains(point):\n        return True\nreturn False")
    ctx.check(ok, "R16h", f"{LAY}.contains", "a point is inside iff some layer contains it", "", key_detail="layered contains")


def r16i(ctx):
    repo = ctx.repo
    ctx.rule("R16i", "attenuation_length / _atten_coeffs decide the shape of their result from the arguments as given: no parameter is replaced (e.g. a one-element "
             "frequency array turned into a scalar) before the isinstance dispatch", expected=3, kind="N")
    for q in (ANT, ARA, GRN):
        for m in ("attenuation_length", "_atten_coeffs"):
            owner, kind, fn = repo.lookup(q, m)
            if fn is None or owner.qual != q:
                continue
            params = [a.arg for a in fn.args.args[1:]]
            disp = [n for n in ast.walk(fn) if isinstance(n, ast.If) and "isinstance(" in u(n.test)]
            first = min((n.lineno for n in disp), default=None)
            rebinds = [n for n in ast.walk(fn) if isinstance(n, (ast.Assign, ast.AugAssign)) and any(isinstance(m_, ast.Name) and m_.id in params and isinstance(m_.ctx, ast.Store)
                                                                                                    for t_ in (n.targets if isinstance(n, ast.Assign) else [n.target]) for m_ in ast.walk(t_))
                       and (first is None or n.lineno <= first or any(n in list(ast.walk(d_)) for d_ in disp))]
            bad = [n for n in rebinds if not (isinstance(n, ast.Assign) and is_call(n.value) and u(n.value.func) in ("np.array", "np.asarray", "np.atleast_1d") and u(n.value.args[0]) in params)]
            ctx.check(not bad, "R16i", f"{q}.{m}", "parameters reach the shape dispatch unchanged", "; ".join(u(x)[:90] for x in bad), key_detail="parameter replaced",
                      loc=ctx.loc(owner.module, fn))

def r16k(ctx):
    """Pointed (contradiction between sibling arms): the scalar arm and the array arm of depth_with_index clamp to the same edges of the valid range.
    Read off the return / masked-store statements themselves; silent when either arm clamps through a library call the rule does not read."""
    import re
    repo = ctx.repo
    ctx.rule("R16k", "depth_with_index: the edges of valid_range the scalar arm returns are the edges the array arm stores under a mask (a one-sided array clamp "
             "leaves the other side at whatever the buffer held)", expected=1, kind="N")
    for q in (ANT,):
        fn = repo.member(q, "depth_with_index")
        if any(isinstance(n, ast.Call) and u(n.func).split(".")[-1] in ("clip", "where", "minimum", "maximum", "piecewise", "select", "fmin", "fmax", "putmask", "place", "copyto")
               for n in ast.walk(fn)):
            ctx.unknown("R16k", f"{q}.depth_with_index", "both arms clamp by explicit returns / masked stores", "a library clamp is used: not read by this rule", required=False)
            continue
        edge = re.compile(r"^self\.valid_range\[(-?\d+)\]$")
        scalar = {edge.match(u(r.value)).group(1) for r in ast.walk(fn) if isinstance(r, ast.Return) and r.value is not None and edge.match(u(r.value))}
        stores = [a for a in ast.walk(fn) if isinstance(a, ast.Assign) and len(a.targets) == 1 and isinstance(a.targets[0], ast.Subscript) and edge.match(u(a.value))]
        array = {edge.match(u(a.value)).group(1) for a in stores}
        if not scalar or not array:
            ctx.unknown("R16k", f"{q}.depth_with_index", "both arms clamp by explicit returns / masked stores", f"scalar edges {sorted(scalar)}, array edges {sorted(array)}", required=False)
            continue
        if scalar != array:
            miss = sorted(scalar ^ array)
            ctx.bad("R16k", f"{q}.depth_with_index", "scalar and array arms clamp to the same edges of valid_range",
                    f"scalar arm returns valid_range[{', '.join(sorted(scalar))}], array arm stores valid_range[{', '.join(sorted(array))}]: edge {', '.join(miss)} is handled by one arm only",
                    key_detail="one-sided clamp", loc=ctx.loc("pyrex.ice_model", stores[-1]), pointed=True)
        else:
            ctx.ok("R16k", f"{q}.depth_with_index", f"both arms clamp to valid_range[{', '.join(sorted(scalar))}]")



def r16j(ctx):
    """`equals the declared indices above and below the valid range` for a layered stack: whatever LayeredIce.index looks like, it can only
    return the declared outer indices if it reads them.  A necessary condition that does not depend on the shape of the function: `index`
    (with the methods of the class it calls on self) reads both self.index_above and self.index_below."""
    repo = ctx.repo
    ctx.rule("R16j", "LayeredIce.index reads the stack's declared index_above and index_below (itself or through a method it calls on self)", expected=2, kind="N")
    ci = repo.cls(LAY)
    seen, todo, reads = set(), ["index"], set()
    while todo:
        m = todo.pop()
        if m in seen or m not in ci.methods:
            continue
        seen.add(m)
        fn = ci.methods[m][1]
        for n in ast.walk(fn):
            if isinstance(n, ast.Attribute) and isinstance(n.value, ast.Name) and n.value.id == "self":
                if isinstance(n.ctx, ast.Load) and n.attr in ("index_above", "index_below"):
                    reads.add(n.attr)
                if n.attr in ci.methods and n.attr not in seen and ci.methods[n.attr][0] not in ("property",) or (n.attr in ci.methods and isinstance(parent(n), ast.Call)):
                    todo.append(n.attr)
    ctx.analysed["LayeredIce.index reaches"] = sorted(seen)
    for a_ in ("index_above", "index_below"):
        ctx.check(a_ in reads, "R16j", f"{LAY}.index", f"self.{a_} is read on the way to the result", f"not read by {sorted(seen)}", key_detail=f"reads {a_}",
                  loc=ctx.loc(LAY.rsplit(".", 1)[0], ci.methods["index"][1]), pointed=True)


def run(ctx):
    ctx.guard(r16k)         # pointed rules first (see Ctx.guard)
    ctx.guard(r16j)
    ctx.guard(r16i)
    ctx.guard(r16a)
    ctx.guard(r16b)
    ctx.guard(r16c)
    ctx.guard(r16d)
    ctx.guard(r16e)
    ctx.guard(r16f)
    ctx.guard(r16g)
    ctx.guard(r16h)


SELFTEST = {
    "faults": [
        {"name": "array arm computes only inside the range and clamps one side", "file": "pyrex/ice_model.py",
         "old": "        depths[n<self.index(self.valid_range[1])] = self.valid_range[1]\n", "new": "", "rule": "R16k"},
        {"name": "depths above the stack handed to the top layer instead of index_above", "file": "pyrex/custom/layered_ice/ice_model.py",
         "old": "                    n = self.index_above", "new": "                    n = self.layers[0].index(depth)", "rule": "R16j"},
        {"name": "one-element frequency array turned into a scalar", "file": "pyrex/ice_model.py", "old": "        with np.errstate(divide='ignore'):\n            # w is log of frequency in GHz",
         "new": "        if isinstance(f, np.ndarray) and f.size==1:\n            f = f.item()\n        with np.errstate(divide='ignore'):\n            # w is log of frequency in GHz", "rule": "R16i"},
        {"name": "whole-array fast path with a closed containment test", "file": "pyrex/custom/layered_ice/ice_model.py", "old": "            single_value = False\n\n        indices = []\n",
         "new": "            single_value = False\n            for layer in self.layers:\n                if layer.valid_range[0]<=np.min(z) and np.max(z)<=layer.valid_range[1]:\n                    return np.asarray(layer.index(np.asarray(z)))\n\n        indices = []\n",
         "rule": "R16h"},
        {"name": "<= in the array arm only", "file": "pyrex/ice_model.py", "old": "        indices[z<self.valid_range[0]] = self.index_below", "new": "        indices[z<=self.valid_range[0]] = self.index_below",
         "occurrence": 1, "rule": "R16a"},
        {"name": "wrong edge in the inverse clamp", "file": "pyrex/ice_model.py", "old": "        depths[n<self.index(self.valid_range[1])] = self.valid_range[1]",
         "new": "        depths[n<self.index(self.valid_range[1])] = self.valid_range[0]", "rule": ["R16a", "R16d"]},
        {"name": "sign of gradient", "file": "pyrex/ice_model.py", "old": "return np.array([0, 0, -self.k * self.a * np.exp(self.a * z)])", "new": "return np.array([0, 0, self.k * self.a * np.exp(self.a * z)])",
         "rule": "R16c"},
        {"name": "f<=1e9 in one shape arm", "file": "pyrex/ice_model.py", "old": "            b[f<1e9] += (b0 - b1) / w0", "new": "            b[f<=1e9] += (b0 - b1) / w0", "rule": "R16e"},
        {"name": "inverse without the division by a", "file": "pyrex/ice_model.py", "old": "                return np.log((self.n0-n)/self.k) / self.a", "new": "                return np.log((self.n0-n)/self.k)",
         "rule": ["R16a", "R16d"]},
        {"name": "open interval in contains", "file": "pyrex/ice_model.py", "old": "        return self.valid_range[0]<=point[2]<=self.valid_range[1]", "new": "        return self.valid_range[0]<point[2]<=self.valid_range[1]",
         "occurrence": 1, "rule": "R16b"},
        {"name": "Greenland clamp removed on the scalar path", "file": "pyrex/ice_model.py", "old": "        elif alen<min_alen:\n            alen = min_alen\n", "new": "", "rule": "R16g"},
        {"name": "attenuation length exp(+)", "file": "pyrex/ice_model.py", "old": "        return np.exp(-(a + b * w))", "new": "        return -np.exp(-(a + b * w))", "rule": "R16g"},
    ],
    "benign": [
        {"name": "reordered product in gradient", "file": "pyrex/ice_model.py", "old": "return np.array([0, 0, -self.k * self.a * np.exp(self.a * z)])", "new": "return np.array([0, 0, -self.a * np.exp(z * self.a) * self.k])"},
    ],
}
