"""C18 -- uniform and layered tracers reduce to image geometry and the one-medium tracer (structural clauses)."""
import ast

from ..core.source import AnalysisError, parent
from ..core.astutil import strip_doc, calls, is_call, kwargs_of, guards, u, returns, names_in, parse_expr
from ..core.exprnf import NF, local_env
from . import c02

META = {
    "explanation": "R18a image geometry of UniformRayTracePath: direct path = [from, to]; path_length sums |p2 - p1| over consecutive points; tof = n0 * length / c; "
                   "reflection depths are the ice boundaries valid_range[dirn] with dirn = ((d0 * (-1)^i) + 1) // 2; horizontal shares drs = rho * dzs / sum(dzs) "
                   "(the unfolded straight segment to the mirrored receiver).  R18b the dzs construction of UniformRayTracer._reflected_path and of "
                   "UniformRayTracePath._points are one guard->contribution map (clone) and theta = arctan2(d0 * sum(dzs), rho).  R18c translation invariance = "
                   "R02a on the uniform and layered classes (affine domain).  R18d layered solutions: sub-paths are built from consecutive points "
                   "zip(points[:-1], points[1:]) with points[0] = from, points[-1] = to, interior points from_point + rs*(cos phi, sin phi) at the boundary depths; "
                   "path_length / tof are sums over the sub-paths; directions come from the first / last sub-path.  R18e at layer boundaries: transmission "
                   "sin' = sin * n_i / n_{i+1} with the > 1 cut-off keeping the hemisphere, reflection pi - angle.",
    "not_decided": ["equivalence of a split medium with the unsplit one", "unit transmission for equal indices (numerical)", "root bracketing on the 91-angle grid",
                    "which reflections are allowed (index_above/below None)"],
    "trusted_base": ["CPython ast", "PolyNF", "affine domain (R18c)"],
    "assumptions": [],
}

UP = "pyrex.ray_tracing.UniformRayTracePath"
UT = "pyrex.ray_tracing.UniformRayTracer"
LT = "pyrex.custom.layered_ice.ray_tracing.LayeredRayTracer"
LP = "pyrex.custom.layered_ice.ray_tracing.LayeredRayTracePath"


def r18a(ctx):
    repo = ctx.repo
    ctx.rule("R18a", "uniform image geometry: direct points, path length as sum of segment lengths, tof = n0 L / c, boundary depths, proportional horizontal shares",
             expected=6, kind="N")
    pts = repo.member(UP, "_points")
    body = strip_doc(pts)
    first = body[0]
    ok = isinstance(first, ast.If) and u(first.test) == "self.direct" and u(first.body[0]) in ("return np.asarray([self.from_point, self.to_point])", "return np.array([self.from_point, self.to_point])")
    ctx.check(ok, "R18a", f"{UP}._points", "the direct path is the straight segment [from_point, to_point]", u(first.body[0]) if isinstance(first, ast.If) else "", key_detail="direct points",
              loc=ctx.loc("pyrex.ray_tracing", pts))
    pl = repo.member(UP, "path_length")
    r = returns(pl)
    ok = len(r) == 1 and is_call(r[0].value, func="np.sum") and isinstance(r[0].value.args[0], (ast.ListComp, ast.GeneratorExp))
    if ok:
        lc = r[0].value.args[0]
        g = lc.generators[0]
        a, b = [e.id for e in g.target.elts]
        ok = u(g.iter) == "zip(self._points[:-1], self._points[1:])" and NF().nf(lc.elt).equals(NF().nf(parse_expr(f"np.sqrt(np.sum(({b} - {a})**2))")))
    ctx.check(ok, "R18a", f"{UP}.path_length", "length = sum of Euclidean lengths of consecutive point pairs", u(r[0].value) if r else "", key_detail="path length", loc=ctx.loc("pyrex.ray_tracing", pl))
    tf = repo.member(UP, "tof")
    r = returns(tf)
    ok = len(r) == 1 and NF().nf(r[0].value).equals(NF().nf(parse_expr("self.n0 * self.path_length / scipy.constants.c")))
    ctx.check(ok, "R18a", f"{UP}.tof", "time of flight = n0 * path_length / c", u(r[0].value) if r else "", key_detail="tof")
    env = {}
    for st in ast.walk(pts):
        if isinstance(st, ast.Assign) and isinstance(st.targets[0], ast.Name):
            env.setdefault(st.targets[0].id, st.value)
    ok = NF().nf(env["drs"]).equals(NF().nf(parse_expr("self.rho * np.asarray(dzs) / np.sum(dzs)"))) and u(env.get("rs")) == "np.cumsum(drs)" if "drs" in env else False
    ctx.check(ok, "R18a", f"{UP}._points", "each leg's horizontal share is rho * dz_leg / sum(dz): the unfolded path is a straight line to the mirrored receiver",
              u(env.get("drs")) if "drs" in env else "", key_detail="horizontal shares")
    loops = [n for n in ast.walk(pts) if isinstance(n, ast.For) and u(n.iter) == "range(self._reflections)"]
    ok = len(loops) == 1
    if ok:
        i = loops[0].target.id
        st = [u(s) for s in loops[0].body]
        ok = len(st) == 2 and NF().nf(parse_expr(st[0].split(" = ", 1)[1].replace("//", "/"))).equals(NF().nf(parse_expr(f"(initial_direction * (-1)**{i} + 1) / 2"))) \
            and "//" in st[0] and st[1] == f"points[{i} + 1, 2] = self.ice.valid_range[dirn]"
    ctx.check(ok, "R18a", f"{UP}._points", "reflection i happens on the boundary valid_range[(d0*(-1)^i + 1)//2]: alternately top and bottom, starting in the launch direction",
              str([u(s) for s in loops[0].body]) if loops else "", key_detail="reflection depths")
    ends = [u(s) for s in body[-1].orelse] if isinstance(body[0], ast.If) and body[0].orelse else [u(s) for s in body]
    ok = "points[0] = self.from_point" in ends and "points[-1] = self.to_point" in ends and ends.index("points[-1] = self.to_point") > max(i for i, t in enumerate(ends) if t.startswith("points[1:"))
    ctx.check(ok, "R18a", f"{UP}._points", "the first point is the source and the last the receiver (written after the interior points)", "", key_detail="end points")
    hz = [u(s) for s in ast.walk(pts) if isinstance(s, ast.Assign) and u(s.targets[0]).startswith("points[1:,")]
    ok = len(hz) == 2 and NF().nf(parse_expr(hz[0].split(" = ", 1)[1])).equals(NF().nf(parse_expr("self.from_point[0] + rs*np.cos(self.phi)"))) \
        and NF().nf(parse_expr(hz[1].split(" = ", 1)[1])).equals(NF().nf(parse_expr("self.from_point[1] + rs*np.sin(self.phi)")))
    ctx.check(ok, "R18a", f"{UP}._points", "interior points lie at from_point + rs*(cos phi, sin phi): on the vertical plane through source and receiver", str(hz), key_detail="interior points")
    for m, a, b in (("emitted_direction", "self._points[1] - self._points[0]", None), ("received_direction", "self._points[-1] - self._points[-2]", None)):
        fn = repo.member(UP, m)
        r = [x for x in returns(fn) if "normalize" in u(x.value)]
        ok = len(r) == 1 and u(r[0].value) == f"normalize({a})"
        ctx.check(ok, "R18a", f"{UP}.{m}", f"{m} is the unit vector of the {'first' if 'emitted' in m else 'last'} leg", u(r[0].value) if r else "", key_detail=m)


def dzs_contribs(fn, refl, d0="initial_direction"):
    """ordered list (structural order) of (method, normalised appended expression, normalised guard or None)"""
    from ..core.astutil import dfs
    out = []
    for n in dfs(fn):
        if is_call(n, recv="dzs") and n.func.attr in ("append", "extend"):
            g = guards(n, stop=fn)
            guard = None
            if g:
                t, pol = g[0]
                guard = (u(t).replace(refl, "R"), pol)
            out.append((n.func.attr, u(n.args[0]).replace(refl, "R"), guard))
    return out


def r18b(ctx):
    repo = ctx.repo
    ctx.rule("R18b", "dzs clones: tracer._reflected_path and path._points append the same contributions under the same direction guards; theta = arctan2(d0*sum(dzs), rho)",
             expected=3, kind="N")
    a = dzs_contribs(repo.member(UT, "_reflected_path"), "reflections")
    b = dzs_contribs(repo.member(UP, "_points"), "self._reflections")
    ok = len(a) == len(b) == 5 and [x[:2] for x in a] == [y[:2] for y in b]
    ctx.check(ok, "R18b", f"{UP}._points", "the five dz contributions (first leg up/down, full traversals, last leg up/down) are the same expressions in tracer and path",
              f"tracer={[x[:2] for x in a]} path={[y[:2] for y in b]}", key_detail="dzs contributions", loc=ctx.loc("pyrex.ray_tracing", repo.member(UP, "_points")))
    # guards: `elif d == -1: A else: raise` and `else: A` are the same arm; compare polarity-normalised first-arm tests
    def arm(g):
        if g is None:
            return None
        t, pol = g
        t = t.replace(" ", "")
        if "direction" not in t:
            return None         # an enclosing guard that is not a direction case (e.g. `if self.direct: ... else:`)
        if t in ("initial_direction==1", "final_direction==1"):
            return (t.split("==")[0], "+" if pol else "-")
        if t in ("initial_direction==-1",):
            return ("initial_direction", "-" if pol else "+")
        return (t, pol)
    ga, gb = [arm(x[2]) for x in a], [arm(y[2]) for y in b]
    ctx.check(ga == gb, "R18b", f"{UP}._points", "each contribution is taken in the same direction case in both copies", f"tracer={ga} path={gb}", key_detail="dzs guards")
    rp = repo.member(UT, "_reflected_path")
    env = local_env(rp)
    ok = "theta" in env and NF().nf(env["theta"]).equals(NF().nf(parse_expr("np.arctan2(initial_direction*np.sum(dzs), self.rho)")))
    ctx.check(ok, "R18b", f"{UT}._reflected_path", "launch elevation of a reflected path is arctan2(d0 * total vertical travel, rho): the straight line to the mirrored receiver",
              u(env.get("theta")) if "theta" in env else "", key_detail="reflected launch angle")
    r = returns(rp)
    ctx.check(len(r) == 1 and u(r[0].value) == "self.solution_class(self, theta, reflections)", "R18b", f"{UT}._reflected_path", "the path is built with that angle and reflection count",
              u(r[0].value) if r else "", key_detail="path construction")
    so = repo.member(UT, "solutions")
    src = u(so)
    ok = "self.solution_class(self, np.arctan2(self.z1 - self.z0, self.rho), 0)" in src and "for ref in range(1, self.max_reflections + 1):" in src and "for direction in [1, -1]:" in src \
        and "sols.append(self._reflected_path(ref, direction))" in src
    ctx.check(ok, "R18b", f"{UT}.solutions", "direct path first (elevation arctan2(dz, rho), 0 reflections), then 1..max_reflections reflections launched up and down", "", key_detail="solution enumeration")
    # initial direction in the path is the sign of that elevation angle
    pts = repo.member(UP, "_points")
    tests = [(u(n.test), u(n.body[0])) for n in ast.walk(pts) if isinstance(n, ast.If) and "self.theta0" in u(n.test)]
    ok = ("self.theta0 > 0", "initial_direction = 1") in tests and ("self.theta0 < 0", "initial_direction = -1") in tests
    ctx.check(ok, "R18b", f"{UP}._points", "the path recovers the launch direction from the sign of its elevation angle", str(tests), key_detail="initial direction")


def r18c(ctx):
    ctx.rule("R18c", "translation invariance of the uniform and layered classes (= R02a restricted to them)", expected=20, kind="S")
    sub = type(ctx)(ctx.repo, ctx.prop, ctx.tier)
    c02.r02a(sub)
    n = 0
    for o in sub.obs:
        if any(k in o.construct for k in ("Uniform", "Layered")):
            o.rule = "R18c"
            ctx.obs.append(o)
            n += 1
    if n < 20:
        raise AnalysisError(f"R18c: only {n} affine obligations on the uniform/layered classes")


def r18d(ctx):
    repo = ctx.repo
    ctx.rule("R18d", "layered chain continuity: sub-paths from zip(models, points[:-1], points[1:], angles, direct flags); end points are source and receiver; sums over sub-paths",
             expected=5, kind="S")
    so = repo.member(LT, "solutions")
    lcs = [n for n in ast.walk(so) if isinstance(n, ast.ListComp) and any(is_call(c, name="_build_path_at_layer", recv="self") for c in ast.walk(n.elt))]
    ok = len(lcs) == 1
    if ok:
        lc = lcs[0]
        g = lc.generators[0]
        z = g.iter
        ok = is_call(z, func="zip") and len(z.args) == 5 and u(z.args[1]) == "points[:-1]" and u(z.args[2]) == "points[1:]" and u(z.args[0]) == "group_models" and u(z.args[3]) == "angles"
        tv = [e.id for e in g.target.elts] if ok else []
        ok = ok and [u(a) for a in lc.elt.args] == tv
    ctx.check(ok, "R18d", f"{LT}.solutions", "sub-path k runs from points[k] to points[k+1] in its own layer with its own angle: consecutive sub-paths share their end point", u(lcs[0])[:160] if lcs else "",
              key_detail="consecutive points", loc=ctx.loc(repo.cls(LT).module, so))
    st = {u(s.targets[0]): u(s.value) for s in ast.walk(so) if isinstance(s, ast.Assign) and u(s.targets[0]).startswith("points[")}
    want = {"points[0]": "self.from_point", "points[-1]": "self.to_point", "points[1:, 2]": "path_zs[idxs]"}
    ok = all(st.get(k) == v for k, v in want.items()) and NF().nf(parse_expr(st.get("points[1:, 0]", "0"))).equals(NF().nf(parse_expr("self.from_point[0] + rs*np.cos(self.phi)"))) \
        and NF().nf(parse_expr(st.get("points[1:, 1]", "0"))).equals(NF().nf(parse_expr("self.from_point[1] + rs*np.sin(self.phi)")))
    ctx.check(ok, "R18d", f"{LT}.solutions", "chain points: source, then from_point + rs*(cos phi, sin phi) at the boundary depths, finally the receiver", str(st), key_detail="chain points")
    env = {}
    for s in ast.walk(so):
        if isinstance(s, ast.Assign) and isinstance(s.targets[0], ast.Name):
            env.setdefault(s.targets[0].id, s.value)
        elif isinstance(s, ast.Assign) and isinstance(s.targets[0], ast.Tuple) and all(isinstance(e, ast.Name) for e in s.targets[0].elts):
            env.setdefault(",".join(e.id for e in s.targets[0].elts), s.value)
    ok = u(env.get("rs")) == "np.cumsum(drs)" and u(env.get("drs,angles")) == "self._trace_path(launch_angle, path_zs, grouped_path, group_models)"
    ctx.check(ok, "R18d", f"{LT}.solutions", "radial positions are the cumulative radial distances of the traced legs at the found launch angle", "", key_detail="radial positions")
    for m, attr in (("path_length", "path_length"), ("tof", "tof")):
        fn = repo.member(LP, m)
        r = returns(fn)
        ok = len(r) == 1 and u(r[0].value) == f"np.sum([path.{attr} for path in self.paths])"
        ctx.check(ok, "R18d", f"{LP}.{m}", f"{m} of the chain is the sum over its sub-paths", u(r[0].value) if r else "", key_detail=f"{m} sum")
    for m, want in (("emitted_direction", "self.paths[0].emitted_direction"), ("received_direction", "self.paths[-1].received_direction")):
        r = returns(repo.member(LP, m))
        ctx.check(len(r) == 1 and u(r[0].value) == want, "R18d", f"{LP}.{m}", f"{m} is that of the {'first' if '0' in want else 'last'} sub-path", u(r[0].value) if r else "", key_detail=m)
    at = repo.member(LP, "attenuation")
    src = u(at)
    ok = "for path in self.paths:" in src and "attens *= path.attenuation(f, *args, **kwargs)" in src
    ctx.check(ok, "R18d", f"{LP}.attenuation", "attenuation of the chain is the product over its sub-paths", "", key_detail="attenuation product")
    # sub-path construction dispatches on the layer's tracer class and builds the path with the layer as ice
    bp = repo.member(LT, "_build_path_at_layer")
    src = u(bp)
    ok = src.count("tracer_class(from_point=from_point, to_point=to_point, ice_model=ice_layer)") == 2 and "return path_class(tracer, theta0, direct)" in src \
        and "return path_class(tracer, theta0, 0 if direct else 1)" in src
    ctx.check(ok, "R18d", f"{LT}._build_path_at_layer", "each sub-path is a path of the layer's own tracer between the two chain points, launched at the traced angle", "", key_detail="sub-path construction")


def r18e(ctx):
    repo = ctx.repo
    ctx.rule("R18e", "_trace_path: transmission sin' = sin(angle) * n_i(z_start) / n_{i+1}(z_boundary), > 1 stops the path, hemisphere kept; reflection angle -> pi - angle",
             expected=3, kind="N")
    tp = repo.member(LT, "_trace_path")
    st = [s for s in ast.walk(tp) if isinstance(s, ast.Assign) and u(s.targets[0]) == "sin_angle"]
    ok = len(st) == 1 and NF().nf(st[0].value).equals(NF().nf(parse_expr("np.sin(angle) * models[i].index(depths[start]) / models[i + 1].index(depths[stop])")))
    ctx.check(ok, "R18e", f"{LT}._trace_path", "Snell's law across a boundary: n_i sin(theta_i) = n_{i+1} sin(theta_{i+1}) with the indices of the two layers at their own depths",
              u(st[0].value) if st else "", key_detail="snell transmission", loc=ctx.loc(repo.cls(LT).module, tp))
    cut = [n for n in ast.walk(tp) if isinstance(n, ast.If) and u(n.test).replace(" ", "") == "sin_angle>1"]
    ok = len(cut) == 1 and any(isinstance(x, ast.Break) for x in cut[0].body)
    ctx.check(ok, "R18e", f"{LT}._trace_path", "no transmission beyond the critical angle (sin > 1 ends the path with NaNs)", "", key_detail="critical angle")
    hemi = [n for n in ast.walk(tp) if isinstance(n, ast.If) and u(n.test).replace(" ", "") == "angle<np.pi/2" and len(n.body) == 1 and "arcsin(sin_angle)" in u(n.body[0])]
    ok = len(hemi) == 1 and u(hemi[0].body[0]) == "angle = np.arcsin(sin_angle)" and u(hemi[0].orelse[0]) == "angle = np.pi - np.arcsin(sin_angle)"
    ctx.check(ok, "R18e", f"{LT}._trace_path", "the refracted ray keeps its up/down hemisphere", "", key_detail="hemisphere")
    refl = [s for s in ast.walk(tp) if isinstance(s, ast.Assign) and u(s) == "angle = np.pi - angle"]
    ctx.check(len(refl) == 2, "R18e", f"{LT}._trace_path", "a reflection (inside a layer group or at a boundary) mirrors the polar angle: pi - angle", f"{len(refl)} sites", key_detail="mirror reflection")
    first = [s for s in ast.walk(tp) if is_call(s, name="_get_radial_distance", recv="self")]
    ok = len(first) == 1 and {k: u(v) for k, v in kwargs_of(first[0]).items()} == {"angle": "angle", "ice_layer": "models[i]", "zs": "depths[start:stop + 1]"}
    ctx.check(ok, "R18e", f"{LT}._trace_path", "each leg's radial distance is computed in its own layer between its own depths at the current angle", "", key_detail="leg distance")
    gr = repo.member(LT, "_get_radial_distance")
    src = u(gr)
    ok = "return np.sum(np.tan(angle) * np.diff(zs))" in src and "angle = np.arcsin(np.sin(angle) * ice_layer.index(zs[0]) / ice_layer.index(zs[-1]))" in src
    ctx.check(ok, "R18e", f"{LT}._get_radial_distance", "uniform layer: r = tan(angle) * dz; gradient layer traced from above: angle converted to the lower end by Snell's law", "",
              key_detail="radial distance")


def r18f(ctx):
    """single-layer direct path in the layered tracer: both launch directions are enumerated, and exactly one of them is skipped for every sign of z1 - z0
    (the two skip conditions must be complementary in z1 - z0 and opposite in direction, otherwise a level path z1 == z0 loses its only direct solution
    or gets two)."""
    repo = ctx.repo
    ctx.rule("R18f", "layered direct path: the duplicate-direction guard skips `z1-z0 >= 0 with one direction` or `z1-z0 < 0 with the other` -- complementary comparators, "
             "opposite directions", expected=1, kind="N")
    so = repo.member(LT, "solutions")
    g = [n for n in ast.walk(so) if isinstance(n, ast.If) and "len(path) == 1" in u(n.test) and "start_direction" in u(n.test) and any(isinstance(x, ast.Continue) for x in n.body)]
    if len(g) != 1:
        ctx.unknown("R18f", f"{LT}.solutions", "direction guard of the single-layer direct path found", f"{len(g)} candidates")
        return
    cases = []
    for b in ast.walk(g[0].test):
        if isinstance(b, ast.BoolOp) and isinstance(b.op, ast.And) and len(b.values) == 2 and all(isinstance(v, ast.Compare) for v in b.values):
            dz = [v for v in b.values if "self.z1 - self.z0" in u(v.left) or "self.z1 - self.z0" in u(v.comparators[0])]
            dr = [v for v in b.values if "start_direction" in u(v)]
            if len(dz) == 1 and len(dr) == 1:
                cases.append((type(dz[0].ops[0]).__name__, u(dz[0].comparators[0]), u(dr[0].comparators[0]), type(dr[0].ops[0]).__name__))
    comp = {("GtE", "Lt"), ("Lt", "GtE"), ("Gt", "LtE"), ("LtE", "Gt")}
    ok = len(cases) == 2 and (cases[0][0], cases[1][0]) in comp and cases[0][1] == cases[1][1] == "0" and {cases[0][2], cases[1][2]} == {"1", "-1"} \
        and cases[0][3] == cases[1][3] == "Eq"
    ctx.check(ok, "R18f", f"{LT}.solutions", "for every z1 - z0 exactly one launch direction of the single-layer direct path is skipped (complementary tests, opposite directions)",
              str(cases), key_detail="direct path direction guard", loc=ctx.loc(repo.cls(LT).module, g[0]))


def r18g(ctx):
    repo = ctx.repo
    ctx.rule("R18g", "arrays that receive computed coordinates are allocated as floating point, whatever the type of the endpoints (integer endpoints are legal input): "
             "np.zeros / empty / ones / full without an inherited or integer dtype, and no *_like of an input", expected=1, kind="N")
    FLOAT_OK = ("float", "np.float64", "np.float_", "numpy.float64", "'float'", "'float64'", "np.double")
    n = 0
    for q in (UP, "pyrex.ray_tracing.UniformRayTracer"):
        ci = repo.cls(q)
        for st in ci.node.body:
            if not isinstance(st, ast.FunctionDef):
                continue
            for c_ in ast.walk(st):
                if not isinstance(c_, ast.Call):
                    continue
                f_ = u(c_.func)
                if f_ in ("np.zeros", "np.empty", "np.ones", "np.full"):
                    n += 1
                    kw = {k.arg: k.value for k in c_.keywords}
                    dt = kw.get("dtype") or (c_.args[1] if f_ != "np.full" and len(c_.args) > 1 else (c_.args[2] if f_ == "np.full" and len(c_.args) > 2 else None))
                    ctx.check(dt is None or u(dt) in FLOAT_OK, "R18g", f"{q}.{st.name}", "coordinate array allocated as float", u(c_)[:120], key_detail=f"dtype of {f_}",
                              loc=ctx.loc(ci.module, c_))
                elif f_ in ("np.zeros_like", "np.empty_like", "np.ones_like", "np.full_like"):
                    n += 1
                    kw = {k.arg: k.value for k in c_.keywords}
                    ctx.check(kw.get("dtype") is not None and u(kw["dtype"]) in FLOAT_OK, "R18g", f"{q}.{st.name}", "coordinate array allocated as float", u(c_)[:120],
                              key_detail=f"dtype of {f_}", loc=ctx.loc(ci.module, c_))
    if n == 0:
        ctx.unknown("R18g", UP, "at least one coordinate allocation found", "")


def r18h(ctx):
    repo = ctx.repo
    ctx.rule("R18h", "after k reflections the path travels in direction d0 * (-1)**k (the image of the receiver alternates sides): path and tracer agree on it", expected=2, kind="N")
    want = NF().nf(parse_expr("initial_direction * (-1)**k"))
    for q, m, k in ((UP, "_points", "self._reflections"), (UT, "_reflected_path", "reflections")):
        fn = repo.member(q, m)
        st = [n for n in ast.walk(fn) if isinstance(n, ast.Assign) and u(n.targets[0]) == "final_direction"]
        ok = len(st) == 1 and NF().nf(parse_expr(u(st[0].value).replace(k, "k"))).equals(want)
        ctx.check(ok, "R18h", f"{q}.{m}", "final_direction = initial_direction * (-1)**reflections", u(st[0].value) if st else "no assignment", key_detail="final direction",
                  loc=ctx.loc("pyrex.ray_tracing", st[0] if st else fn))


def r18i(ctx):
    repo = ctx.repo
    ctx.rule("R18i", "LayeredRayTracer: a duplicate end point is cut from path, depths and directions alike (same slice in the same branch); the launch-angle conversion of "
             "_get_radial_distance runs exactly for paths that start above their end, and only a *direct* downward-launched one is impossible", expected=2, kind="N")
    so = repo.member(LT, "solutions")
    groups = {}
    for n in ast.walk(so):
        if isinstance(n, ast.Assign) and isinstance(n.value, ast.Subscript) and isinstance(n.targets[0], ast.Name) and u(n.value.value) == n.targets[0].id \
                and u(n.value.slice) in ("1:", ":-1"):
            groups.setdefault(id(parent(n)), []).append((n.targets[0].id, u(n.value.slice), n))
    bad = [g for g in groups.values() if len({s_ for _, s_, _ in g}) != 1]
    ctx.check(len(groups) >= 2 and not bad, "R18i", f"{LT}.solutions", "the lists describing one path are trimmed with the same slice", str([[(a, b) for a, b, _ in g] for g in groups.values()]),
              key_detail="symmetric trimming", loc=ctx.loc(repo.cls(LT).module, so))
    rd = repo.member(LT, "_get_radial_distance")
    conv = [n for n in ast.walk(rd) if isinstance(n, ast.Assign) and u(n.targets[0]) == "angle" and "arcsin" in u(n.value)]
    ok = len(conv) == 1
    detail = ""
    if ok:
        g = [(u(t).replace(" ", ""), pol) for t, pol in guards(conv[0], stop=rd)]
        detail = str(g)
        ok = ("zs[0]>zs[-1]", True) in g and not any("len(zs)" in t and pol for t, pol in g)
        nan = [n for n in ast.walk(rd) if isinstance(n, ast.Return) and u(n.value) == "np.nan" and any(u(t).replace(" ", "") == "zs[0]>zs[-1]" and pol for t, pol in guards(n, stop=rd))]
        ok = ok and len(nan) == 1 and {t for t, pol in [(u(t).replace(" ", ""), pol) for t, pol in guards(nan[0], stop=rd)] if pol} >= {"zs[0]>zs[-1]", "len(zs)==2andangle<np.pi/2"}
    ctx.check(ok, "R18i", f"{LT}._get_radial_distance", "angle is carried to the lower end whenever zs[0] > zs[-1] (direct or turning); nan only for a direct path launched downwards", detail,
              key_detail="angle conversion guard", loc=ctx.loc(repo.cls(LT).module, rd))


def r18j(ctx):
    """`unit transmission when a medium is split`: at an internal boundary the Fresnel factors are built from the refractive index *at the
    boundary depth* on either side.  In LayeredRayTracePath.fresnel the incoming side is the END of the first path (index of its ice at
    to_point), the outgoing side the START of the second (index at from_point, which is also that path's n0) or the stack's outer index.
    For a split exponential ice the index at the other end of the layer differs, and the factor is no longer 1."""
    repo = ctx.repo
    ctx.rule("R18j", "LayeredRayTracePath.fresnel: Snell's ratio at a boundary uses the index at the end of the incoming path and at the start of the outgoing path "
             "(or the stack's outer index), never an index from the far end of a layer", expected=2, kind="N")
    fn = repo.member(LP, "fresnel")
    loop = next((n for n in ast.walk(fn) if isinstance(n, ast.For) and isinstance(n.target, ast.Tuple) and len(n.target.elts) == 2
                 and is_call(n.iter, func="zip") and len(n.iter.args) == 2 and u(n.iter.args[0]) == "self.paths[:-1]" and u(n.iter.args[1]) == "self.paths[1:]"), None)
    if loop is None:
        ctx.unknown("R18j", f"{LP}.fresnel", "the loop over consecutive sub-paths is found", "no `for a, b in zip(self.paths[:-1], self.paths[1:])`")
        return
    a, b = (e.id for e in loop.target.elts)
    defs = {}
    for n in ast.walk(loop):
        if isinstance(n, ast.Assign) and len(n.targets) == 1 and isinstance(n.targets[0], ast.Name):
            defs.setdefault(n.targets[0].id, []).append(n.value)
    incoming_ok = {f"{a}.ice.index({a}.to_point[2])"}

    def outgoing_ok(txt):
        import re
        return txt in (f"{b}.ice.index({b}.from_point[2])", f"{b}.n0", "self.ice.index_above", "self.ice.index_below") \
            or re.fullmatch(r"self\.ice\.layers\[[^\]]+\]\.index\(" + re.escape(b) + r"\.from_point\[2\]\)", txt) is not None
    ratios = [n for n in ast.walk(loop) if isinstance(n, ast.BinOp) and isinstance(n.op, ast.Div) and isinstance(n.left, ast.Name) and isinstance(n.right, ast.Name)
              and isinstance(parent(n), ast.BinOp) and isinstance(parent(n).op, ast.Mult) and is_call(parent(n).right, func="np.sin")]
    if not ratios:
        ctx.unknown("R18j", f"{LP}.fresnel", "Snell's ratio n_in / n_out * sin(theta) is found", "no such expression in the loop")
        return
    for r in ratios:
        n_in, n_out = r.left.id, r.right.id
        d_in = [u(v) for v in defs.get(n_in, [])]
        d_out = [u(v) for v in defs.get(n_out, [])]
        ok = bool(d_in) and all(t in incoming_ok for t in d_in) and bool(d_out) and all(outgoing_ok(t) for t in d_out)
        wrong = [t for t in d_in if t not in incoming_ok] + [t for t in d_out if not outgoing_ok(t)]
        ctx.check(ok, "R18j", f"{LP}.fresnel", f"`{u(r)}`: incoming index at the end of `{a}`, outgoing index at the start of `{b}` or an outer index",
                  "; ".join(wrong) if wrong else "index not bound in the loop", key_detail=f"boundary index line {ratios.index(r)}", loc=ctx.loc(LP.rsplit(".", 1)[0], r))


def run(ctx):
    ctx.guard(r18j)
    ctx.guard(r18i)
    ctx.guard(r18h)
    ctx.guard(r18g)
    ctx.guard(r18f)
    ctx.guard(r18a)
    ctx.guard(r18b)
    ctx.guard(r18c)
    ctx.guard(r18d)
    ctx.guard(r18e)


SELFTEST = {
    "faults": [
        {"name": "incoming index taken at the start of the layer (n0) in LayeredRayTracePath.fresnel", "file": "pyrex/custom/layered_ice/ray_tracing.py",
         "old": "            n_1 = path_1.ice.index(path_1.to_point[2])", "new": "            n_1 = path_1.n0", "rule": "R18j"},
        {"name": "directions trimmed at the wrong end", "file": "pyrex/custom/layered_ice/ray_tracing.py", "old": "                    directions = directions[:-1]", "new": "                    directions = directions[1:]",
         "rule": "R18i"},
        {"name": "angle conversion only for direct paths", "file": "pyrex/custom/layered_ice/ray_tracing.py", "old": "            if zs[0]>zs[-1]:\n                if len(zs)==2 and angle<np.pi/2:",
         "new": "            if len(zs)==2 and zs[0]>zs[-1]:\n                if angle<np.pi/2:", "rule": "R18i"},
        {"name": "-1**k for (-1)**k", "file": "pyrex/ray_tracing.py", "old": "            final_direction = initial_direction * (-1)**self._reflections", "new": "            final_direction = initial_direction * -1**self._reflections",
         "rule": "R18h"},
        {"name": "reflection points inherit the dtype of the source", "file": "pyrex/ray_tracing.py", "old": "            points = np.zeros((self._reflections+2, 3))",
         "new": "            points = np.zeros((self._reflections+2, 3), dtype=self.from_point.dtype)", "rule": "R18g"},
        {"name": "level direct path skipped in both directions", "file": "pyrex/custom/layered_ice/ray_tracing.py", "old": "                         (self.z1-self.z0<0 and start_direction==-1))):",
         "new": "                         (self.z1-self.z0<=0 and start_direction==-1))):", "rule": "R18f"},
        {"name": "different dzs in tracer and path", "file": "pyrex/ray_tracing.py", "old": "            dzs.extend([size]*(self._reflections-1))",
         "new": "            dzs.extend([size]*(self._reflections))", "rule": "R18b"},
        {"name": "tof without /c", "file": "pyrex/ray_tracing.py", "old": "        return self.n0 * self.path_length / scipy.constants.c", "new": "        return self.n0 * self.path_length", "rule": "R18a"},
        {"name": "sub-paths skip a point", "file": "pyrex/custom/layered_ice/ray_tracing.py", "old": "                            group_models, points[:-1], points[1:], angles,", "new": "                            group_models, points[:-1], points[2:], angles,",
         "rule": "R18d"},
        {"name": "reflection points relative to the origin", "file": "pyrex/ray_tracing.py", "old": "            points[1:, 1] = self.from_point[1] + rs * np.sin(self.phi)", "new": "            points[1:, 1] = rs * np.sin(self.phi)",
         "rule": ["R18a", "R18c"]},
        {"name": "Snell with swapped indices", "file": "pyrex/custom/layered_ice/ray_tracing.py", "old": "                sin_angle = (np.sin(angle) * models[i].index(depths[start])\n                             / models[i+1].index(depths[stop]))",
         "new": "                sin_angle = (np.sin(angle) * models[i+1].index(depths[stop])\n                             / models[i].index(depths[start]))", "rule": "R18e"},
        {"name": "layered tof is the last sub-path's", "file": "pyrex/custom/layered_ice/ray_tracing.py", "old": "        return np.sum([path.tof for path in self.paths])", "new": "        return self.paths[-1].tof",
         "rule": "R18d"},
        {"name": "reflection depth always the top", "file": "pyrex/ray_tracing.py", "old": "                dirn = ((initial_direction * (-1)**i)+1)//2", "new": "                dirn = ((initial_direction * (-1)**0)+1)//2", "rule": "R18a"},
        {"name": "reflected launch angle ignores the direction", "file": "pyrex/ray_tracing.py", "old": "        theta = np.arctan2(initial_direction*np.sum(dzs), self.rho)", "new": "        theta = np.arctan2(np.sum(dzs), self.rho)",
         "rule": "R18b"},
    ],
    "benign": [
        {"name": "tof factors reordered", "file": "pyrex/ray_tracing.py", "old": "        return self.n0 * self.path_length / scipy.constants.c", "new": "        return self.path_length / scipy.constants.c * self.n0"},
    ],
}
