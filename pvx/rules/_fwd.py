"""Constructor forwarding (shared by several properties): a parameter of a subclass constructor that the next constructor in the MRO also
has under the same name is passed on to it by the super().__init__ call -- otherwise the base silently falls back to its default and the
object ignores what the caller asked for.  110 (class, parameter) pairs on the confirmed tree, no exception."""
import ast


def forwarding(ctx, rule, modules, what):
    repo = ctx.repo
    n = 0
    for q, ci in sorted(repo.classes.items()):
        if ci.module not in modules:
            continue
        init = next((st for st in ci.node.body if isinstance(st, ast.FunctionDef) and st.name == "__init__"), None)
        if init is None:
            continue
        sup = [c for c in ast.walk(init) if isinstance(c, ast.Call) and isinstance(c.func, ast.Attribute) and c.func.attr == "__init__"
               and isinstance(c.func.value, ast.Call) and isinstance(c.func.value.func, ast.Name) and c.func.value.func.id == "super"]
        if not sup:
            continue
        base = None
        for b in ci.mro()[1:]:
            bi = next((st for st in b.node.body if isinstance(st, ast.FunctionDef) and st.name == "__init__"), None)
            if bi is not None:
                base = (b, bi)
                break
        if base is None:
            continue
        own = [a.arg for a in init.args.args[1:]] + [a.arg for a in init.args.kwonlyargs]
        bparams = [a.arg for a in base[1].args.args[1:]] + [a.arg for a in base[1].args.kwonlyargs]
        for p in [x for x in own if x in bparams]:
            fw = False
            for c in sup:
                for i, a in enumerate(c.args):
                    if isinstance(a, ast.Starred) or (i < len(bparams) and bparams[i] == p and any(isinstance(m, ast.Name) and m.id == p for m in ast.walk(a))):
                        fw = True
                for k in c.keywords:
                    if k.arg is None or (k.arg == p and any(isinstance(m, ast.Name) and m.id == p for m in ast.walk(k.value))):
                        fw = True
            n += 1
            ctx.check(fw, rule, f"{q}.__init__", f"{what}: constructor parameter `{p}` is passed on to {base[0].name}.__init__", f"super().__init__ call(s): "
                      + "; ".join(ast.unparse(c)[:120] for c in sup), key_detail=f"forward {p}", loc=ctx.loc(ci.module, init))
    return n
