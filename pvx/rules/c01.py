"""C01 -- every ray-trace solution is a true ray joining its two endpoints (structural clauses)."""
import ast
from fractions import Fraction as Fr

from ..core.source import AnalysisError, parent
from ..core.astutil import strip_doc, calls, is_call, kwargs_of, guards, u, returns, names_in, parse_expr
from ..core.exprnf import NF, local_env

META = {
    "explanation": "R01a trapezoid pairing: every trapezoid-integration call of ray_tracing.py integrates samples of a np.linspace(a, b, n+1[, retstep=True]) and its dx= / x= "
                   "argument is that same linspace's step / abscissa (def-use).  R01b integrand relations: tof integrand / path-length integrand == n(z)/c and "
                   "attenuation integrand == path-length integrand / attenuation length (numeric path class).  R01c Snell clones: every arcsin(sin(A) n_from / "
                   "index(z_to)) in the file has one normal form; beta == n0 sin(theta0); z_turn == depth_with_index(beta).  R01d antiderivative check: the "
                   "syntactic derivative d/dz of the closed forms returned by _distance_integral, _pathlen_integral and _tof_integral (general arm and beta~0 arm), "
                   "with _int_terms inlined and modulo gamma = n^2 - beta^2, alpha = n0^2 - beta^2, n' = -a k e^{az}, equals beta/sqrt(gamma), n/sqrt(gamma), "
                   "n^2/(c sqrt(gamma)) -- the integrands of radial distance, path length and time of flight of a ray with invariant beta; the deep branches of "
                   "distance and path length equal the n == n0 integrand.  R01e turn-over flags and root brackets.",
    "not_decided": ["accuracy of trapezoid integration for a given dz", "convergence and bracket validity of brentq", "_z_int_uniform_correction piecing",
                    "_distance_integral_derivative (flagged FIXME in the source)", "the deep _tof_integral (a deliberate approximation)", "peak_angle"],
    "trusted_base": ["CPython ast", "the rational-function normal form with sqrt relations in this module", "elementary calculus rules (product, quotient, chain, log)"],
    "assumptions": ["n(z) = n0 - k exp(a z) inside the ice (checked against AntarcticIce.index by R01d's first obligation)"],
}

BP = "pyrex.ray_tracing.BasicRayTracePath"
SP = "pyrex.ray_tracing.SpecializedRayTracePath"
BT = "pyrex.ray_tracing.BasicRayTracer"
ST = "pyrex.ray_tracing.SpecializedRayTracer"
TRAPZ = {"np.trapz", "np.trapezoid", "numpy.trapz", "numpy.trapezoid", "trapz", "trapezoid"}


# ------------------------------------------------------------------------------------------------ R01a
def r01a(ctx):
    repo = ctx.repo
    ctx.rule("R01a", "each trapezoid call integrates samples of a linspace and uses that linspace's own step (dx=) or abscissa (x=)", expected=7, kind="N")
    mod = repo.modules["pyrex.ray_tracing"]
    n = 0
    for fn in [x for x in ast.walk(mod) if isinstance(x, ast.FunctionDef)]:
        lin = {}
        for s in ast.walk(fn):
            if isinstance(s, ast.Assign) and is_call(s.value, func="np.linspace"):
                t = s.targets[0]
                if isinstance(t, ast.Tuple) and len(t.elts) == 2 and all(isinstance(e, ast.Name) for e in t.elts):
                    lin[t.elts[0].id] = (t.elts[1].id, s.value)
                elif isinstance(t, ast.Name):
                    lin[t.id] = (None, s.value)
        env = local_env(fn)
        alldefs = {}
        for s_ in ast.walk(fn):
            if isinstance(s_, ast.Assign) and len(s_.targets) == 1 and isinstance(s_.targets[0], ast.Name):
                alldefs.setdefault(s_.targets[0].id, []).append(s_.value)
        mods = set(repo.imports.get("pyrex.ray_tracing", {}))

        def closure(names):
            seen, work = set(), list(names)
            while work:
                nm = work.pop()
                if nm in seen or nm in mods:
                    continue
                seen.add(nm)
                for v in alldefs.get(nm, []):
                    work.extend(names_in(v))
            return seen
        for c in ast.walk(fn):
            if not (isinstance(c, ast.Call) and u(c.func) in TRAPZ):
                continue
            # nested functions are visited on their own
            owner = c
            while not isinstance(owner, ast.FunctionDef):
                owner = parent(owner)
            if owner is not fn:
                continue
            n += 1
            cls = parent(fn)
            construct = f"pyrex.ray_tracing.{cls.name}.{fn.name}" if isinstance(cls, ast.ClassDef) else f"pyrex.ray_tracing.{fn.name}"
            y = c.args[0]
            used = closure(names_in(y))
            samples = [s for s in lin if s in used]
            kw = kwargs_of(c)
            loc = ctx.loc("pyrex.ray_tracing", c)
            if "dx" in kw:
                names = names_in(kw["dx"]) - mods
                steps = {lin[s][0] for s in samples}
                ok = bool(samples) and bool(names) and names <= steps and len(samples) == 1
                ctx.check(ok, "R01a", construct, f"`{u(c)[:60]}` integrates samples of one linspace with that linspace's returned step",
                          f"samples from {samples}, dx uses {sorted(names)}, steps available {sorted(map(str, steps))}", key_detail=f"trapezoid step {u(kw['dx'])}", loc=loc)
                if ok:
                    ls = lin[samples[0]][1]
                    rs = kwargs_of(ls).get("retstep")
                    ctx.check(rs is not None and u(rs) == "True", "R01a", construct, "the step is the one numpy returns for that grid (retstep=True)", u(ls)[:80],
                              key_detail="retstep")
            elif "x" in kw or len(c.args) > 1:
                x = kw.get("x", c.args[1] if len(c.args) > 1 else None)
                dep = closure(names_in(x))
                params = {a.arg for a in fn.args.args}
                common = (dep & used) & (set(lin) | params)
                ok = bool(common)
                ctx.check(ok, "R01a", construct, f"`{u(c)[:60]}` passes an abscissa derived from the same sample points as the integrand",
                          f"both depend on {sorted(common)}", key_detail="trapezoid abscissa", loc=loc)
            else:
                ctx.bad("R01a", construct, "trapezoid call states its step or abscissa", u(c)[:80], key_detail="unit step assumed", loc=loc)
    ctx.analysed["trapezoid_sites"] = n
    # number of samples: n = int(|b - a| / dz), grid has n + 1 points between the same bounds
    for q, m in ((BP, "z_integral"), (BT, "_direct_r"), (BT, "_indirect_r")):
        fn = repo.member(q, m)
        env = local_env(fn)
        for s in ast.walk(fn):
            if isinstance(s, ast.Assign) and is_call(s.value, func="np.linspace"):
                ls = s.value
                a, b, npts = ls.args[0], ls.args[1], ls.args[2]
                ok = isinstance(npts, ast.BinOp) and isinstance(npts.op, ast.Add) and u(npts.right) == "1" and isinstance(npts.left, ast.Name)
                if ok:
                    nd = env.get(npts.left.id)
                    ok = nd is not None and is_call(nd, func="int") and "self.dz" in u(nd) and "np.abs" in u(nd)
                    if ok:
                        inner = u(nd)
                        ok = all(tok in inner.replace(" ", "") for tok in (u(a).replace(" ", "") if len(u(a)) < 12 else u(a).replace(" ", "")[:12],))
                ctx.check(ok, "R01a", f"{q}.{m}", f"grid `{u(ls)[:70]}` has int(|b - a| / dz) + 1 points", u(env.get(npts.left.id)) if isinstance(npts, ast.BinOp) and isinstance(npts.left, ast.Name) and env.get(npts.left.id) is not None else u(npts),
                          key_detail=f"grid size {u(s.targets[0])[:20]}")


# ------------------------------------------------------------------------------------------------ R01b
def r01b(ctx):
    repo = ctx.repo
    ctx.rule("R01b", "numeric path class: tof integrand / path-length integrand == index(z)/c; attenuation integrand == path-length integrand / attenuation length",
             expected=3, kind="N")
    pl, tf = repo.member(BP, "path_length"), repo.member(BP, "tof")

    def lam(f):
        ls = [n for n in ast.walk(f) if isinstance(n, ast.Lambda)]
        return ls[0] if len(ls) == 1 else None
    lp, lt = lam(pl), lam(tf)
    if lp is None or lt is None:
        ctx.unknown("R01b", BP, "path_length and tof pass one lambda integrand each to z_integral", "")
        return
    zp, zt = lp.args.args[0].arg, lt.args.args[0].arg
    ratio = NF({zt: ast.Name(id=zp, ctx=ast.Load())} if zt != zp else {}).nf(lt.body) / NF().nf(lp.body)
    ok = ratio.equals(NF().nf(parse_expr(f"self.ice.index({zp})/scipy.constants.c")))
    ctx.check(ok, "R01b", f"{BP}.tof", "time-of-flight integrand = path-length integrand * n(z)/c", f"ratio = {ratio!r}", key_detail="tof/pathlen ratio", loc=ctx.loc("pyrex.ray_tracing", tf))
    ok = NF().nf(lp.body).equals(NF().nf(parse_expr(f"1/np.cos(self.theta({zp}))")))
    ctx.check(ok, "R01b", f"{BP}.path_length", "path-length integrand is ds/dz = 1/cos(theta(z))", u(lp.body), key_detail="pathlen integrand")
    for f in (pl, tf):
        r = returns(f)
        ctx.check(len(r) == 1 and is_call(r[0].value, name="z_integral", recv="self"), "R01b", f"{BP}.{f.name}", "the quantity is the z-integral of its integrand", u(r[0].value)[:60] if r else "",
                  key_detail="uses z_integral")
    at = repo.member(BP, "attenuation")
    inner = [n for n in ast.walk(at) if isinstance(n, ast.FunctionDef) and n is not at]
    ok = len(inner) == 1
    if ok:
        env = local_env(inner[0])
        z = inner[0].args.args[0].arg
        ok = NF().nf(env.get("partial_integrand", parse_expr("0"))).equals(NF().nf(parse_expr(f"1/np.cos(self.theta({z}))"))) \
            and u(env.get("alen")) == f"self.ice.attenuation_length({z}, fa)" and u(returns(inner[0])[0].value) == "(partial_integrand / alen.T).T"
    ctx.check(ok, "R01b", f"{BP}.attenuation", "attenuation integrand = (ds/dz) / L_att(z, |f|)", "", key_detail="attenuation integrand", loc=ctx.loc("pyrex.ray_tracing", at))
    # specialized: deep branches ratio n0/beta
    sd, spl = repo.member(SP, "_distance_integral"), repo.member(SP, "_pathlen_integral")

    def deep_ret(f):
        for n in strip_doc(f):
            if isinstance(n, ast.If) and u(n.test) == "deep":
                return n.body[0].value
        return None
    a, b = deep_ret(spl), deep_ret(sd)
    ok = a is not None and b is not None and (NF().nf(a) / NF().nf(b)).equals(NF().nf(parse_expr("ice.n0/beta")))
    ctx.check(ok, "R01b", f"{SP}._pathlen_integral", "deep (uniform-index) branches: path length / radial distance = n0 / beta = 1/sin(theta)", "", key_detail="deep ratio")


# ------------------------------------------------------------------------------------------------ R01c
def r01c(ctx):
    repo = ctx.repo
    ctx.rule("R01c", "Snell clones arcsin(sin(A) * n_from / index(z_to)) share one normal form; beta == n0 sin(theta0); z_turn == depth_with_index(beta)", expected=6, kind="N")
    mod = repo.modules["pyrex.ray_tracing"]
    sites = []
    for n in ast.walk(mod):
        if is_call(n, func="np.arcsin") and len(n.args) == 1 and "np.sin(" in u(n.args[0]) and "index(" in u(n.args[0]):
            sites.append(n)
    lay = repo.modules.get("pyrex.custom.layered_ice.ray_tracing")
    lsites = [n for n in ast.walk(lay) if is_call(n, func="np.arcsin") and len(n.args) == 1 and "np.sin(" in u(n.args[0]) and "index(" in u(n.args[0])] if lay else []
    if len(sites) < 5:
        raise AnalysisError(f"only {len(sites)} Snell conversions found in ray_tracing.py (>= 6 on the pinned tree)")
    for n in sites + lsites:
        arg = n.args[0]
        # shape: sin(A) * N1 / X.index(Z)  -> check it normalises to  sin(A)*N1*index(Z)^-1 with exactly one sin factor, one index factor in the denominator
        nf = NF().nf(arg)
        rep = repr(nf)
        fn = n
        while not isinstance(fn, ast.FunctionDef):
            fn = parent(fn)
        cls = parent(fn)
        construct = f"{cls.name}.{fn.name}" if isinstance(cls, ast.ClassDef) else fn.name
        mono = nf.den.is_const() and nf.num.monomial()
        ok = mono
        if ok:
            (k, c), = nf.num.t.items()
            sin_f = [a for a, e in k if a.startswith("numpy.sin(") and e == 1]
            idx_f = [a for a, e in k if ".index(" in a and e == -1]
            num_f = [a for a, e in k if e == 1 and not a.startswith("numpy.sin(")]
            ok = len(sin_f) == 1 and len(idx_f) == 1 and len(num_f) == 1 and len(k) == 3 and c == 1
        ctx.check(ok, "R01c", construct, f"`{u(n)[:80]}` is arcsin(sin(angle) * n_here / n_there): n sin(theta) conserved", rep[:120], key_detail=f"snell form in {construct}",
                  loc=ctx.loc("pyrex.ray_tracing" if n in sites else "pyrex.custom.layered_ice.ray_tracing", n))
    th = repo.member(BP, "theta")
    r = returns(th)
    z = th.args.args[1].arg
    ok = len(r) == 1 and NF().nf(r[0].value.args[0] if is_call(r[0].value, func="np.arcsin") else r[0].value).equals(NF().nf(parse_expr(f"np.sin(self.theta0) * self.n0 / self.ice.index({z})")))
    ctx.check(ok, "R01c", f"{BP}.theta", "theta(z) = arcsin(sin(theta0) n0 / n(z))", u(r[0].value) if r else "", key_detail="theta(z)")
    be = repo.member(BP, "beta")
    r = returns(be)
    ctx.check(len(r) == 1 and NF().nf(r[0].value).equals(NF().nf(parse_expr("self.n0 * np.sin(self.theta0)"))), "R01c", f"{BP}.beta", "beta = n0 sin(theta0) (the ray invariant)",
              u(r[0].value) if r else "", key_detail="beta")
    zt = repo.member(BP, "z_turn")
    r = returns(zt)
    ctx.check(len(r) == 1 and u(r[0].value) == "self.ice.depth_with_index(self.beta)", "R01c", f"{BP}.z_turn", "the ray turns where n(z) = beta", u(r[0].value) if r else "", key_detail="z_turn")
    n0 = repo.member(BP, "n0")
    r = returns(n0)
    ctx.check(len(r) == 1 and u(r[0].value) == "self.ice.index(self.z0)", "R01c", f"{BP}.n0", "n0 is the index at the source depth", u(r[0].value) if r else "", key_detail="n0")
    em = repo.member(BP, "emitted_direction")
    r = returns(em)
    ok = len(r) == 1 and u(r[0].value) == "np.array([np.sin(self.theta0) * np.cos(self.phi), np.sin(self.theta0) * np.sin(self.phi), np.cos(self.theta0)])"
    ctx.check(ok, "R01c", f"{BP}.emitted_direction", "emitted direction is the unit vector of polar angle theta0 and azimuth phi", "", key_detail="emitted direction")


# ------------------------------------------------------------------------------------------------ R01d
class Poly:
    __slots__ = ("t",)

    def __init__(self, t=None):
        self.t = {k: v for k, v in (t or {}).items() if v != 0}

    @staticmethod
    def const(c):
        return Poly({(): Fr(c)})

    @staticmethod
    def atom(a):
        return Poly({((a, 1),): Fr(1)})

    def __add__(s, o):
        t = dict(s.t)
        for k, v in o.t.items():
            t[k] = t.get(k, 0) + v
        return Poly(t)

    def __neg__(s):
        return Poly({k: -v for k, v in s.t.items()})

    def __sub__(s, o):
        return s + (-o)

    def __mul__(s, o):
        t = {}
        for k1, v1 in s.t.items():
            for k2, v2 in o.t.items():
                d = dict(k1)
                for a, e in k2:
                    d[a] = d.get(a, 0) + e
                k = tuple(sorted((a, e) for a, e in d.items() if e))
                t[k] = t.get(k, 0) + v1 * v2
        return Poly(t)

    def pow(s, n):
        r = Poly.const(1)
        for _ in range(n):
            r = r * s
        return r

    def is_zero(s):
        return not s.t


def P(x):
    return x if isinstance(x, Poly) else Poly.const(x)


n0, k_, a_, beta, c_, z_, E, G, A = (Poly.atom(x) for x in ("n0", "k", "a", "beta", "c", "z", "E", "G", "A"))
N = n0 - k_ * E
RELS = {"G": N * N - beta * beta, "A": n0 * n0 - beta * beta}


def reduce(p):
    changed = True
    while changed:
        changed = False
        out = Poly()
        for mono, coef in p.t.items():
            d = dict(mono)
            factor = Poly({(): coef})
            for s, sq in RELS.items():
                e = d.get(s, 0)
                if e >= 2:
                    factor = factor * sq.pow(e // 2)
                    d[s] = e % 2
                    changed = True
            rest = tuple(sorted((x, e) for x, e in d.items() if e))
            out = out + factor * Poly({rest: Fr(1)})
        p = out
    return p


class Rat:
    def __init__(s, num, den=None):
        s.num, s.den = P(num), P(den if den is not None else 1)

    def __add__(s, o):
        if isinstance(o, LogLin):
            return o + s
        o = R(o)
        return Rat(s.num * o.den + o.num * s.den, s.den * o.den)
    __radd__ = __add__

    def __neg__(s):
        return Rat(-s.num, s.den)

    def __sub__(s, o):
        if isinstance(o, LogLin):
            return (-o) + s
        return s + (-R(o))

    def __rsub__(s, o):
        return R(o) - s

    def __mul__(s, o):
        if isinstance(o, LogLin):
            return o * s
        o = R(o)
        return Rat(s.num * o.num, s.den * o.den)
    __rmul__ = __mul__

    def __truediv__(s, o):
        o = R(o)
        return Rat(s.num * o.den, s.den * o.num)

    def __rtruediv__(s, o):
        return R(o) / s

    def __pow__(s, n):
        n = int(n)
        return Rat(s.num.pow(n), s.den.pow(n)) if n >= 0 else Rat(s.den.pow(-n), s.num.pow(-n))

    def equals(s, o):
        o = R(o)
        return reduce(s.num * o.den - o.num * s.den).is_zero()


def R(x):
    if isinstance(x, (Rat, LogLin)):
        return x
    return Rat(P(x))


DERIV = {"z": Rat(1), "E": Rat(a_ * E), "G": Rat(N * (-(a_ * k_ * E)), G)}


def dpoly(p):
    out = Rat(0)
    for mono, coef in p.t.items():
        for atom, e in mono:
            if atom in DERIV:
                rest = dict(mono)
                rest[atom] = e - 1
                m = tuple(sorted((x, y) for x, y in rest.items() if y))
                out = out + Rat(Poly({m: coef * e})) * DERIV[atom]
    return out


def drat(r):
    return (dpoly(r.num) * Rat(r.den) - Rat(r.num) * dpoly(r.den)) / Rat(r.den * r.den)


class Unsupported(Exception):
    pass


class LogLin:
    """rat + sum coef_i * log(arg_i)"""

    def __init__(s, rat, logs):
        s.rat, s.logs = rat, logs

    def __add__(s, o):
        if not isinstance(o, LogLin):
            o = LogLin(R(o), [])
        return LogLin(s.rat + o.rat, s.logs + o.logs)
    __radd__ = __add__

    def __neg__(s):
        return LogLin(-s.rat, [(-cf, ar) for cf, ar in s.logs])

    def __sub__(s, o):
        return s + (-(o if isinstance(o, LogLin) else LogLin(R(o), [])))

    def __rsub__(s, o):
        return LogLin(R(o), []) - s

    def __mul__(s, o):
        if isinstance(o, LogLin):
            raise Unsupported("product of two logarithmic terms")
        o = R(o)
        return LogLin(s.rat * o, [(cf * o, ar) for cf, ar in s.logs])
    __rmul__ = __mul__

    def __truediv__(s, o):
        if isinstance(o, LogLin):
            raise Unsupported("division by a logarithmic term")
        o = R(o)
        return s * (Rat(1) / o)

    def deriv(s):
        d = drat(s.rat)
        for cf, ar in s.logs:
            if not drat(cf).equals(0):
                raise Unsupported("log coefficient depends on z")
            d = d + cf * drat(ar) / ar
        return d


def deriv(x):
    return x.deriv() if isinstance(x, LogLin) else drat(x)


class Ev(ast.NodeVisitor):
    def __init__(s, env, arm, tol_name):
        s.env, s.arm, s.tol = env, arm, tol_name

    def ev(s, n):
        return s.visit(n)

    def generic_visit(s, n):
        raise Unsupported(type(n).__name__ + ": " + ast.unparse(n)[:50])

    def visit_Constant(s, n):
        if isinstance(n.value, (int, float)) and not isinstance(n.value, bool):
            return Rat(Fr(str(n.value)))
        raise Unsupported(repr(n.value))

    def visit_Name(s, n):
        if n.id not in s.env:
            raise Unsupported("name " + n.id)
        return s.env[n.id]

    def visit_Attribute(s, n):
        src = ast.unparse(n)
        if src not in s.env:
            raise Unsupported("attribute " + src)
        return s.env[src]

    def visit_UnaryOp(s, n):
        v = s.ev(n.operand)
        return -v if isinstance(n.op, ast.USub) else v

    def visit_BinOp(s, n):
        l, r = s.ev(n.left), s.ev(n.right)
        op = type(n.op)
        if op is ast.Add:
            return l + r
        if op is ast.Sub:
            return l - r
        if op is ast.Mult:
            return l * r
        if op is ast.Div:
            return l / r
        if op is ast.Pow:
            if not (isinstance(n.right, ast.Constant) and isinstance(n.right.value, int)):
                raise Unsupported("non-integer power")
            if isinstance(l, LogLin):
                raise Unsupported("power of a logarithm")
            return l ** n.right.value
        raise Unsupported(op.__name__)

    def visit_Call(s, n):
        f = ast.unparse(n.func)
        if f == "np.exp":
            arg = s.ev(n.args[0])
            if not (isinstance(arg, Rat) and arg.equals(Rat(a_ * z_))):
                raise Unsupported("exp of something other than a*z")
            return Rat(E)
        if f == "np.sqrt":
            arg = s.ev(n.args[0])
            if isinstance(arg, Rat):
                for cand, name in ((Rat(RELS["G"]), G), (Rat(RELS["A"]), A), (Rat(RELS["G"] * RELS["A"]), A * G)):
                    if arg.equals(cand):
                        return Rat(name)
            raise Unsupported("sqrt of " + ast.unparse(n.args[0])[:40])
        if f == "np.log":
            arg = s.ev(n.args[0])
            if isinstance(arg, LogLin):
                raise Unsupported("log of log")
            return LogLin(Rat(0), [(Rat(1), arg)])
        if f == "np.where":
            cond = ast.unparse(n.args[0])
            if cond.startswith("np.isclose(beta, 0"):
                return s.ev(n.args[1] if s.arm == "beta0" else n.args[2])
            if cond.replace(" ", "") == "gamma<0":      # rounding clamp, identity on the valid domain
                return s.ev(n.args[2])
            raise Unsupported("where(" + cond[:30])
        raise Unsupported("call " + f)


def r01d(ctx):
    repo = ctx.repo
    ctx.rule("R01d", "d/dz of the closed-form z-integrals equals the integrand of radial distance / path length / time of flight (general and beta~0 arms; deep arms of distance "
             "and path length equal the n == n0 integrand)", expected=9, kind="S")
    # the assumed profile is the one AntarcticIce.index implements
    it = repo.member(SP, "_int_terms")
    nz = [s for s in strip_doc(it) if isinstance(s, ast.Assign) and u(s.targets[0]) == "n_z"]
    ok = len(nz) == 1 and NF().nf(nz[0].value).equals(NF().nf(parse_expr("ice.n0 - ice.k*np.exp(ice.a*z)")))
    from . import c16
    prof = c16.inrange_formula(repo.member("pyrex.ice_model.AntarcticIce", "index"))
    ok = ok and prof is not None and NF().nf(prof).equals(NF().nf(parse_expr("self.n0 - self.k*np.exp(self.a*z)")))
    ctx.check(ok, "R01d", f"{SP}._int_terms", "n_z is the exponential profile n0 - k exp(a z) that AntarcticIce.index implements in range", u(nz[0].value) if nz else "", key_detail="profile",
              loc=ctx.loc("pyrex.ray_tracing", it))
    base_env = {"z": Rat(z_), "beta": Rat(beta), "ice.n0": Rat(n0), "ice.k": Rat(k_), "ice.a": Rat(a_), "scipy.constants.c": Rat(c_)}
    targets = (("_distance_integral", Rat(beta, G), Rat(0), Rat(beta, A), "beta / sqrt(n^2 - beta^2)"),
               ("_pathlen_integral", Rat(N, G), Rat(1), Rat(n0, A), "n / sqrt(n^2 - beta^2)"),
               ("_tof_integral", Rat(N * N, c_ * G), Rat(N, c_), None, "n^2 / (c sqrt(n^2 - beta^2))"))
    for fn, integrand, at0, deep_want, txt in targets:
        f = repo.member(SP, fn)
        body = strip_doc(f)
        for arm in ("general", "beta0", "deep"):
            if arm == "deep" and deep_want is None:
                continue
            construct = f"{SP}.{fn}"
            what = {"general": f"d/dz of the closed form == {txt}", "beta0": "d/dz of the beta ~ 0 arm == the integrand at beta = 0",
                    "deep": "d/dz of the deep (uniform index) arm == the integrand with n == n0"}[arm]
            try:
                env = dict(base_env)
                ev = Ev(env, arm, None)
                ret = None
                for st in strip_doc(it):
                    if isinstance(st, ast.Assign) and isinstance(st.targets[0], ast.Name):
                        env[st.targets[0].id] = ev.ev(st.value)
                    elif isinstance(st, ast.Return):
                        ret = [ev.ev(e) for e in st.value.elts]
                if ret is None or not (isinstance(body[0], ast.Assign) and isinstance(body[0].targets[0], ast.Tuple)):
                    raise Unsupported("unexpected shape of _int_terms / unpacking")
                names = [e.id for e in body[0].targets[0].elts]
                if len(names) != len(ret):
                    raise Unsupported("unpacking arity")
                env.update(dict(zip(names, ret)))
                iff = body[1]
                if not (isinstance(iff, ast.If) and u(iff.test) == "deep"):
                    raise Unsupported("expected `if deep:`")
                expr_node = iff.body[0].value if arm == "deep" else iff.orelse[0].value
                expr = ev.ev(expr_node)
                d = deriv(expr)
                want = {"general": integrand, "beta0": at0, "deep": deep_want}[arm]
                ctx.check(d.equals(want), "R01d", construct, f"[{arm} arm] {what}", f"closed form: {ast.unparse(expr_node)[:110]}", key_detail=f"{arm} antiderivative",
                          loc=ctx.loc("pyrex.ray_tracing", expr_node))
            except Unsupported as e:
                ctx.unknown("R01d", construct, f"[{arm} arm] {what}", f"expression outside the modelled algebra: {e}")
    # how the closed forms are used
    for m, fn in (("path_length", "_pathlen_integral"), ("tof", "_tof_integral")):
        r = returns(repo.member(SP, m))
        ctx.check(len(r) == 1 and u(r[0].value) == f"np.abs(self.z_integral(self.{fn}))", "R01d", f"{SP}.{m}", f"{m} is |z-integral of {fn}|", u(r[0].value) if r else "", key_detail=f"{m} uses {fn}")
    rd = repo.member(ST, "_r_distance")
    ok = "self.solution_class._distance_integral" in u(rd) and "beta = np.sin(theta) * self.n0" in u(rd)
    ctx.check(ok, "R01d", f"{ST}._r_distance", "the radial distance used by the root search is the z-integral of _distance_integral at beta = n0 sin(theta)", "", key_detail="r distance")


# ------------------------------------------------------------------------------------------------ R01e
def _direct_flag_pairing(fn):
    """(True / False / None, text): how BasicRayTracer.solutions pairs the three launch angles with the `direct` flag of the paths it builds.
    True: the angles are [direct_angle, indirect_angle_1, indirect_angle_2] in that order and the flag is `position == 0` or comes from a
    (True, False, False) sequence zipped alongside; False: a constructor call whose flag contradicts that; None: not readable."""
    ANG = ["self.direct_angle", "self.indirect_angle_1", "self.indirect_angle_2"]
    lists = [n for n in ast.walk(fn) if isinstance(n, (ast.List, ast.Tuple)) and [u(e) for e in n.elts] == ANG]
    if len(lists) != 1:
        other = [n for n in ast.walk(fn) if isinstance(n, (ast.List, ast.Tuple)) and sorted(u(e) for e in n.elts) == sorted(ANG)]
        return (False, "angles listed as " + u(other[0])) if other else (None, "")
    ctor = [c for c in ast.walk(fn) if is_call(c, name="solution_class", recv="self")]
    if len(ctor) != 1:
        return None, f"{len(ctor)} constructor call(s)"
    flag = kwargs_of(ctor[0]).get("direct")
    if flag is None:
        return False, "no direct= argument: " + u(ctor[0])
    if isinstance(flag, ast.Constant):
        return False, "direct=" + u(flag)
    # the loop / comprehension target that the flag refers to
    iters = [(g.target, g.iter) for n in ast.walk(fn) if isinstance(n, (ast.ListComp, ast.GeneratorExp)) for g in n.generators] + \
            [(n.target, n.iter) for n in ast.walk(fn) if isinstance(n, ast.For)]
    if len(iters) != 1:
        return None, f"{len(iters)} loops"
    tgt, it = iters[0]
    env = local_env(fn)

    def resolve(e):
        return env.get(e.id, e) if isinstance(e, ast.Name) and e.id in env else e
    # position variable compared with 0
    if isinstance(flag, ast.Compare) and len(flag.ops) == 1 and isinstance(flag.ops[0], ast.Eq):
        a_, b_ = flag.left, flag.comparators[0]
        var, const = (a_, b_) if isinstance(a_, ast.Name) else (b_, a_)
        if not (isinstance(var, ast.Name) and isinstance(const, ast.Constant)):
            return None, u(flag)
        if const.value != 0:
            return False, "direct=" + u(flag)
        if is_call(it, func="zip") and it.args and u(it.args[0]) == "range(3)" and isinstance(tgt, ast.Tuple) and isinstance(tgt.elts[0], ast.Name) and tgt.elts[0].id == var.id \
                and len(it.args) > 1 and [u(e) for e in getattr(resolve(it.args[1]), "elts", [])] == ANG:
            return True, "zip(range(3), angles, ...) with direct = (position == 0)"
        if is_call(it, func="enumerate") and it.args and isinstance(tgt, ast.Tuple) and isinstance(tgt.elts[0], ast.Name) and tgt.elts[0].id == var.id:
            inner = resolve(it.args[0])
            first = inner.args[0] if is_call(inner, func="zip") and inner.args else inner
            if [u(e) for e in getattr(resolve(first), "elts", [])] == ANG:
                return True, "enumerate(...) over the angles with direct = (position == 0)"
        return None, u(flag)
    # a flag taken from a sequence zipped with the angles
    if isinstance(flag, ast.Name) and is_call(it, func="zip") and isinstance(tgt, ast.Tuple):
        names = [e.id if isinstance(e, ast.Name) else None for e in tgt.elts]
        if flag.id in names:
            seq = resolve(it.args[names.index(flag.id)]) if names.index(flag.id) < len(it.args) else None
            ang = [i for i, a_ in enumerate(it.args) if [u(e) for e in getattr(resolve(a_), "elts", [])] == ANG]
            if isinstance(seq, (ast.Tuple, ast.List)) and all(isinstance(e, ast.Constant) for e in seq.elts) and ang:
                vals = [e.value for e in seq.elts]
                return (True, "flags (True, False, False) zipped with the angles") if vals == [True, False, False] else (False, "flags " + u(seq))
    return None, u(flag)


def r01e(ctx):
    repo = ctx.repo
    ctx.rule("R01e", "first solution direct, others turn over; received direction flips the vertical component exactly for non-direct paths; root brackets: direct [0, max_angle] "
             "on _direct_r, indirect_1 [peak_angle, max_angle], indirect_2 [0, peak_angle or max_angle] on _indirect_r", expected=6, kind="N")
    rd = repo.member(BP, "received_direction")
    body = strip_doc(rd)
    ok = len(body) == 1 and isinstance(body[0], ast.If) and u(body[0].test) == "self.direct"
    if ok:
        d = returns(rd)
        dz = {("direct" if any(x is r for x in ast.walk(body[0].body[0])) or r in body[0].body else "indirect"): r.value for r in d}
        def zc(v):
            return v.args[0].elts[2] if is_call(v, func="np.array") and isinstance(v.args[0], (ast.List, ast.Tuple)) and len(v.args[0].elts) == 3 else None
        zd, zi = zc(dz.get("direct")), zc(dz.get("indirect"))
        env = local_env(rd)
        ok = zd is not None and zi is not None and NF().nf(zi).equals(NF().nf(parse_expr("-np.cos(self.theta(self.z1))"))) \
            and NF(env).nf(zd).equals(NF().nf(parse_expr("np.sign(np.cos(self.theta0)) * np.cos(self.theta(self.z1))")))
        hx = [u(v.args[0].elts[0]) for v in dz.values() if zc(v) is not None]
        ok = ok and all(h == "np.sin(self.theta(self.z1)) * np.cos(self.phi)" for h in hx) and len(hx) == 2
    ctx.check(ok, "R01e", f"{BP}.received_direction", "direct path keeps the launch hemisphere (sign(cos theta0)); a turned-over path arrives travelling downward (-cos theta(z1)); horizontal part "
              "sin(theta(z1)) along phi in both", "", key_detail="received direction", loc=ctx.loc("pyrex.ray_tracing", rd))
    da = repo.member(BT, "direct_angle")
    c = [x for x in ast.walk(da) if is_call(x, name="_get_launch_angle", recv="self")]
    ok = len(c) == 1 and u(c[0].args[0]) == "self._direct_r" and {k: u(v) for k, v in kwargs_of(c[0]).items()} == {"max_angle": "self.max_angle"}
    g = guards(c[0], stop=da) if c else []
    ok = ok and any(u(t) == "self.expected_solutions[0]" and pol for t, pol in g)
    ctx.check(ok, "R01e", f"{BT}.direct_angle", "direct solution: root of _direct_r on [0, max_angle], searched only when expected", u(c[0]) if c else "", key_detail="direct bracket",
              loc=ctx.loc("pyrex.ray_tracing", da))
    i1 = repo.member(BT, "indirect_angle_1")
    c = [x for x in ast.walk(i1) if is_call(x, name="_get_launch_angle", recv="self")]
    ok = len(c) == 1 and u(c[0].args[0]) == "self._indirect_r" and {k: u(v) for k, v in kwargs_of(c[0]).items()} == {"min_angle": "self.peak_angle", "max_angle": "self.max_angle"}
    g = guards(c[0], stop=i1) if c else []
    ok = ok and any(u(t) == "self.expected_solutions[1]" and pol for t, pol in g)
    ctx.check(ok, "R01e", f"{BT}.indirect_angle_1", "first indirect solution: root of _indirect_r on [peak_angle, max_angle]", u(c[0]) if c else "", key_detail="indirect 1 bracket")
    i2 = repo.member(BT, "indirect_angle_2")
    c = [x for x in ast.walk(i2) if is_call(x, name="_get_launch_angle", recv="self")]
    ok = len(c) == 1 and u(c[0].args[0]) == "self._indirect_r" and {k: u(v) for k, v in kwargs_of(c[0]).items()} == {"max_angle": "max_angle"}
    sel = [n for n in ast.walk(i2) if isinstance(n, ast.If) and u(n.test) == "self.expected_solutions[1]"]
    ok = ok and len(sel) == 1 and u(sel[0].body[0]) == "max_angle = self.peak_angle" and u(sel[0].orelse[0]) == "max_angle = self.max_angle"
    ctx.check(ok, "R01e", f"{BT}.indirect_angle_2", "second indirect solution: root of _indirect_r on [0, peak_angle] when the first exists, else [0, max_angle]", "", key_detail="indirect 2 bracket")
    gl = repo.member(BT, "_get_launch_angle")
    c = [x for x in ast.walk(gl) if is_call(x, name="angle_search", recv="self")]
    ok = len(c) == 1 and [u(a) for a in c[0].args] == ["self.rho", "r_function", "min_angle", "max_angle"]
    ctx.check(ok, "R01e", f"{BT}._get_launch_angle", "the root search solves r_function(angle) = rho on the given bracket", u(c[0]) if c else "", key_detail="root target")
    asr = repo.member(BT, "angle_search")
    c = [x for x in ast.walk(asr) if is_call(x, func="scipy.optimize.brentq")]
    ok = len(c) == 1 and [u(a) for a in c[0].args[:3]] == ["r_function", "min_angle", "max_angle"] and u(kwargs_of(c[0]).get("args")) == "true_r"
    ctx.check(ok, "R01e", f"{BT}.angle_search", "brentq(r_function, min, max, args=true_r): the functions subtract their brent_arg", u(c[0])[:100] if c else "", key_detail="brentq call")
    for q, m in ((BT, "_direct_r"), (BT, "_indirect_r"), (ST, "_direct_r"), (ST, "_indirect_r")):
        f = repo.member(q, m)
        rs = returns(f)
        ok = all(isinstance(r.value, ast.BinOp) and isinstance(r.value.op, ast.Sub) and u(r.value.right) == "brent_arg" for r in rs) and rs
        ctx.check(ok, "R01e", f"{q}.{m}", "returns (radial distance) - brent_arg on every path, so its root is the requested distance", str([u(r.value)[-30:] for r in rs]), key_detail="brent_arg subtraction")
    so = repo.member(BT, "solutions")
    r = returns(so)
    ok = len(r) == 1 and isinstance(r[0].value, ast.ListComp) and u(r[0].value.elt) == "self.solution_class(self, angle, direct=i == 0)" \
        and u(r[0].value.generators[0].iter) == "zip(range(3), angles, self.expected_solutions)" \
        and u(local_env(so).get("angles")) == "[self.direct_angle, self.indirect_angle_1, self.indirect_angle_2]"
    what = "only the first solution (the direct-angle one) is built as a direct path; the others are turned-over paths"
    if ok:
        ctx.ok("R01e", f"{BT}.solutions", what)
    else:
        # other spellings of the same pairing: the three angles in order, and a flag that is true for position 0 only
        verdict, found = _direct_flag_pairing(so)
        if verdict is True:
            ctx.ok("R01e", f"{BT}.solutions", what, found)
        elif verdict is False:
            ctx.bad("R01e", f"{BT}.solutions", what, found, key_detail="direct flag")
        else:
            ctx.unknown("R01e", f"{BT}.solutions", what, found or (u(r[0].value)[:120] if r else ""))
    ma = repo.member(BT, "max_angle")
    r = returns(ma)
    ctx.check(len(r) == 1 and NF().nf(r[0].value.args[0]).equals(NF().nf(parse_expr("self.ice.index(self.z1) / self.n0"))) and is_call(r[0].value, func="np.arcsin"), "R01e", f"{BT}.max_angle",
              "max_angle = arcsin(n(z1)/n0): the launch angle whose ray turns exactly at the higher endpoint", u(r[0].value) if r else "", key_detail="max angle")


# ------------------------------------------------------------------------------------------------ R01f
def r01f(ctx):
    """Piecing of the z-integral across z_uniform: symbolic case analysis of _z_int_uniform_correction.

    With F_d / F_s the antiderivatives valid below / above z_uniform, the integral from z0 to z1 is
        same side:                 F_x(z1) - F_x(z0)
        z0 deep,  z1 shallow:      F_s(z1) - F_d(z0) + [F_d(zu) - F_s(zu)]
        z0 shallow, z1 deep:       F_d(z1) - F_s(z0) - [F_d(zu) - F_s(zu)]
    Every return of the analytic branch is evaluated under each consistent truth assignment of its tests and compared, as a linear
    form over the atoms F_x(.), with the expected telescoped sum."""
    repo = ctx.repo
    ctx.rule("R01f", "_z_int_uniform_correction pieces the integral across z_uniform correctly in all four region cases (analytic branch) and splits the numeric "
             "branch at z_uniform with each piece in its own regime", expected=5, kind="S")
    fn = repo.member(SP, "_z_int_uniform_correction")
    c = f"{SP}._z_int_uniform_correction"
    params = [a.arg for a in fn.args.args]
    za, zb, zu, integ = params[0], params[1], params[2], params[5]

    def truth(test, case):
        """case: dict D0 (z0 below zu), D1 (z1 below zu), LT (z0 < z1) -> True/False/None(unknown)"""
        t = u(test).replace(" ", "")
        if t == f"{za}<{zu}":
            return case["D0"]
        if t == f"{zb}<{zu}":
            return case["D1"]
        if t == f"{za}<{zb}":
            return case["LT"]
        if t == f"{zb}<{za}" or t == f"{za}>{zb}":
            return not case["LT"]
        if isinstance(test, ast.Compare) and len(test.ops) == 1 and isinstance(test.ops[0], (ast.Eq, ast.NotEq)):
            l, r = truth(test.left, case), truth(test.comparators[0], case)
            if l is None or r is None:
                return None
            return (l == r) if isinstance(test.ops[0], ast.Eq) else (l != r)
        if isinstance(test, ast.UnaryOp) and isinstance(test.op, ast.Not):
            v = truth(test.operand, case)
            return None if v is None else not v
        if isinstance(test, ast.Name) and test.id in case:
            return case[test.id]
        return None

    def F(call, case):
        """atom for integrand(<z>, ..., deep=<expr>)"""
        if not (isinstance(call, ast.Call) and u(call.func) == integ and call.args):
            return None
        arg = u(call.args[0])
        kw = kwargs_of(call)
        d = kw.get("deep")
        if d is None:
            return None
        if isinstance(d, ast.Constant):
            deep = bool(d.value)
        else:
            deep = truth(d, case)
        if deep is None:
            return None
        return f"F{'d' if deep else 's'}_{arg}"

    def run_block(stmts, case, env):
        for st in stmts:
            if isinstance(st, ast.Assign) and isinstance(st.targets[0], ast.Name):
                env[st.targets[0].id] = st.value
            elif isinstance(st, ast.If):
                v = truth(st.test, case)
                if v is None:
                    return ("unknown", u(st.test))
                r = run_block(st.body if v else st.orelse, case, env)
                if r is not None:
                    return r
            elif isinstance(st, ast.Return):
                return ("ret", st.value)
            elif isinstance(st, ast.Raise):
                return ("raise", None)
            elif isinstance(st, ast.With):
                r = run_block(st.body, case, env)
                if r is not None:
                    return r
        return None

    def lin(expr, case, env, depth=0):
        """linear form {atom: coef} of a return expression over F-atoms"""
        if isinstance(expr, ast.Name) and expr.id in env and depth < 6:
            return lin(env[expr.id], case, env, depth + 1)
        a = F(expr, case)
        if a is not None:
            return {a: 1}
        if isinstance(expr, ast.BinOp) and isinstance(expr.op, (ast.Add, ast.Sub)):
            l, r = lin(expr.left, case, env, depth), lin(expr.right, case, env, depth)
            if l is None or r is None:
                return None
            out = dict(l)
            sg = 1 if isinstance(expr.op, ast.Add) else -1
            for k, v in r.items():
                out[k] = out.get(k, 0) + sg * v
            return {k: v for k, v in out.items() if v}
        if isinstance(expr, ast.UnaryOp) and isinstance(expr.op, ast.USub):
            l = lin(expr.operand, case, env, depth)
            return None if l is None else {k: -v for k, v in l.items()}
        return None
    body = strip_doc(fn)
    cases = [("both deep", {"D0": True, "D1": True}), ("both shallow", {"D0": False, "D1": False}),
             ("upward through z_uniform", {"D0": True, "D1": False, "LT": True}), ("downward through z_uniform", {"D0": False, "D1": True, "LT": False})]
    for label, base in cases:
        for lt in ([True, False] if "LT" not in base else [base["LT"]]):
            case = dict(base, LT=lt, numerical=False, derivative_special_case=False)
            x, y = ("d" if case["D0"] else "s"), ("d" if case["D1"] else "s")
            want = {f"F{y}_{zb}": 1, f"F{x}_{za}": -1}
            if x != y:
                sg = 1 if case["D0"] else -1
                want[f"Fd_{zu}"] = want.get(f"Fd_{zu}", 0) + sg
                want[f"Fs_{zu}"] = want.get(f"Fs_{zu}", 0) - sg
            env = {}
            r = run_block(body, case, env)
            what = f"[{label}{'' if 'LT' in base else ', z0<z1' if lt else ', z0>z1'}] analytic integral = telescoped antiderivatives with the jump at z_uniform"
            if r is None or r[0] != "ret":
                ctx.unknown("R01f", c, what, f"control flow not resolved: {r}")
                continue
            got = lin(r[1], case, env)
            if got is None:
                ctx.unknown("R01f", c, what, f"return `{u(r[1])}` is not a linear combination of integrand values")
                continue
            ctx.check(got == want, "R01f", c, what, f"returned {got}, expected {want}", key_detail=f"piecing: {label}", loc=ctx.loc("pyrex.ray_tracing", r[1]))
    # numeric branch: one piece on the same side; otherwise [z0, zu] in z0's regime + [zu, z1] in z1's regime
    num = [n for n in ast.walk(fn) if isinstance(n, ast.If) and u(n.test) == "numerical"]
    ok = len(num) == 1
    if ok:
        same = [n for n in num[0].body if isinstance(n, ast.If) and isinstance(n.test, ast.Compare) and f"{za} < {zu}" in u(n.test) and f"{zb} < {zu}" in u(n.test)]
        ok = len(same) == 1
        if ok:
            env1 = local_env_block(same[0].body)
            r1 = [x for x in same[0].body if isinstance(x, ast.Return)]
            ok = len(r1) == 1 and is_call(r1[0].value, func=integ) and u(kwargs_of(r1[0].value).get("deep")) == f"{za} < {zu}" \
                and is_call(env1.get(u(r1[0].value.args[0])), func="np.linspace") and [u(a) for a in env1[u(r1[0].value.args[0])].args[:2]] == [za, zb]
            env2 = local_env_block(same[0].orelse)
            r2 = [x for x in same[0].orelse if isinstance(x, ast.Return)]
            ok2 = len(r2) == 1 and isinstance(r2[0].value, ast.BinOp) and isinstance(r2[0].value.op, ast.Add)
            if ok2:
                pieces = [r2[0].value.left, r2[0].value.right]
                desc = []
                for pc in pieces:
                    if not is_call(pc, func=integ):
                        ok2 = False
                        break
                    g = env2.get(u(pc.args[0]))
                    desc.append((tuple(u(a) for a in g.args[:2]) if is_call(g, func="np.linspace") else None, u(kwargs_of(pc).get("deep"))))
                ok2 = ok2 and sorted(desc, key=str) == sorted([((za, zu), f"{za} < {zu}"), ((zu, zb), f"{zb} < {zu}")], key=str)
            ok = ok and ok2
    ctx.check(ok, "R01f", c, "numeric branch: a single grid when both ends are on one side of z_uniform, else [z0, z_uniform] in z0's regime plus [z_uniform, z1] in z1's regime",
              "", key_detail="numeric piecing")
    # call sites: direct path integrates z0 -> z1; a turned-over path integrates z0 -> z_turn and z1 -> z_turn and adds the two
    zi = repo.member(SP, "z_integral")
    cs = [x for x in ast.walk(zi) if is_call(x, name="_z_int_uniform_correction", recv="self")]
    lims = sorted((u(x.args[0]), u(x.args[1])) for x in cs)
    ok = lims == sorted([("self.z0", "self.z1"), ("self.z0", "self.z_turn"), ("self.z1", "self.z_turn")]) and all(u(x.args[2]) == "self.z_uniform" for x in cs)
    r = [u(x.value) for x in returns(zi)]
    ctx.check(ok and "int_1 + int_2" in r, "R01f", f"{SP}.z_integral", "direct: z0 -> z1; turned over: (z0 -> z_turn) + (z1 -> z_turn), each pieced at z_uniform", str(lims), key_detail="integration limits")


def local_env_block(stmts):
    env = {}
    for st in stmts:
        for n in ast.walk(st):
            if isinstance(n, ast.Assign) and isinstance(n.targets[0], ast.Name):
                env[n.targets[0].id] = n.value
    return env


def r01g(ctx):
    """the endpoints a tracer reports are its own: constructors copy the endpoint arguments (= R06e), so cached solutions keep joining the
    endpoints the object reports even if the caller later edits its arrays in place"""
    from . import c06
    ctx.rule("R01g", "gradient tracers keep private copies of their endpoints (= R06e)", expected=2, kind="N")
    sub = type(ctx)(ctx.repo, ctx.prop, ctx.tier)
    c06.r06e(sub, [ctx.repo.cls(BT), ctx.repo.cls(ST)])
    for o in sub.obs:
        o.rule = "R01g"
        ctx.obs.append(o)


def r01h(ctx):
    repo = ctx.repo
    ctx.rule("R01h", "the first solution is launched towards the receiver: tracing runs from the lower to the higher endpoint (z0 = min, z1 = max of the endpoint depths) and the "
             "direct launch angle is mirrored (pi - angle) exactly when the source is the higher one", expected=1, kind="N")
    fn = repo.member("pyrex.ray_tracing.BasicRayTracer", "direct_angle")
    flips = [n for n in ast.walk(fn) if isinstance(n, ast.If) and any(isinstance(s, ast.Assign) and "np.pi" in u(s.value) for s in n.body)]
    ok = (len(flips) == 1 and u(flips[0].test).replace(" ", "") in ("self.from_point[2]>self.to_point[2]", "self.to_point[2]<self.from_point[2]")
          and [u(s) for s in flips[0].body] == ["launch_angle = np.pi - launch_angle"] and not flips[0].orelse)
    ctx.check(ok, "R01h", "pyrex.ray_tracing.BasicRayTracer.direct_angle", "mirror decided by the true endpoints from_point / to_point (z0 <= z1 always, so a test on them never mirrors)",
              u(flips[0].test) if flips else "no mirror", key_detail="direct angle mirror", loc=ctx.loc("pyrex.ray_tracing", fn))
    over = [ci.qual for ci in repo.subclasses("BasicRayTracer") if any(isinstance(st, ast.FunctionDef) and st.name == "direct_angle" for st in ci.node.body)]
    ctx.check(not over, "R01h", "pyrex.ray_tracing.BasicRayTracer.direct_angle", "no tracer overrides direct_angle", str(over), key_detail="direct angle overrides")


def run(ctx):
    ctx.guard(r01h)
    ctx.guard(r01g)
    ctx.guard(r01f)
    ctx.guard(r01a)
    ctx.guard(r01b)
    ctx.guard(r01c)
    ctx.guard(r01d)
    ctx.guard(r01e)


SELFTEST = {
    "faults": [
        {"name": "mirror decided by the sorted depths", "file": "pyrex/ray_tracing.py", "old": "            if self.from_point[2] > self.to_point[2]:", "new": "            if self.z0 > self.z1:", "rule": "R01h"},
        {"name": "direction of travel ignored when crossing z_uniform", "file": "pyrex/ray_tracing.py",
         "old": "                    if z0<z1:\n                        return int_z1 - int_z0 + int_diff\n                    else:\n                        return int_z1 - int_z0 - int_diff",
         "new": "                    return int_z1 - int_z0 + int_diff", "rule": "R01f"},
        {"name": "numeric piece in the wrong regime", "file": "pyrex/ray_tracing.py", "old": "                                      deep=z1<z_uniform, **integrand_kwargs))", "new": "                                      deep=z0<z_uniform, **integrand_kwargs))",
         "rule": "R01f"},
        {"name": "+sqrt(alpha*gamma) in log_term_1", "file": "pyrex/ray_tracing.py", "old": "        log_term_1 = ice.n0*n_z - beta**2 - np.sqrt(alpha*gamma)", "new": "        log_term_1 = ice.n0*n_z - beta**2 + np.sqrt(alpha*gamma)",
         "rule": "R01d"},
        {"name": "beta for n0 in _pathlen_integral", "file": "pyrex/ray_tracing.py", "old": "                            (ice.n0/np.sqrt(alpha) * (-z + np.log(log_1)/ice.a)\n                             + np.log(log_2) / ice.a))",
         "new": "                            (beta/np.sqrt(alpha) * (-z + np.log(log_1)/ice.a)\n                             + np.log(log_2) / ice.a))", "rule": "R01d", "construct": "_pathlen_integral"},
        {"name": "n0 for n0**2 in _tof_integral", "file": "pyrex/ray_tracing.py", "old": "                               ice.n0**2*np.log(log_1)/np.sqrt(alpha))/ice.a) -", "new": "                               ice.n0*np.log(log_1)/np.sqrt(alpha))/ice.a) -",
         "rule": "R01d", "construct": "_tof_integral"},
        {"name": "trapz with the nominal dz", "file": "pyrex/ray_tracing.py", "old": "            return trapz(integrand(zs), dx=np.abs(dz), axis=0)", "new": "            return trapz(integrand(zs), dx=self.dz, axis=0)",
         "rule": "R01a"},
        {"name": "received direction never flipped", "file": "pyrex/ray_tracing.py", "old": "                             -np.cos(self.theta(self.z1))])", "new": "                             np.cos(self.theta(self.z1))])", "rule": "R01e"},
        {"name": "indirect bracket swapped", "file": "pyrex/ray_tracing.py", "old": "                                          min_angle=self.peak_angle,\n                                          max_angle=self.max_angle)",
         "new": "                                          min_angle=self.max_angle,\n                                          max_angle=self.peak_angle)", "rule": "R01e"},
        {"name": "Snell ratio inverted in theta(z)", "file": "pyrex/ray_tracing.py", "old": "        return np.arcsin(np.sin(self.theta0) * self.n0/self.ice.index(z))", "new": "        return np.arcsin(np.sin(self.theta0) * self.ice.index(z)/self.n0)",
         "rule": "R01c"},
        {"name": "tof integrand without 1/c", "file": "pyrex/ray_tracing.py", "old": "        return self.z_integral(lambda z: self.ice.index(z) / scipy.constants.c\n                               / np.cos(self.theta(z)))",
         "new": "        return self.z_integral(lambda z: self.ice.index(z)\n                               / np.cos(self.theta(z)))", "rule": "R01b"},
        {"name": "beta~0 arm of the path length returns -z", "file": "pyrex/ray_tracing.py", "old": "                            z,\n                            (ice.n0/np.sqrt(alpha) * (-z + np.log(log_1)/ice.a)", "new": "                            -z,\n                            (ice.n0/np.sqrt(alpha) * (-z + np.log(log_1)/ice.a)",
         "rule": "R01d"},
        {"name": "direct path built for every solution", "file": "pyrex/ray_tracing.py", "old": "        return [self.solution_class(self, angle, direct=(i==0))", "new": "        return [self.solution_class(self, angle, direct=True)",
         "rule": "R01e"},
    ],
    "benign": [
        {"name": "log terms reordered", "file": "pyrex/ray_tracing.py", "old": "        log_term_1 = ice.n0*n_z - beta**2 - np.sqrt(alpha*gamma)", "new": "        log_term_1 = -np.sqrt(alpha*gamma) - beta**2 + n_z*ice.n0"},
    ],
}
