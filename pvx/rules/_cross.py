"""A clause that two properties need is decided once and reported under both names: relay() evaluates a rule function of another property's
module in a scratch context and re-files its obligations under this property's rule id (same constructs, same keys, same gate)."""


def relay(ctx, new_rule, text, other_prop, other_fn, other_rule, **rule_kw):
    ctx.rule(new_rule, text, **rule_kw)
    sub = type(ctx)(ctx.repo, other_prop, ctx.tier)
    sub.guard(other_fn)
    n = 0
    for o in sub.obs:
        if o.rule.upper() != other_rule.upper():
            if o.status == "undecided" and o.required and o.rule.upper().startswith(other_rule.upper()[:4]):
                ctx.unknown(new_rule, o.construct, o.what, o.detail, loc=o.loc)
            continue
        n += 1
        if o.status == "violated":
            ctx.bad(new_rule, o.construct, o.what, o.detail, key_detail=o.key_detail, loc=o.loc, pointed=getattr(o, "pointed", False))
        elif o.status == "proved":
            ctx.ok(new_rule, o.construct, o.what, o.detail, loc=o.loc)
        else:
            ctx.unknown(new_rule, o.construct, o.what, o.detail, required=o.required, loc=o.loc)
    return n
