"""C02 -- ray solution sets respect reciprocity and the symmetries of stratified ice (structural clauses)."""
import ast

from ..core.source import AnalysisError, parent
from ..core.ai import Interp, Obj, Fn, Tup
from ..core.domains.affine import Affine
from ..core.domains.parity import Parity
from ..core.astutil import strip_doc, calls, is_call, kwargs_of, guards, u, returns, names_in, parse_expr
from ..core.exprnf import NF, local_env

META = {
    "explanation": "R02a abstract interpretation in the affine ('point vs vector') domain: the horizontal components of from_point / to_point get translation "
                   "weight 1, depth weight 0; every derived quantity of the path and tracer classes that must be invariant under a common horizontal shift "
                   "(rho, phi, n0, beta, z_turn, directions, path length, time of flight, attenuation, Fresnel factors, launch angles, existence) must come out "
                   "with weight 0, and the coordinates that move with the geometry (_points, coordinates x/y) with weight 1.  A definite mixed value (a "
                   "weight-0 value stored into an array of weight-1 points, a nonlinear function of a weight-1 value) is a violation naming the statement "
                   "that creates it.  R02b swap-parity domain: the quantities that decide existence and the number of solutions of the gradient tracers are "
                   "symmetric under exchanging the endpoints.  R02c every list returned by expected_solutions has 0 or 2 True entries and exists == "
                   "(True in expected_solutions).  R02d uniform / layered: exists <=> non-empty solution list.",
    "not_decided": ["equality of lengths / times / attenuations of the swapped path (numerical)", "rotation about the vertical axis (only rho is shown invariant; phi's "
                    "covariance is not typed)", "`angle is None` after a non-converged root search", "LayeredRayTracer.solutions as a whole (too dynamic for the interpreter; "
                    "its point construction is checked by R18d)"],
    "trusted_base": ["CPython ast", "summary tables of the affine and parity domains"],
    "assumptions": ["ice models are stratified: they read only the depth component (checked for the shipped models by construction of the summaries)"],
}

ICE = {"BasicRayTracePath": "pyrex.ice_model.AntarcticIce", "SpecializedRayTracePath": "pyrex.ice_model.AntarcticIce",
       "BasicRayTracer": "pyrex.ice_model.AntarcticIce", "SpecializedRayTracer": "pyrex.ice_model.AntarcticIce",
       "UniformRayTracePath": "pyrex.ice_model.UniformIce", "UniformRayTracer": "pyrex.ice_model.UniformIce",
       "LayeredRayTracePath": "pyrex.custom.layered_ice.ice_model.LayeredIce", "LayeredRayTracer": "pyrex.custom.layered_ice.ice_model.LayeredIce"}
QUAL = {"BasicRayTracePath": "pyrex.ray_tracing", "SpecializedRayTracePath": "pyrex.ray_tracing", "BasicRayTracer": "pyrex.ray_tracing",
        "SpecializedRayTracer": "pyrex.ray_tracing", "UniformRayTracePath": "pyrex.ray_tracing", "UniformRayTracer": "pyrex.ray_tracing",
        "LayeredRayTracePath": "pyrex.custom.layered_ice.ray_tracing", "LayeredRayTracer": "pyrex.custom.layered_ice.ray_tracing"}
INV = ["rho", "phi", "z0", "z1", "n0", "beta", "z_turn", "emitted_direction", "received_direction", "path_length", "tof", "fresnel", "max_angle", "peak_angle",
       "direct_r_max", "indirect_r_max", "exists", "expected_solutions", "direct_angle", "indirect_angle_1", "indirect_angle_2", "z_uniform"]
COV = ["_points", "coordinates"]
LAYERED_TRACER_MEMBERS = ["rho", "phi", "z0", "z1", "n0"]


def r02a(ctx):
    repo = ctx.repo
    ctx.rule("R02a", "affine typing: invariant members have translation weight 0, point-valued members weight 1 (x, y) / 0 (z); no definite mixed value", expected=60, kind="S")
    dom = Affine()
    it = Interp(repo, dom, depth=10)
    U = dom.U

    def PT():
        return dom.vec([dom.W(1), dom.W(1), dom.W(0)])
    for name in ICE:
        q = f"{QUAL[name]}.{name}"
        ci = repo.cls(q)
        members = INV + COV + ["attenuation"]
        if name == "LayeredRayTracer":
            members = LAYERED_TRACER_MEMBERS
        for member in members:
            owner, ent = ci.lookup(member)
            if ent is None or ent[0] == "classattr":
                continue
            it.notes.clear()
            # a layered path is a chain of single-layer paths: seed one uniform sub-path whose endpoints are points
            sub = Obj(repo.cls("pyrex.ray_tracing.UniformRayTracePath"), {"from_point": PT(), "to_point": PT(), "theta0": U, "direct": U, "_reflections": U,
                                                                           "ice": Obj(repo.cls("pyrex.ice_model.UniformIce"), {})})
            o = Obj(ci, {"from_point": PT(), "to_point": PT(), "theta0": U, "ice": Obj(repo.cls(ICE[name]), {}), "dz": U, "direct": U, "_reflections": U,
                         "paths": Tup([sub])})
            try:
                if ent[0] in ("lazy", "property"):
                    v = it.getattr_obj(o, member, 0)
                elif member == "attenuation":
                    v = it.call_fn(it.getattr_obj(o, member, 0), [U], {}, 0)
                else:
                    continue
            except RecursionError:
                ctx.unknown("R02a", f"{q}.{member}", "member can be typed", "recursion limit", required=False)
                continue
            fv = it.flat(v)
            construct = f"{q}.{member}"
            loc = ctx.loc(owner.module, ent[1])
            if member in COV:
                comps = v.items if isinstance(v, Tup) else (v.comps if getattr(v, "kind", None) in ("rows", "vec") else None)
                flat = [it.flat(c) for c in comps] if comps is not None else None
                what = "coordinates move with the geometry: x and y have translation weight 1, z weight 0"
                if flat is not None and len(flat) == 3 and all(getattr(c, "kind", None) == "w" for c in flat):
                    ok = flat[0].w == 1 and flat[1].w == 1 and flat[2].w == 0
                    ctx.check(ok, "R02a", construct, what, str(flat), key_detail="translation covariance", loc=loc)
                elif fv.kind == "bad":
                    ctx.bad("R02a", origin_construct(fv, construct), what, fv.why, key_detail="translation invariance", loc=loc)
                else:
                    ctx.unknown("R02a", construct, what, repr(v)[:120], required=False)
                continue
            what = "value is invariant under a common horizontal translation of both endpoints (weight 0)"
            if fv.kind == "bad":
                ctx.bad("R02a", origin_construct(fv, construct), what, fv.why, key_detail="translation invariance", loc=loc)
            elif fv.kind == "top":
                ctx.unknown("R02a", construct, what, f"{fv!r} notes={sorted(set(it.notes))[:2]}", required=member not in ("peak_angle",), loc=loc)
            elif dom.is_untracked(fv):
                ctx.ok("R02a", construct, what, repr(fv), loc=loc)
            else:
                ctx.bad("R02a", construct, what, f"value still carries translation weight: {fv!r}", key_detail="translation invariance", loc=loc)


def origin_construct(fv, fallback):
    """The statement that created the definite broken value (provenance recorded by the domain): report it once."""
    import re
    m = re.search(r"@ ([\w.]+):(\w+) line \d+: (.*)$", fv.why)
    if m:
        # name the origin by class and statement text (member name is not known to the domain): module:Class
        return f"{m.group(1)}.{m.group(2)}`{m.group(3)[:50]}`"
    return fallback


def r02b(ctx):
    repo = ctx.repo
    ctx.rule("R02b", "swap parity: z0, z1, n0, rho, max_angle, direct_r_max, indirect_r_max, peak_angle, expected_solutions, exists are symmetric under "
             "from_point <-> to_point for both gradient tracers", expected=20, kind="S")
    dom = Parity()
    it = Interp(repo, dom, depth=12)
    SYM = ["z0", "z1", "n0", "rho", "max_angle", "direct_r_max", "indirect_r_max", "peak_angle", "expected_solutions", "exists"]
    for q in ("pyrex.ray_tracing.BasicRayTracer", "pyrex.ray_tracing.SpecializedRayTracer"):
        ci = repo.cls(q)
        for m in SYM:
            it.notes.clear()
            o = Obj(ci, {"from_point": dom.end("A"), "to_point": dom.end("B"), "ice": Obj(repo.cls("pyrex.ice_model.AntarcticIce"), {}), "dz": dom.U})
            v = it.flat(it.getattr_obj(o, m, 0))
            owner, kind, fn = repo.lookup(q, m)
            what = "value is unchanged when source and receiver are exchanged"
            if v.k == "sym":
                ctx.ok("R02b", f"{q}.{m}", what, "Sym", loc=ctx.loc(owner.module, fn))
            elif v.k in ("asym", "end", "anti"):
                ctx.bad("R02b", f"{q}.{m}", what, repr(v)[:200], key_detail="endpoint asymmetry", loc=ctx.loc(owner.module, fn))
            else:
                ctx.unknown("R02b", f"{q}.{m}", what, repr(v)[:120], loc=ctx.loc(owner.module, fn))
    # the conversion back to the true launch angle
    fn = repo.member("pyrex.ray_tracing.BasicRayTracer", "direct_angle")
    flips = [n for n in ast.walk(fn) if isinstance(n, ast.If) and u(n.test) == "self.from_point[2] > self.to_point[2]"]
    ok = len(flips) == 1 and [u(s) for s in flips[0].body] == ["launch_angle = np.pi - launch_angle"] and not flips[0].orelse
    ctx.check(ok, "R02b", "pyrex.ray_tracing.BasicRayTracer.direct_angle", "tracing runs from the lower to the higher endpoint; the direct angle is mirrored (pi - angle) exactly when the source is the higher one",
              u(flips[0].test) if flips else "", key_detail="direct angle mirror", loc=ctx.loc("pyrex.ray_tracing", fn))
    for m, want in (("z0", "min([self.from_point[2], self.to_point[2]])"), ("z1", "max([self.from_point[2], self.to_point[2]])")):
        f2 = repo.lookup("pyrex.ray_tracing.BasicRayTracer", m)[2]
        r = returns(f2)
        ok = len(r) == 1 and u(r[0].value).replace("(", "").replace(")", "").replace("[", "").replace("]", "") == want.replace("(", "").replace(")", "").replace("[", "").replace("]", "")
        ctx.check(ok, "R02b", f"pyrex.ray_tracing.BasicRayTracer.{m}", f"{m} is the {'lower' if m == 'z0' else 'higher'} of the two endpoint depths", u(r[0].value) if r else "", key_detail=f"{m} definition")
    gl = repo.member("pyrex.ray_tracing.BasicRayTracer", "_get_launch_angle")
    r = returns(gl)
    ok = len(r) == 1 and NF().nf(r[0].value).equals(NF().nf(parse_expr("np.arcsin(np.sin(launch_angle) * self.n0 / self.ice.index(self.from_point[2]))")))
    ctx.check(ok, "R02b", "pyrex.ray_tracing.BasicRayTracer._get_launch_angle", "the angle found at the lower endpoint is converted to the source depth by Snell's law (n sin(theta) conserved)",
              u(r[0].value) if r else "", key_detail="launch angle conversion")


def r02c(ctx):
    repo = ctx.repo
    ctx.rule("R02c", "solution count: every list returned by expected_solutions has 0 or 2 True; exists == True in expected_solutions; solutions iterates "
             "(direct, indirect_1, indirect_2) with direct = (i == 0)", expected=4, kind="N")
    q = "pyrex.ray_tracing.BasicRayTracer"
    fn = repo.member(q, "expected_solutions")
    rets = returns(fn)
    lists = []
    for r in rets:
        if isinstance(r.value, ast.List) and all(isinstance(e, ast.Constant) and isinstance(e.value, bool) for e in r.value.elts):
            lists.append([e.value for e in r.value.elts])
        else:
            ctx.unknown("R02c", f"{q}.expected_solutions", "every return is a literal list of booleans", u(r.value))
    ok = bool(lists) and all(len(l) == 3 and sum(l) in (0, 2) for l in lists)
    ctx.check(ok, "R02c", f"{q}.expected_solutions", "a gradient-index tracer expects either no solution or two (each returned table has 0 or 2 True of 3)", str(lists),
              key_detail="solution count table", loc=ctx.loc("pyrex.ray_tracing", fn))
    first = strip_doc(fn)[0]
    ok = isinstance(first, ast.If) and u(first.test) == "not (self.ice.contains(self.from_point) and self.ice.contains(self.to_point))" and u(first.body[0]) == "return [False, False, False]"
    ctx.check(ok, "R02c", f"{q}.expected_solutions", "both endpoints must be inside the ice (symmetric test), else no solutions", u(first.test) if isinstance(first, ast.If) else "",
              key_detail="containment test")
    chain = [n for n in strip_doc(fn) if isinstance(n, ast.If) and "self.rho" in u(n.test)]
    ok = len(chain) == 1 and u(chain[0].test) == "self.rho < self.direct_r_max" and u(chain[0].body[0]) == "return [True, False, True]" \
        and len(chain[0].orelse) == 1 and u(chain[0].orelse[0].test) == "self.rho < self.indirect_r_max" and u(chain[0].orelse[0].body[0]) == "return [False, True, True]"
    ctx.check(ok, "R02c", f"{q}.expected_solutions", "rho < direct_r_max -> direct + second indirect; rho < indirect_r_max -> both indirect; else none", "", key_detail="existence decision")
    ex = repo.member(q, "exists")
    r = returns(ex)
    ctx.check(len(r) == 1 and u(r[0].value) == "True in self.expected_solutions", "R02c", f"{q}.exists", "exists is true exactly when some solution is expected", u(r[0].value) if r else "",
              key_detail="exists definition")
    so = repo.member(q, "solutions")
    env = local_env(so)
    ok = u(env.get("angles")) == "[self.direct_angle, self.indirect_angle_1, self.indirect_angle_2]"
    r = returns(so)
    ok = ok and len(r) == 1 and isinstance(r[0].value, ast.ListComp)
    if ok:
        lc = r[0].value
        g = lc.generators[0]
        ok = u(g.iter) == "zip(range(3), angles, self.expected_solutions)" and [u(c) for c in g.ifs] == ["exists and angle is not None"] \
            and u(lc.elt) == "self.solution_class(self, angle, direct=i == 0)"
    what = "paths are built in the order (direct, indirect 1, indirect 2) for the expected solutions; only the first is flagged direct"
    if ok:
        ctx.ok("R02c", f"{q}.solutions", what)
    else:
        from .c01 import _direct_flag_pairing
        verdict, found = _direct_flag_pairing(so)
        paired = any(u(n) == "self.expected_solutions" and isinstance(parent(n), ast.Call) and u(parent(n).func) == "zip" for n in ast.walk(so))
        ctor = [c for c in ast.walk(so) if is_call(c, name="solution_class", recv="self")]
        conds = []
        if len(ctor) == 1:
            n = parent(ctor[0])
            while n is not None and n is not so:
                if isinstance(n, ast.If):
                    conds.append(u(n.test))
                if isinstance(n, (ast.ListComp, ast.GeneratorExp)):
                    conds.extend(u(c) for g in n.generators for c in g.ifs)
                n = parent(n)
        filtered = any("is not None" in c for c in conds) and len(conds) >= 1 and (len(conds) >= 2 or " and " in " ".join(conds))
        # positive evidence: the launch angle itself tested for truth (0.0, straight up, is a legitimate angle)
        avar = ctor[0].args[1].id if len(ctor) == 1 and len(ctor[0].args) > 1 and isinstance(ctor[0].args[1], ast.Name) else None
        truthy = False
        for c_ in conds:
            t_ = parse_expr(c_)
            for n_ in ast.walk(t_):
                ops = n_.values if isinstance(n_, ast.BoolOp) else ([n_.operand] if isinstance(n_, ast.UnaryOp) and isinstance(n_.op, ast.Not) else ([t_] if n_ is t_ else []))
                if any(isinstance(o, ast.Name) and o.id == avar for o in ops):
                    truthy = True
        if truthy:
            verdict, found = False, f"`{avar}` is tested for truth in {conds}: a launch angle of 0.0 is dropped"
        if verdict is True and paired and filtered:
            ctx.ok("R02c", f"{q}.solutions", what, found)
        elif verdict is False:
            ctx.bad("R02c", f"{q}.solutions", what, found, key_detail="solutions order")
        else:
            ctx.unknown("R02c", f"{q}.solutions", what, f"{found}; conditions {conds}")
    sub = repo.cls("pyrex.ray_tracing.SpecializedRayTracer")
    over = [m for m in ("expected_solutions", "exists", "solutions") if m in sub.methods]
    ctx.check(not over, "R02c", "pyrex.ray_tracing.SpecializedRayTracer", "the specialized tracer inherits the existence logic", str(over), key_detail="override")


def r02d(ctx):
    repo = ctx.repo
    ctx.rule("R02d", "exists <=> non-empty solutions for the uniform and layered tracers", expected=2, kind="S")
    q = "pyrex.ray_tracing.UniformRayTracer"
    so = repo.member(q, "solutions")
    body = strip_doc(so)
    ok = isinstance(body[0], ast.If) and u(body[0].test) == "not self.exists" and u(body[0].body[0]) == "return []"
    others = [r for r in returns(so) if u(r.value) != "[]"]
    ok = ok and len(others) == 1 and isinstance(others[0].value, ast.Name)
    if ok:
        nm = others[0].value.id
        init = [s for s in body if isinstance(s, ast.Assign) and u(s.targets[0]) == nm]
        ok = len(init) == 1 and isinstance(init[0].value, ast.List) and len(init[0].value.elts) >= 1
        shrink = [c for c in ast.walk(so) if isinstance(c, ast.Call) and isinstance(c.func, ast.Attribute) and u(c.func.value) == nm and c.func.attr in ("pop", "remove", "clear")]
        ok = ok and not shrink
    ctx.check(ok, "R02d", f"{q}.solutions", "no solutions exactly when exists is false: otherwise the list starts with the direct path and only grows", "",
              key_detail="uniform exists <=> solutions", loc=ctx.loc("pyrex.ray_tracing", so))
    ex = repo.member(q, "exists")
    r = returns(ex)
    want = "self.ice.valid_range[0] <= self.z0 <= self.ice.valid_range[1] and self.ice.valid_range[0] <= self.z1 <= self.ice.valid_range[1]"
    ctx.check(len(r) == 1 and u(r[0].value) == want, "R02d", f"{q}.exists", "a uniform-ice path exists iff both endpoints are inside the ice (symmetric in the endpoints)",
              u(r[0].value) if r else "", key_detail="uniform exists")
    q = "pyrex.custom.layered_ice.ray_tracing.LayeredRayTracer"
    ex = repo.member(q, "exists")
    r = returns(ex)
    ok = len(r) == 1 and u(r[0].value).replace(" ", "") in ("len(self.solutions)>0", "len(self.solutions)!=0", "bool(self.solutions)")
    ctx.check(ok, "R02d", f"{q}.exists", "exists is defined as 'the solution list is non-empty'", u(r[0].value) if r else "", key_detail="layered exists")


def r02e(ctx):
    """azimuthal pairing: wherever a horizontal position is built from a radial distance, x pairs with cos(phi) and the source's x,
    y with sin(phi) and the source's y (necessary for covariance under rotations about the vertical axis)."""
    repo = ctx.repo
    ctx.rule("R02e", "azimuth pairing: x = from_point[0] + r*cos(phi), y = from_point[1] + r*sin(phi) in every coordinate construction; directions use (sin t cos phi, sin t sin phi, .)",
             expected=6, kind="N")
    sites = [("pyrex.ray_tracing.UniformRayTracePath", "_points", [("points[1:, 0]", 0, "cos"), ("points[1:, 1]", 1, "sin")]),
             ("pyrex.ray_tracing.BasicRayTracePath", "coordinates", [("xs", 0, "cos"), ("ys", 1, "sin")]),
             ("pyrex.ray_tracing.SpecializedRayTracePath", "coordinates", [("xs", 0, "cos"), ("ys", 1, "sin")]),
             ("pyrex.custom.layered_ice.ray_tracing.LayeredRayTracer", "solutions", [("points[1:, 0]", 0, "cos"), ("points[1:, 1]", 1, "sin")])]
    for q, m, targets in sites:
        fn = repo.member(q, m)
        for tgt, comp, trig in targets:
            st = [s_ for s_ in ast.walk(fn) if isinstance(s_, ast.Assign) and u(s_.targets[0]) == tgt]
            ok = len(st) == 1
            detail = u(st[0].value) if st else "not assigned"
            if ok:
                v = st[0].value
                names = {x.id for x in ast.walk(v) if isinstance(x, ast.Name)} - {"np", "self"}
                rname = sorted(names)[0] if len(names) == 1 else None
                ok = rname is not None and NF().nf(v).equals(NF().nf(parse_expr(f"self.from_point[{comp}] + {rname}*np.{trig}(self.phi)")))
            ctx.check(ok, "R02e", f"{q}.{m}", f"`{tgt}` = from_point[{comp}] + r*{trig}(phi)", detail, key_detail=f"azimuth pairing {tgt}", loc=ctx.loc(repo.cls(q).module, st[0]) if st else None)
    for q in ("pyrex.ray_tracing.BasicRayTracePath",):
        for m in ("emitted_direction", "received_direction"):
            fn = repo.member(q, m)
            for r in returns(fn):
                v = r.value
                ok = is_call(v, func="np.array") and isinstance(v.args[0], (ast.List, ast.Tuple)) and len(v.args[0].elts) == 3
                if ok:
                    x, y, _ = v.args[0].elts
                    ok = u(x).endswith("* np.cos(self.phi)") and u(y).endswith("* np.sin(self.phi)") and u(x)[:-len("np.cos(self.phi)")] == u(y)[:-len("np.sin(self.phi)")]
                ctx.check(ok, "R02e", f"{q}.{m}", "horizontal components are h*cos(phi), h*sin(phi) with one common h", u(v)[:100], key_detail=f"direction azimuth {m}")
    for q in ("pyrex.ray_tracing.BasicRayTracePath", "pyrex.ray_tracing.UniformRayTracePath", "pyrex.ray_tracing.UniformRayTracer",
              "pyrex.custom.layered_ice.ray_tracing.LayeredRayTracePath", "pyrex.custom.layered_ice.ray_tracing.LayeredRayTracer"):
        fn = repo.member(q, "phi")
        r = returns(fn)
        env = local_env(fn)
        ok = len(r) == 1 and NF(env).nf(r[0].value.args[0]).equals(NF().nf(parse_expr("self.to_point[1] - self.from_point[1]"))) if r and is_call(r[0].value, func="np.arctan2") else False
        ok = ok and NF(env).nf(r[0].value.args[1]).equals(NF().nf(parse_expr("self.to_point[0] - self.from_point[0]")))
        ctx.check(ok, "R02e", f"{q}.phi", "phi = arctan2(dy, dx) of the endpoint separation", u(r[0].value) if r else "", key_detail="phi definition")


def r02f(ctx):
    """direction-of-travel symmetry of the pieced z-integral (= R01f of C01): integrating downward through z_uniform is the mirror of upward"""
    from . import c01
    ctx.rule("R02f", "the analytic z-integral is pieced across z_uniform consistently for upward and downward integration (= R01f), so a path and its swapped twin "
             "report the same length and time", expected=5, kind="N")
    sub = type(ctx)(ctx.repo, ctx.prop, ctx.tier)
    c01.r01f(sub)
    for o in sub.obs:
        o.rule = "R02f"
        ctx.obs.append(o)


def r02g(ctx):
    """Reciprocity of the layered tracer rests on Snell's invariant n sin(theta) being carried across every boundary with the index at the
    point where the angle was measured: the same obligation as C18's R18e, evaluated here under C02's name."""
    from . import c18
    from ._cross import relay
    relay(ctx, "R02g", "layered tracer: Snell's invariant is carried across a boundary with the index at the start of the layer (= R18e): forward and reversed chains then agree",
          "C18", c18.r18e, "R18e", kind="N")


def r02h(ctx):
    """Equal numbers of solutions in both directions need the duplicate-path filter of the layered tracer to trim the two ends of a path alike:
    C18's R18i, reported here as well."""
    from . import c18
    from ._cross import relay
    relay(ctx, "R02h", "layered tracer: a duplicate end point is cut from path, depths and directions with the same slice, at either end (= R18i)", "C18", c18.r18i, "R18i", kind="N")


def r02i(ctx):
    """`directions exchanged and reversed`: the received direction of A->B is minus the emitted direction of B->A only if the direct path
    keeps the hemisphere it was launched in (sign(cos theta0)) and a turned-over path arrives going down: C01's R01e, reported here too."""
    from . import c01
    from ._cross import relay
    relay(ctx, "R02i", "gradient tracer: the vertical sense of the received direction follows the launch for the direct path and is downward for turned-over paths (= R01e)",
          "C01", c01.r01e, "R01e", kind="N")


def run(ctx):
    ctx.guard(r02i)
    ctx.guard(r02h)
    ctx.guard(r02g)
    ctx.guard(r02e)
    ctx.guard(r02f)
    ctx.guard(r02a)
    ctx.guard(r02b)
    ctx.guard(r02c)
    ctx.guard(r02d)


SELFTEST = {
    "faults": [
        {"name": "y of the bounce points offset by the source's x", "file": "pyrex/ray_tracing.py", "old": "            points[1:, 1] = self.from_point[1] + rs * np.sin(self.phi)",
         "new": "            points[1:, 1] = self.from_point[0] + rs * np.sin(self.phi)", "rule": "R02e"},
        {"name": "direction of travel ignored when crossing z_uniform", "file": "pyrex/ray_tracing.py",
         "old": "                    if z0<z1:\n                        return int_z1 - int_z0 + int_diff\n                    else:\n                        return int_z1 - int_z0 - int_diff",
         "new": "                    return int_z1 - int_z0 + int_diff", "rule": "R02f"},
        {"name": "reflection points relative to the origin (the defect repaired in UniformRayTracePath._points)", "file": "pyrex/ray_tracing.py",
         "old": "            points[1:, 0] = self.from_point[0] + rs * np.cos(self.phi)", "new": "            points[1:, 0] = rs * np.cos(self.phi)", "rule": "R02a"},
        {"name": "z0 = from_point depth in the tracer", "file": "pyrex/ray_tracing.py", "old": "        return min([self.from_point[2], self.to_point[2]])", "new": "        return self.from_point[2]",
         "rule": "R02b"},
        {"name": "rho from to_point alone", "file": "pyrex/ray_tracing.py", "old": "        u = self.to_point - self.from_point\n        return np.sqrt(u[0]**2 + u[1]**2)",
         "new": "        u = self.to_point\n        return np.sqrt(u[0]**2 + u[1]**2)", "occurrence": 2, "rule": ["R02a", "R02b"]},
        {"name": "three solutions expected", "file": "pyrex/ray_tracing.py", "old": "            return [True, False, True]", "new": "            return [True, True, True]", "rule": "R02c"},
        {"name": "uniform solutions ignore exists", "file": "pyrex/ray_tracing.py", "old": "        if not self.exists:\n            return []\n        # Direct path", "new": "        # Direct path",
         "rule": "R02d"},
        {"name": "phi measured from the origin", "file": "pyrex/ray_tracing.py", "old": "        u = self.to_point - self.from_point\n        return np.arctan2(u[1], u[0])",
         "new": "        u = self.to_point\n        return np.arctan2(u[1], u[0])", "occurrence": 1, "rule": "R02a"},
        {"name": "direct angle never mirrored", "file": "pyrex/ray_tracing.py", "old": "            if self.from_point[2] > self.to_point[2]:\n                launch_angle = np.pi - launch_angle\n", "new": "",
         "rule": "R02b"},
        {"name": "coordinates lose the source offset", "file": "pyrex/ray_tracing.py", "old": "        xs = self.from_point[0] + rs*np.cos(self.phi)", "new": "        xs = rs*np.cos(self.phi)", "occurrence": 1,
         "rule": "R02a"},
    ],
    "benign": [
        {"name": "rho via hypot-like rewrite", "file": "pyrex/ray_tracing.py", "old": "        u = self.to_point - self.from_point\n        return np.sqrt(u[0]**2 + u[1]**2)",
         "new": "        u = self.to_point - self.from_point\n        return np.sqrt(u[1]*u[1] + u[0]*u[0])", "occurrence": 1},
    ],
}
