"""C15 -- Earth density and slant depth equal the reference profile and its line integral (structural clauses)."""
import ast
import math

from ..core.source import AnalysisError, parent
from ..core.astutil import strip_doc, calls, is_call, kwargs_of, guards, u, returns, names_in, parse_expr
from ..core.exprnf import NF, local_env
from ._ai import degree_interp, degree_verdict

META = {
    "explanation": "R15a shell tables of PREM and every subclass after constant folding: as many densities as radii, radii strictly increasing, last radius = "
                   "earth_radius (one density per shell, nothing beyond the surface).  R15b density(): conditions are (lower <= r) & (r < upper) over consecutive "
                   "pairs of [0]+radii -- a partition of [0, R) into half-open shells -- evaluated on r/earth_radius with np.array(r) (scalar = array path).  "
                   "R15c the direction enters only through normalize(direction): degree 0 in its length.  R15d chord parametrisation: sample points are endpoint "
                   "+ ts*distance*direction with the same `distance` that scales the integrand, ts = linspace(0,1,n), distance = -dot + sqrt(disc), disc = dot^2 "
                   "- |endpoint|^2 + R^2, depth->radius shift by earth_radius, factor 100 (m -> cm).  R15e the early exits (disc <= 0, distance <= 0 -> 0) "
                   "precede the integration.  R15j (pointed, read statement by statement in every method of every Earth model): a trapezoid integral over a linspace "
                   "parameter t whose samples are placed at base + t*L*direction[k] carries that L as a factor; reported when the integrand is scaled by a different "
                   "plain length and nothing downstream can rescale the sum (segmented or looped integrations included).",
    "not_decided": ["convergence order in `step`", "monotonic growth with the dip angle", "values of the PREM polynomials"],
    "trusted_base": ["CPython ast", "np.piecewise evaluates the i-th function where the i-th condition holds and 0 elsewhere", "PolyNF"],
    "assumptions": [],
}

P = "pyrex.earth_model.PREM"


def fold(node, ci, depth=0):
    """Constant folding of a class-level numeric expression (names resolve through the MRO)."""
    if isinstance(node, ast.Constant) and isinstance(node.value, (int, float)) and not isinstance(node.value, bool):
        return float(node.value)
    if isinstance(node, ast.Name) and depth < 5:
        owner, ent = ci.lookup(node.id)
        if ent is not None and ent[0] == "classattr":
            return fold(ent[1], ci, depth + 1)
        return None
    if isinstance(node, ast.UnaryOp) and isinstance(node.op, ast.USub):
        v = fold(node.operand, ci, depth)
        return None if v is None else -v
    if isinstance(node, ast.BinOp):
        a, b = fold(node.left, ci, depth), fold(node.right, ci, depth)
        if a is None or b is None:
            return None
        if isinstance(node.op, ast.Add):
            return a + b
        if isinstance(node.op, ast.Sub):
            return a - b
        if isinstance(node.op, ast.Mult):
            return a * b
        if isinstance(node.op, ast.Div):
            return a / b if b else None
        if isinstance(node.op, ast.Pow):
            return a ** b
    if isinstance(node, ast.Call) and ast.unparse(node.func) in ("np.sqrt", "math.sqrt") and len(node.args) == 1:
        v = fold(node.args[0], ci, depth)
        return None if v is None or v < 0 else math.sqrt(v)
    return None


def r15a(ctx):
    repo = ctx.repo
    ctx.rule("R15a", "shell tables: len(radii) == len(densities); radii strictly increasing after constant folding; last radius is earth_radius", expected=2, kind="S")
    models = [repo.cls(P)] + repo.subclasses("PREM")
    for ci in models:
        o1, r = ci.lookup("radii")
        o2, d = ci.lookup("densities")
        o3, er = ci.lookup("earth_radius")
        if r is None or d is None or er is None or not isinstance(r[1], (ast.Tuple, ast.List)) or not isinstance(d[1], (ast.Tuple, ast.List)):
            ctx.unknown("R15a", ci.qual, "radii / densities / earth_radius are class-level literals", "")
            continue
        # a subclass that overrides one table must override the other (else they silently mismatch)
        rad = [fold(e, ci) for e in r[1].elts]
        R = fold(er[1], ci)
        ctx.check(len(r[1].elts) == len(d[1].elts), "R15a", f"{ci.qual}.densities", "one density (function or constant) per radius shell",
                  f"{len(r[1].elts)} radii (from {o1.name}), {len(d[1].elts)} densities (from {o2.name})", key_detail="table lengths", loc=ctx.loc(ci.module, d[1]))
        if any(v is None for v in rad) or R is None:
            ctx.unknown("R15a", f"{ci.qual}.radii", "radii fold to numbers", str([u(e) for e in r[1].elts]))
            continue
        ctx.check(all(a < b for a, b in zip(rad, rad[1:])) and rad[0] > 0, "R15a", f"{ci.qual}.radii", "radii are positive and strictly increasing", str(rad),
                  key_detail="increasing radii", loc=ctx.loc(ci.module, r[1]))
        ctx.check(rad[-1] == R, "R15a", f"{ci.qual}.radii", "the outermost shell ends at earth_radius (density is zero beyond)", f"last={rad[-1]} earth_radius={R}",
                  key_detail="outer radius")
        for i, e in enumerate(d[1].elts):
            ok = isinstance(e, ast.Lambda) and len(e.args.args) == 1 or (fold(e, ci) is not None and fold(e, ci) > 0)
            if not ok:
                ctx.bad("R15a", f"{ci.qual}.densities[{i}]", "entry is a one-argument function of the fractional radius or a positive constant", u(e)[:50],
                        key_detail="density entry")


def r15b(ctx):
    repo = ctx.repo
    ctx.rule("R15b", "density(): half-open shells (lower <= r) & (r < upper) over zip(bounds[:-1], bounds[1:]) of [0]+radii; evaluated at r/earth_radius; np.array(r) first",
             expected=4, kind="S")
    fn = repo.member(P, "density")
    c = f"{P}.density"
    rp = fn.args.args[1].arg
    body = strip_doc(fn)
    ok = isinstance(body[0], ast.Assign) and u(body[0].targets[0]) == rp and u(body[0].value) in (f"np.array({rp})", f"np.asarray({rp})", f"np.atleast_1d({rp})")
    ctx.check(ok, "R15b", c, "scalar and array input go through the same array path", u(body[0]), key_detail="array path", loc=ctx.loc("pyrex.earth_model", fn))
    env = local_env(fn)
    rb = next((v for k, v in env.items() if is_call(v, func="np.concatenate")), None)
    ok = rb is not None and u(rb) == "np.concatenate(([0], self.radii))"
    ctx.check(ok, "R15b", c, "shell boundaries are [0] followed by the radii", u(rb) if rb is not None else "", key_detail="bounds")
    bname = next((k for k, v in env.items() if v is rb), None)
    gens = [n for n in ast.walk(fn) if isinstance(n, (ast.GeneratorExp, ast.ListComp)) and "zip(" in u(n.generators[0].iter)]
    ok = len(gens) == 1
    if ok:
        g = gens[0]
        lo, hi = [e.id for e in g.generators[0].target.elts]
        ok = u(g.generators[0].iter) == f"zip({bname}[:-1], {bname}[1:])"
        e = g.elt
        ok = ok and isinstance(e, ast.BinOp) and isinstance(e.op, ast.BitAnd)
        if ok:
            forms = set()
            for cmp_ in (e.left, e.right):
                if isinstance(cmp_, ast.Compare) and len(cmp_.ops) == 1:
                    l, r, op = u(cmp_.left), u(cmp_.comparators[0]), type(cmp_.ops[0]).__name__
                    if op in ("Gt", "GtE"):
                        l, r, op = r, l, {"Gt": "Lt", "GtE": "LtE"}[op]
                    forms.add((l, op, r))
            ok = forms == {(lo, "LtE", rp), (rp, "Lt", hi)}
    ctx.check(ok, "R15b", c, "shell i is lower_i <= r < upper_i over consecutive boundary pairs (a partition of [0, R))", u(gens[0]) if gens else "", key_detail="half-open shells")
    cname = next((k for k, v in env.items() if any(v is g_ or (is_call(v, func="list") and v.args and v.args[0] is g_) for g_ in gens)), None)
    edits = [n for n in ast.walk(fn) if cname and ((isinstance(n, (ast.Assign, ast.AugAssign)) and any(isinstance(t_, ast.Subscript) and u(t_.value) == cname
                                                                                                    for t_ in (n.targets if isinstance(n, ast.Assign) else [n.target])))
                                                    or (isinstance(n, ast.Call) and isinstance(n.func, ast.Attribute) and u(n.func.value) == cname and n.func.attr in ("append", "insert", "extend", "pop"))
                                                    or (isinstance(n, ast.AugAssign) and u(n.target) == cname))]
    ctx.check(not edits, "R15b", c, "the shell conditions are used as built (no condition widened or replaced afterwards)", "; ".join(u(x)[:100] for x in edits), key_detail="conditions edited")
    r = returns(fn)
    ok = len(r) == 1 and is_call(r[0].value, func="np.piecewise") and len(r[0].value.args) == 3 and u(r[0].value.args[0]) == f"{rp} / self.earth_radius" \
        and u(r[0].value.args[2]) == "self.densities"
    cond = r[0].value.args[1] if ok else None
    ok = ok and (cond in gens or (isinstance(cond, ast.Name) and any(g is v or (is_call(v, func="list") and v.args and v.args[0] is gens[0]) for g in gens for v in [env.get(cond.id)])))
    ctx.check(ok, "R15b", c, "np.piecewise(r / earth_radius, conditions, densities): shell functions take the fractional radius", u(r[0].value) if r else "",
              key_detail="piecewise call")


def r15c(ctx):
    repo = ctx.repo
    ctx.rule("R15c", "slant_depth reads `direction` only through normalize(direction): independent of the vector's length", expected=1, kind="S")
    fn = repo.member(P, "slant_depth")
    d = fn.args.args[2].arg
    loads = [n for n in ast.walk(fn) if isinstance(n, ast.Name) and n.id == d and isinstance(n.ctx, ast.Load)]
    stores = [s for s in ast.walk(fn) if isinstance(s, ast.Assign) and u(s.targets[0]) == d]
    ok = len(stores) == 1 and u(stores[0].value) == f"normalize({d})" and strip_doc(fn).index(stores[0]) <= 1
    first_use = min((n.lineno, n.col_offset) for n in loads) if loads else None
    raw = [n for n in loads if not (isinstance(parent(n), ast.Call) and u(parent(n).func) == "normalize") and (n.lineno, n.col_offset) < (stores[0].lineno, 0)] if stores else loads
    ctx.check(ok and not raw, "R15c", f"{P}.slant_depth", "the direction is normalized before any other use", u(stores[0]) if stores else "not normalized",
              key_detail="direction normalized", loc=ctx.loc("pyrex.earth_model", fn))


def r15d(ctx):
    repo = ctx.repo
    ctx.rule("R15d", "chord: points = endpoint + ts*distance*direction with the integrand scaled by the same distance; ts = linspace(0,1,n); distance = -dot + sqrt(disc); "
             "disc = dot^2 - |endpoint|^2 + R^2; z shifted by earth_radius; result 100*trapz(rho*distance, ts)", expected=6, kind="N")
    fn = repo.member(P, "slant_depth")
    c = f"{P}.slant_depth"
    ep, d = fn.args.args[1].arg, fn.args.args[2].arg
    env = {}
    for st in strip_doc(fn):
        if isinstance(st, ast.Assign) and isinstance(st.targets[0], ast.Name):
            env.setdefault(st.targets[0].id, st.value)
    e0 = [s for s in strip_doc(fn) if isinstance(s, ast.Assign) and u(s.targets[0]) == ep]
    ok = len(e0) == 1 and u(e0[0].value) == f"np.array([{ep}[0], {ep}[1], {ep}[2] + self.earth_radius])"
    ctx.check(ok, "R15d", c, "depth is converted to a radius coordinate by adding earth_radius to z", u(e0[0].value) if e0 else "", key_detail="radius shift", loc=ctx.loc("pyrex.earth_model", fn))
    nf = NF({k: v for k, v in env.items() if k in ("dot_prod",)})
    disc = env.get("discriminant")
    ok = disc is not None and NF().nf(disc).equals(NF().nf(parse_expr(f"dot_prod**2 - np.sum({ep}**2) + self.earth_radius**2"))) and u(env.get("dot_prod")) in (f"np.dot({ep}, {d})", f"np.dot({d}, {ep})")
    ctx.check(ok, "R15d", c, "discriminant = (e.d)^2 - |e|^2 + R^2 of the line-sphere intersection", u(disc) if disc is not None else "", key_detail="discriminant")
    dist = env.get("distance")
    ok = dist is not None and NF().nf(dist).equals(NF().nf(parse_expr("-dot_prod + np.sqrt(discriminant)")))
    ctx.check(ok, "R15d", c, "distance to the exit point is the far root -e.d + sqrt(disc)", u(dist) if dist is not None else "", key_detail="distance")
    for nm in ("dot_prod", "discriminant", "distance", "ts", "rhos", "rs"):
        sts = [n for n in ast.walk(fn) if isinstance(n, (ast.Assign, ast.AugAssign)) and any(isinstance(m, ast.Name) and m.id == nm and isinstance(m.ctx, ast.Store)
                                                                                            for t_ in (n.targets if isinstance(n, ast.Assign) else [n.target]) for m in ast.walk(t_))]
        if len(sts) > 1:
            ctx.bad("R15d", c, f"`{nm}` is bound once: the value the rule reads is the value the integral uses", "; ".join(u(x)[:80] for x in sts), key_detail=f"rebinding {nm}",
                    loc=ctx.loc("pyrex.earth_model", sts[1]))
    ts = env.get("ts")
    ok = ts is not None and is_call(ts, func="np.linspace") and [u(a) for a in ts.args[:2]] == ["0", "1"] and not kwargs_of(ts).get("endpoint")
    ctx.check(ok, "R15d", c, "the chord parameter runs over linspace(0, 1, n) including both ends", u(ts) if ts is not None else "", key_detail="parameter grid")
    ok = True
    for i, nm in enumerate(("xs", "ys", "zs")):
        v = env.get(nm)
        ok = ok and v is not None and NF().nf(v).equals(NF().nf(parse_expr(f"{ep}[{i}] + ts*distance*{d}[{i}]")))
    ctx.check(ok, "R15d", c, "sample points are endpoint + ts*distance*direction, component by component", "", key_detail="sample points")
    rs = env.get("rs")
    ok = rs is not None and NF().nf(rs).equals(NF().nf(parse_expr("np.sqrt(xs**2 + ys**2 + zs**2)"))) and u(env.get("rhos")) == "self.density(rs)"
    ctx.check(ok, "R15d", c, "density is sampled at the radius of each point", "", key_detail="radius of samples")
    r = [x for x in returns(fn) if u(x.value) != "0"]
    ok = len(r) == 1
    if ok:
        v = r[0].value
        want = NF().nf(parse_expr("100 * trapz(rhos*distance, ts)"))
        got = NF().nf(v)
        alt = NF().nf(parse_expr("100 * distance * trapz(rhos, ts)"))
        # resolve the compatibility alias: trapz / np.trapz / np.trapezoid
        txt = u(v).replace("np.trapezoid", "trapz").replace("np.trapz", "trapz")
        got = NF().nf(parse_expr(txt))
        ok = got.equals(want) or got.equals(alt)
    ctx.check(ok, "R15d", c, "result = 100 * trapezoid integral of rho*distance over the chord parameter (the same distance that places the samples)",
              u(r[0].value) if r else "", key_detail="integral")


def r15e(ctx):
    repo = ctx.repo
    ctx.rule("R15e", "early exits: discriminant <= 0 -> 0 and distance <= 0 -> 0, both before the integration", expected=2, kind="N")
    fn = repo.member(P, "slant_depth")
    body = strip_doc(fn)
    ex = [(i, s) for i, s in enumerate(body) if isinstance(s, ast.If) and len(s.body) == 1 and isinstance(s.body[0], ast.Return) and u(s.body[0].value) == "0"]
    tests = [u(s.test).replace(" ", "") for _, s in ex]
    integ = next((i for i, s in enumerate(body) if "linspace" in u(s)), None)
    ok = sorted(tests) == sorted(["discriminant<=0", "distance<=0"]) and integ is not None and all(i < integ for i, _ in ex)
    ctx.check(ok, "R15e", f"{P}.slant_depth", "a chord that misses or only touches the Earth, or points away from it, has slant depth 0 before any integration", str(tests),
              key_detail="early exits", loc=ctx.loc("pyrex.earth_model", fn))
    # order: discriminant test precedes the square root
    di = next((i for i, s in ex if u(s.test).replace(" ", "") == "discriminant<=0"), None)
    sq = next((i for i, s in enumerate(body) if "np.sqrt(discriminant)" in u(s)), None)
    ctx.check(di is not None and sq is not None and di < sq, "R15e", f"{P}.slant_depth", "the square root is taken only of a positive discriminant", "", key_detail="sqrt guarded")
    env = {}
    for st in body:
        if isinstance(st, ast.Assign) and isinstance(st.targets[0], ast.Name):
            env.setdefault(st.targets[0].id, st.value)
    ok = u(env.get("n_steps")) == "int(distance / step)" and any(isinstance(s, ast.If) and u(s.test) == "distance % step" and u(s.body[0]) == "n_steps += 1" for s in body)
    ctx.check(ok, "R15e", f"{P}.slant_depth", "number of samples = ceil(distance / step)", "", key_detail="sample count")


def r15f(ctx):
    repo = ctx.repo
    ctx.rule("R15f", "Earth models differ from PREM only in their tables: density() and slant_depth() are inherited, so R15b-e cover every model", expected=1, kind="S")
    for ci in repo.subclasses("PREM"):
        own = [m for m in ("density", "slant_depth") if any(isinstance(st, ast.FunctionDef) and st.name == m for st in ci.node.body)]
        if own:
            ctx.unknown("R15f", f"{ci.qual}.{own[0]}", "the model inherits PREM's density and slant_depth", f"{ci.name} defines its own {', '.join(own)}: "
                        "an implementation the rules R15b-e have not confirmed", loc=ctx.loc(ci.module, ci.node))
        else:
            ctx.ok("R15f", ci.qual, "the model inherits PREM's density and slant_depth")


def _factors(node):
    """Flatten a product into its factors (no division, no unary minus: anything else is one opaque factor)."""
    if isinstance(node, ast.BinOp) and isinstance(node.op, ast.Mult):
        return _factors(node.left) + _factors(node.right)
    return [node]


def r15j(ctx):
    """Pointed: each statement pair is read on its own -- the length that spreads the sample points along the chord must be a factor of what is integrated
    over the same parameter, whatever else the function does (segments, loops, helpers)."""
    repo = ctx.repo
    ctx.rule("R15j", "every trapezoid integral over a chord parameter t carries, as a factor, the length L that places its samples at base + t*L*direction[k] "
             "(d(path) = L dt: integrating rho over t without that L, or with another length, is not the line integral)", expected=1, kind="N")
    fns = []
    for ci in [repo.cls(P)] + repo.subclasses("PREM"):
        for st in ci.node.body:
            if isinstance(st, ast.FunctionDef):
                fns.append((ci, st))
    seen = 0
    for ci, fn in fns:
        c = f"{ci.qual}.{fn.name}"
        assigns = {}
        for n in ast.walk(fn):
            if isinstance(n, ast.Assign) and len(n.targets) == 1 and isinstance(n.targets[0], ast.Name):
                assigns.setdefault(n.targets[0].id, []).append(n.value)

        def alias(node):
            k = 0
            while isinstance(node, ast.Name) and len(assigns.get(node.id, [])) == 1 and isinstance(assigns[node.id][0], ast.Name) and k < 4:
                node = assigns[node.id][0]
                k += 1
            return node
        dirs = {a.arg for a in fn.args.args if a.arg != "self"}
        for call in [n for n in ast.walk(fn) if isinstance(n, ast.Call)]:
            f = u(call.func)
            if f not in ("trapz", "np.trapz", "np.trapezoid", "trapezoid") or len(call.args) != 2 or call.keywords:
                continue
            xf = [alias(x) for x in _factors(call.args[1])]
            tnames = [x.id for x in xf if isinstance(x, ast.Name) and any(is_call(v, func="np.linspace") for v in assigns.get(x.id, []))]
            if len(tnames) != 1:
                continue
            t = tnames[0]
            # sample-point statements: base + t * L... * <vector>[k]
            lengths = []
            readable = True
            for nm, vals in assigns.items():
                for v in vals:
                    if not (isinstance(v, ast.BinOp) and isinstance(v.op, ast.Add)):
                        continue
                    for side in (v.left, v.right):
                        fs = _factors(side)
                        if not any(isinstance(x, ast.Name) and x.id == t for x in fs):
                            continue
                        comp = [x for x in fs if isinstance(x, ast.Subscript) and isinstance(x.value, ast.Name) and isinstance(x.slice, ast.Constant)]
                        if len(comp) != 1:
                            readable = False
                            continue
                        rest = [alias(x) for x in fs if x is not comp[0] and not (isinstance(x, ast.Name) and x.id == t)]
                        lengths.append((nm, sorted(u(x) for x in rest)))
            if not lengths or not readable or len({tuple(l) for _, l in lengths}) != 1 or not lengths[0][1]:
                continue
            L = lengths[0][1]
            if any(not isinstance(parse_expr(x), (ast.Name, ast.Attribute)) for x in L):
                continue
            have = [u(alias(x)) for x in _factors(call.args[0])] + [u(x) for x in xf if not (isinstance(x, ast.Name) and x.id == t)]
            node = call
            while isinstance(parent(node), ast.BinOp) and isinstance(parent(node).op, ast.Mult):
                node = parent(node)
                have += [u(alias(x)) for x in _factors(node) if x is not call]
            seen += 1
            missing = [x for x in L if x not in have]
            other = [x for x in have if x not in L and any(u(alias(w)) == x for w in _factors(call.args[0])) and isinstance(parse_expr(x), ast.Name)
                     and not any(isinstance(v, ast.Call) for v in assigns.get(x, []))]
            # a violation needs positive evidence: the placing length is absent, the integrand carries a different plain length instead, and nothing
            # downstream can rescale the result (it is returned, or accumulated in a name that is only returned times constants)
            closed = not (isinstance(parent(node), ast.BinOp))
            st = node
            while st is not None and not isinstance(st, ast.stmt):
                st = parent(st)
            if closed and isinstance(st, (ast.Assign, ast.AugAssign)):
                tg = st.targets[0] if isinstance(st, ast.Assign) else st.target
                closed = isinstance(tg, ast.Name)
                if closed:
                    for n in ast.walk(fn):
                        if isinstance(n, ast.Name) and n.id == tg.id and isinstance(n.ctx, ast.Load):
                            s2 = n
                            while not isinstance(s2, ast.stmt):
                                s2 = parent(s2)
                            if s2 is st:
                                continue
                            if not isinstance(s2, (ast.Return, ast.AugAssign)) or {m.id for m in ast.walk(s2) if isinstance(m, ast.Name)} - {tg.id}                                     or any(isinstance(m, (ast.Attribute, ast.Call, ast.Subscript)) for m in ast.walk(s2)):
                                closed = False
            elif closed and isinstance(st, ast.Return):
                closed = not any(isinstance(m, (ast.Name, ast.Attribute)) for m in ast.walk(st.value) if m is not call and not any(m is w for w in ast.walk(call)))
            else:
                closed = False
            if missing and other and closed:
                ctx.bad("R15j", c, f"the integral over `{t}` is scaled by the length {' * '.join(L)} that places the samples along the chord",
                        f"samples: {lengths[0][0]} = ... + {t} * {' * '.join(L)} * direction[k];  integral: {u(call)[:120]}", key_detail="integrand length", loc=ctx.loc(ci.module, call), pointed=True)
            elif missing:
                ctx.unknown("R15j", c, "the placing length is a factor of the integral", f"could not find {L} among {have}", required=False, loc=ctx.loc(ci.module, call))
            else:
                ctx.ok("R15j", c, f"integral over `{t}` carries the placing length {' * '.join(L)}", loc=ctx.loc(ci.module, call))
    if not seen:
        ctx.unknown("R15j", f"{P}.slant_depth", "a trapezoid integral over a linspace chord parameter with readable sample points", "none found", required=False)


def run(ctx):
    ctx.guard(r15j)         # pointed rules first (see Ctx.guard)
    ctx.guard(r15f)
    ctx.guard(r15a)
    ctx.guard(r15b)
    ctx.guard(r15c)
    ctx.guard(r15d)
    ctx.guard(r15e)


SELFTEST = {
    "faults": [
        {"name": "samples placed along a capped length, integrand still scaled by the full distance", "file": "pyrex/earth_model.py",
         "old": "        xs = endpoint[0] + ts * distance * direction[0]\n        ys = endpoint[1] + ts * distance * direction[1]\n        zs = endpoint[2] + ts * distance * direction[2]\n",
         "new": "        reach = min(distance, 2*self.earth_radius)\n        xs = endpoint[0] + ts * reach * direction[0]\n        ys = endpoint[1] + ts * reach * direction[1]\n        zs = endpoint[2] + ts * reach * direction[2]\n",
         "rule": "R15j"},
        {"name": "slant depth remembered per chord, key without the step (generic memo rule)", "file": "pyrex/earth_model.py",
         "old": "        return 100 * trapz(rhos*distance, ts)",
         "new": "        key = (tuple(endpoint), tuple(direction))\n        if key in self._memo:\n            return self._memo[key]\n        self._memo[key] = 100 * trapz(rhos*distance, ts)\n        return self._memo[key]",
         "rule": "R15u"},
        {"name": "exit distance clamped to the chord length", "file": "pyrex/earth_model.py", "old": "        distance = -dot_prod + np.sqrt(discriminant)\n",
         "new": "        distance = -dot_prod + np.sqrt(discriminant)\n        distance = min(distance, 2*np.sqrt(discriminant))\n", "rule": "R15d"},
        {"name": "outermost shell widened by isclose", "file": "pyrex/earth_model.py", "old": "        return np.piecewise(r/self.earth_radius,", "new": "        conditions[-1] = conditions[-1] | np.isclose(r, self.earth_radius)\n        return np.piecewise(r/self.earth_radius,",
         "rule": "R15b"},
        {"name": "radius dropped from the table", "file": "pyrex/earth_model.py", "old": "radii = (1.2215e6, 3.4800e6,", "new": "radii = (3.4800e6,", "rule": "R15a"},
        {"name": "<= upper bound", "file": "pyrex/earth_model.py", "old": "(lower<=r) & (r<upper)", "new": "(lower<=r) & (r<=upper)", "rule": "R15b"},
        {"name": "direction not normalized", "file": "pyrex/earth_model.py", "old": "        direction = normalize(direction)\n", "new": "        direction = np.array(direction)\n", "rule": "R15c"},
        {"name": "integrand scaled by step", "file": "pyrex/earth_model.py", "old": "trapz(rhos*distance, ts)", "new": "trapz(rhos*step, ts)", "rule": "R15d"},
        {"name": "near root of the intersection", "file": "pyrex/earth_model.py", "old": "        distance = -dot_prod + np.sqrt(discriminant)", "new": "        distance = -dot_prod - np.sqrt(discriminant)",
         "rule": "R15d"},
        {"name": "radius shift forgotten", "file": "pyrex/earth_model.py", "old": "endpoint[2]+self.earth_radius])", "new": "endpoint[2]])", "rule": "R15d"},
        {"name": "subclass radii out of order", "file": "pyrex/earth_model.py", "old": "    radii = (np.sqrt(1.2e13), earth_radius-4e4, earth_radius)", "new": "    radii = (earth_radius-4e4, np.sqrt(1.2e13), earth_radius)",
         "rule": "R15a"},
        {"name": "density evaluated at the raw radius", "file": "pyrex/earth_model.py", "old": "np.piecewise(r/self.earth_radius,", "new": "np.piecewise(r,", "rule": "R15b"},
    ],
    "benign": [
        {"name": "placing length renamed and used on both sides (R15j must stay silent)", "file": "pyrex/earth_model.py", "silent": ["R15j"],
         "old": "        xs = endpoint[0] + ts * distance * direction[0]\n        ys = endpoint[1] + ts * distance * direction[1]\n        zs = endpoint[2] + ts * distance * direction[2]\n",
         "new": "        length = distance\n        xs = endpoint[0] + ts * length * direction[0]\n        ys = endpoint[1] + ts * length * direction[1]\n        zs = endpoint[2] + ts * length * direction[2]\n"},
        {"name": "slant depth remembered per chord AND step (a completely keyed memo: the memo rule must stay silent)", "file": "pyrex/earth_model.py", "silent": ["R15u"],
         "old": "        return 100 * trapz(rhos*distance, ts)",
         "new": "        key = (tuple(endpoint), tuple(direction), step)\n        if key in self._memo:\n            return self._memo[key]\n        self._memo[key] = 100 * trapz(rhos*distance, ts)\n        return self._memo[key]"},
        {"name": "discriminant terms reordered", "file": "pyrex/earth_model.py", "old": "        distance = -dot_prod + np.sqrt(discriminant)", "new": "        distance = np.sqrt(discriminant) - dot_prod"},
    ],
}
