"""C05 -- frequency filtering is linear, real-preserving and free of wrap-around."""
import ast

from ..core.source import AnalysisError, parent
from ..core.ai import Interp, Obj, Fn, Tup
from ..core.domains.length import Length
from ..core.domains.affine import Affine
from ..core.astutil import strip_doc, stmts_in_order, calls, is_call, kwargs_of, guards, u, returns, names_in
from ..core.exprnf import local_env
from ._ai import degree_interp, plain_signal, function_signal, degree_verdict, lam

META = {
    "explanation": "Three abstract interpretations of Signal.filter_frequencies / Signal._get_filter_response / FunctionSignal._apply_filters, "
                   "each valid for every signal length, sampling step, offset and response function: R05a homogeneity-degree domain (new "
                   "values linear in the old values and linear in the response function's output, on the vectorised and on the scalar "
                   "fall-back arm, with and without force_real); R05b symbolic-length domain (FFT input, fftfreq n and response arrays all of "
                   "length 2N, zero padding N, output slice N, every element-wise product between equal lengths -> no wrap-around for delays "
                   "shorter than the window); R05c affine domain on the time axis (times weight 1 => stored values and everything handed to "
                   "the response function weight 0: only dt and len(times) are read); R05d def-use of the Hermitian mirror under force_real; "
                   "R05e product of all component filters applied once.",
    "not_decided": ["unit response = identity up to rounding", "energy inequality for |response| <= 1", "behaviour at the Nyquist bin",
                    "exact value of the force_real result (only the mirroring structure is checked)"],
    "trusted_base": ["CPython ast", "numpy/scipy summary tables of the degree, length and affine domains"],
    "assumptions": ["scipy.fft.fft/ifft are linear and length-preserving; fftfreq(n) has length n"],
}

SIG = "pyrex.signals.Signal"
FS = "pyrex.signals.FunctionSignal"


def r05a(ctx):
    repo = ctx.repo
    ctx.rule("R05a", "new values are Lin in the old values and Lin in the response function's output (vectorised arm and scalar fall-back, "
             "force_real on/off); _apply_filters likewise per filter", expected=10, kind="S")
    dom, it = degree_interp(repo)
    U, LIN = dom.U, dom.LIN
    gfr = repo.member(SIG, "_get_filter_response")
    gp = [a.arg for a in gfr.args.args if a.arg != "self"]
    fr_param = gp[2]
    for fr in (True, False):
        for what in ("values", "response"):
            it.notes.clear()
            it.assume = {fr_param: fr, "force_real": fr}
            sig = plain_signal(repo, dom, values=LIN if what == "values" else None)
            resp = lam("lambda f: R", {"R": LIN if what == "response" else U})
            it.call_fn(it.getattr_obj(sig, "filter_frequencies", 0), [resp], {"force_real": U}, 0)
            degree_verdict(ctx, "R05a", f"{SIG}.filter_frequencies", f"[force_real={fr}] new values are linear in the {what}", sig.fields.get("values"), 1,
                           want_lin=True, notes=it.notes, loc=ctx.loc("pyrex.signals", repo.member(SIG, "filter_frequencies")))
    # both arms of _get_filter_response separately: vectorised (try body) and scalar fall-back (handler)
    it.assume = {}
    tr = [n for n in ast.walk(gfr) if isinstance(n, ast.Try)]
    if len(tr) != 1:
        ctx.unknown("R05a", f"{SIG}._get_filter_response", "one try/except around the vectorised evaluation", f"{len(tr)}")
    else:
        t = tr[0]
        for arm, body in (("vectorised", t.body), ("scalar fall-back", t.handlers[0].body)):
            from ..core.ai import Scope
            sc = Scope(it.menv("pyrex.signals"))
            sc.module = "pyrex.signals"
            sc.ci = repo.cls(SIG)
            sc.set("freqs", U)
            sc.set(gp[0], U)
            sc.set(gp[1], lam("lambda f: R", {"R": LIN}))
            sc.set("self", plain_signal(repo, dom))
            rets = []
            it.block(body, sc, 0, rets)
            val = sc.get("responses")
            degree_verdict(ctx, "R05a", f"{SIG}._get_filter_response", f"[{arm} arm] responses are linear in the function's output", val, 1, want_lin=True,
                           notes=it.notes, loc=ctx.loc("pyrex.signals", t))
        # the fall-back loop fills every index of freqs
        h = t.handlers[0]
        loops = [n for n in ast.walk(h) if isinstance(n, ast.For)]
        ok = len(loops) == 1 and u(loops[0].iter) == "enumerate(freqs)"
        if ok:
            i, f = [e.id for e in loops[0].target.elts]
            st = [s for s in loops[0].body if isinstance(s, ast.Assign)]
            fn_name = gp[1]
            ok = len(st) == 1 and u(st[0].targets[0]) == f"responses[{i}]" and u(st[0].value) == f"{fn_name}({f})"
        init = [s for s in h.body if isinstance(s, ast.Assign) and u(s.targets[0]) == "responses"]
        ok = ok and len(init) == 1 and "len(freqs)" in u(init[0].value)
        ctx.check(ok, "R05a", f"{SIG}._get_filter_response", "the scalar fall-back evaluates the function at every frequency and stores it at the same index",
                  u(loops[0]) if loops else "", key_detail="fall-back loop")
        exc = u(h.type) if h.type is not None else ""
        ctx.check("TypeError" in exc and "ValueError" in exc, "R05a", f"{SIG}._get_filter_response", "fall-back is taken on TypeError and ValueError", exc, key_detail="fall-back trigger")
    # _apply_filters
    for what in ("input values", "one filter's response"):
        it.notes.clear()
        fs = function_signal(repo, dom)
        # two filters, one tracked: the product must be of degree 1 in each single response (multilinear)
        filt = Tup([Tup([lam("lambda f: R", {"R": LIN if what != "input values" else U}), U]), Tup([lam("lambda f: R", {"R": U}), U])], exact=True)
        out = it.call_fn(it.getattr_obj(fs, "_apply_filters", 0), [LIN if what == "input values" else U, filt], {}, 0)
        degree_verdict(ctx, "R05a", f"{FS}._apply_filters", f"output is linear in {what}", it.flat(out), 1, want_lin=True, notes=it.notes,
                       loc=ctx.loc("pyrex.signals", repo.member(FS, "_apply_filters")))


def r05b(ctx):
    repo = ctx.repo
    ctx.rule("R05b", "lengths: FFT input 2N, fftfreq n = 2N, responses 2N, zero padding N, stored values N; every element-wise operation between equal lengths",
             expected=6, kind="S")
    dom = Length()
    it = Interp(repo, dom, depth=10)
    N = dom.sym("N")
    S = repo.cls(SIG)
    two_n = N + N
    for fr in (True, False):
        dom.obligations.clear()
        it.notes.clear()
        it.assume = {"force_real": fr}
        sig = Obj(S, {"times": dom.arr(N), "values": dom.arr(N), "_value_type": dom.U})
        resp = lam("lambda f: f", {})
        it.call_fn(it.getattr_obj(sig, "filter_frequencies", 0), [resp], {"force_real": dom.U}, 0)
        v = sig.fields.get("values")
        c = f"{SIG}.filter_frequencies"
        if getattr(v, "kind", None) == "arr":
            ctx.check(v.lin == N, "R05b", c, f"[force_real={fr}] stored values have the length of times (N)", repr(v), key_detail="stored length")
        elif getattr(v, "kind", None) == "bad":
            ctx.bad("R05b", c, f"[force_real={fr}] stored values have the length of times (N)", repr(v), key_detail="stored length")
        else:
            ctx.unknown("R05b", c, f"[force_real={fr}] stored values have the length of times (N)", repr(v))
        obs = list(dom.obligations)
        bad = [o for o in obs if not o[3]]
        ctx.check(not bad and len(obs) >= 1, "R05b", c, f"[force_real={fr}] every element-wise operation combines arrays of equal length",
                  f"{len(obs)} element-wise operations; mismatches: {bad[:2]}", key_detail="elementwise lengths")
        prod = [o for o in obs if o[1] == f"Arr[{two_n}]" or "2*N" in o[1]]
        ctx.check(len(prod) >= 1, "R05b", c, f"[force_real={fr}] response and spectrum are multiplied at length 2N (zero padding of N samples)",
                  str(obs[:3]), key_detail="padded product")
    dom.obligations.clear()
    it.assume = {}
    fs = Obj(repo.cls(FS), {"times": dom.arr(N)})
    M = dom.sym("M")
    out = it.call_fn(it.getattr_obj(fs, "_apply_filters", 0), [dom.arr(M), Tup([Tup([lam("lambda f: f", {}), dom.U])])], {}, 0)
    c = f"{FS}._apply_filters"
    if getattr(out, "kind", None) == "arr":
        ctx.check(out.lin == M, "R05b", c, "output has the length of the input values (M)", repr(out), key_detail="output length")
    else:
        (ctx.bad if getattr(out, "kind", None) == "bad" else ctx.unknown)("R05b", c, "output has the length of the input values (M)", repr(out))
    bad = [o for o in dom.obligations if not o[3]]
    ctx.check(not bad and dom.obligations, "R05b", c, "every element-wise operation combines arrays of equal length (2M)", f"{dom.obligations[:3]}",
              key_detail="elementwise lengths")
    # syntactic cross-check of the padding amount: zeros(len(values)) appended, fftfreq(n=2*len(values))
    for q, m, src in ((SIG, "filter_frequencies", "self.values"), (FS, "_apply_filters", None)):
        fn = repo.member(q, m)
        src = src or fn.args.args[1].arg
        cat = [c_ for c_ in ast.walk(fn) if is_call(c_, func="np.concatenate")]
        ok = len(cat) == 1 and u(cat[0].args[0]) == f"({src}, np.zeros(len({src})))"
        ff = [c_ for c_ in ast.walk(fn) if is_call(c_, func="scipy.fft.fftfreq")]
        ok2 = len(ff) == 1 and u(kwargs_of(ff[0]).get("n", ff[0].args[0] if ff[0].args else None)) == f"2 * len({src})" and u(kwargs_of(ff[0]).get("d")) == "self.dt"
        ctx.check(ok and ok2, "R05b", f"{q}.{m}", "signal is padded with as many zeros as it has samples and the frequencies are those of the padded length at spacing dt",
                  f"{[u(x) for x in cat]} {[u(x) for x in ff]}", key_detail="padding")


def r05c(ctx):
    repo = ctx.repo
    ctx.rule("R05c", "shift invariance: with self.times of translation weight 1, the new values and every argument of the response function have weight 0",
             expected=3, kind="S")
    dom = Affine()
    it = Interp(repo, dom, depth=10)
    U, P = dom.U, dom.P
    seen = []
    for fr in (True, False):
        it.notes.clear()
        it.assume = {"force_real": fr}
        sig = Obj(repo.cls(SIG), {"times": P, "values": U, "_value_type": U})
        probe = Fn(ast.parse("lambda f: PROBE(f)").body[0].value, {"PROBE": None})
        # the response function's argument is observed through a closure that records what it receives
        rec = []

        class Rec:
            pass
        resp = lam("lambda f: f", {})
        it.call_fn(it.getattr_obj(sig, "filter_frequencies", 0), [resp], {"force_real": U}, 0)
        v = it.flat(sig.fields.get("values")) if sig.fields.get("values") is not None else None
        c = f"{SIG}.filter_frequencies"
        what = f"[force_real={fr}] new values (and the frequencies handed to the response, which flow into them) do not move with the time origin"
        if v is None or v.kind == "top":
            ctx.unknown("R05c", c, what, repr(v))
        elif v.kind == "bad" or (v.kind == "w" and v.w != 0):
            ctx.bad("R05c", c, what, repr(v), key_detail="shift invariance")
        else:
            ctx.ok("R05c", c, what, repr(v))
    it.assume = {}
    fs = Obj(repo.cls(FS), {"times": P})
    out = it.call_fn(it.getattr_obj(fs, "_apply_filters", 0), [U, Tup([Tup([lam("lambda f: f", {}), U])])], {}, 0)
    v = it.flat(out)
    what = "filtered component values do not move with the time origin"
    if v.kind == "top":
        ctx.unknown("R05c", f"{FS}._apply_filters", what, repr(v))
    elif v.kind == "bad" or (v.kind == "w" and v.w != 0):
        ctx.bad("R05c", f"{FS}._apply_filters", what, repr(v), key_detail="shift invariance")
    else:
        ctx.ok("R05c", f"{FS}._apply_filters", what, repr(v))
    # syntactic side: times enters filter_frequencies only through len(self.times) and self.dt
    fn = repo.member(SIG, "filter_frequencies")
    uses = [n for n in ast.walk(fn) if isinstance(n, ast.Attribute) and u(n) == "self.times"]
    ok = all(isinstance(parent(n), ast.Call) and u(parent(n).func) == "len" for n in uses)
    ctx.check(ok and uses, "R05c", f"{SIG}.filter_frequencies", "self.times is read only through len(self.times) (plus self.dt)", str([u(parent(n)) for n in uses]),
              key_detail="times uses")
    dt = repo.lookup(SIG, "dt")[2]
    r = [x for x in ast.walk(dt) if isinstance(x, ast.Return) and x.value is not None and u(x.value) != "None"]
    ctx.check(len(r) == 1 and u(r[0].value) == "self.times[1] - self.times[0]", "R05c", f"{SIG}.dt", "dt is the difference of the first two sample times",
              u(r[0].value) if r else "", key_detail="dt")


def r05d(ctx):
    repo = ctx.repo
    ctx.rule("R05d", "Hermitian mirror under force_real: the function is evaluated on |freqs|, then the imaginary part is negated in place exactly where the "
             "original frequencies are negative; nothing of this without force_real", expected=4, kind="N")
    fn = repo.member(SIG, "_get_filter_response")
    c = f"{SIG}._get_filter_response"
    fq, fname, fr = [a.arg for a in fn.args.args if a.arg != "self"][:3]
    ifs = [n for n in strip_doc(fn) if isinstance(n, ast.If) and u(n.test) == fr]
    if len(ifs) != 2:
        ctx.bad("R05d", c, "two `if force_real:` blocks (before and after evaluating the response)", f"{len(ifs)} found", key_detail="force_real blocks",
                loc=ctx.loc("pyrex.signals", fn))
        return
    pre, post = ifs
    body = strip_doc(fn)
    tr_i = next(i for i, s in enumerate(body) if isinstance(s, ast.Try))
    ok = body.index(pre) < tr_i < body.index(post)
    ctx.check(ok, "R05d", c, "frequencies are folded before and the mirror applied after the evaluation", "", key_detail="order")
    saved = [s for s in pre.body if isinstance(s, ast.Assign) and fq in names_in(s.value) and u(s.targets[0]) != fq]
    folded = [s for s in pre.body if isinstance(s, ast.Assign) and u(s.targets[0]) == fq]
    ok = len(saved) == 1 and len(folded) == 1 and u(folded[0].value) in (f"np.abs({fq})", f"abs({fq})", f"np.absolute({fq})") \
        and pre.body.index(saved[0]) < pre.body.index(folded[0]) and not pre.orelse
    keep = u(saved[0].targets[0]) if saved else None
    copy_ok = saved and (is_call(saved[0].value, func="np.array") or is_call(saved[0].value, func="np.copy") or u(saved[0].value).endswith(".copy()"))
    ctx.check(ok and copy_ok, "R05d", c, "the original frequencies are saved as a copy, then the function's argument becomes |freqs|",
              f"{[u(s) for s in pre.body]}", key_detail="fold", loc=ctx.loc("pyrex.signals", pre))
    # evaluation uses the (folded) freqs
    ev = [c_ for c_ in ast.walk(body[tr_i]) if isinstance(c_, ast.Call) and u(c_.func) == fname]
    ok = len(ev) == 2 and u(ev[0].args[0]) == fq
    ctx.check(ok, "R05d", c, "the response function is evaluated on the folded frequencies on both arms", str([u(e) for e in ev]), key_detail="evaluation argument")
    st = post.body
    ok = len(st) == 1 and not post.orelse
    detail = u(st[0]) if st else ""
    if ok:
        s0 = st[0]
        if isinstance(s0, ast.AugAssign) and isinstance(s0.op, ast.Mult) and u(s0.value) == "-1" and isinstance(s0.target, ast.Subscript) \
                and u(s0.target.value) == "responses.imag":
            m = s0.target.slice
            ok = isinstance(m, ast.Compare) and u(m.left) == keep and isinstance(m.ops[0], ast.Lt) and u(m.comparators[0]) == "0"
        else:
            ok = False
    ctx.check(ok, "R05d", c, f"imaginary part is negated in place exactly where the saved original frequencies ({keep}) are < 0", detail, key_detail="mirror")
    r = returns(fn)
    ctx.check(len(r) == 1 and u(r[0].value) == "responses", "R05d", c, "the (mirrored) responses are returned", "", key_detail="return")
    # the mirror is applied in place: the array it works on must be the method's own (a copy of whatever the response function returned)
    from .c04 import fresh
    defs = [s_ for s_ in ast.walk(fn) if isinstance(s_, ast.Assign) and u(s_.targets[0]) == "responses"]
    ok = bool(defs) and all(fresh(d.value, fn, {}) for d in defs)
    ctx.check(ok, "R05d", c, "`responses` is a freshly allocated array on both arms (the in-place conjugation must not write into the response function's own data)",
              str([u(d.value)[:50] for d in defs]), key_detail="responses aliased")
    # forwarding of force_real from the public method
    ff = repo.member(SIG, "filter_frequencies")
    cs = calls(ff, name="_get_filter_response", recv="self")
    ok = len(cs) == 1 and [u(a) for a in cs[0].args] == ["freqs", ff.args.args[1].arg, ff.args.args[2].arg]
    ctx.check(ok, "R05d", f"{SIG}.filter_frequencies", "the public method passes its frequencies, response function and force_real flag through", u(cs[0]) if cs else "",
              key_detail="forwarding")
    ctx.check([u(d) for d in ff.args.defaults] == ["False"], "R05d", f"{SIG}.filter_frequencies", "force_real defaults to False", "", key_detail="default")


def r05e(ctx):
    repo = ctx.repo
    ctx.rule("R05e", "_apply_filters multiplies the responses of all (response, force_real) pairs into one array of ones and applies it once", expected=3, kind="N")
    fn = repo.member(FS, "_apply_filters")
    c = f"{FS}._apply_filters"
    env = local_env(fn)
    filters = fn.args.args[2].arg
    init = [s for s in strip_doc(fn) if isinstance(s, ast.Assign) and is_call(s.value, func="np.ones")]
    ok = len(init) == 1 and "len(freqs)" in u(init[0].value)
    acc = u(init[0].targets[0]) if init else None
    loops = [n for n in strip_doc(fn) if isinstance(n, ast.For) and u(n.iter) == filters]
    ok = ok and len(loops) == 1 and isinstance(loops[0].target, ast.Tuple) and len(loops[0].target.elts) == 2
    detail = ""
    if ok:
        a, b = [e.id for e in loops[0].target.elts]
        st = loops[0].body
        ok = (len(st) == 1 and isinstance(st[0], ast.AugAssign) and isinstance(st[0].op, ast.Mult) and u(st[0].target) == acc
              and is_call(st[0].value, name="_get_filter_response", recv="self") and [u(x) for x in st[0].value.args] == ["freqs", a, b])
        detail = u(st[0]) if st else ""
    ctx.check(ok, "R05e", c, "every (response, force_real) pair multiplies into one accumulator initialised to ones", detail, key_detail="filter product",
              loc=ctx.loc("pyrex.signals", fn))
    ifft = [c_ for c_ in ast.walk(fn) if is_call(c_, func="scipy.fft.ifft")]
    ok = len(ifft) == 1 and isinstance(ifft[0].args[0], ast.BinOp) and isinstance(ifft[0].args[0].op, ast.Mult) \
        and {u(ifft[0].args[0].left), u(ifft[0].args[0].right)} == {acc, "spectrum"}
    ctx.check(ok, "R05e", c, "the product of all filters multiplies the spectrum exactly once", u(ifft[0]) if ifft else "", key_detail="single application")
    r = returns(fn)
    out = env.get(u(r[0].value)) if r and isinstance(r[0].value, ast.Name) else None
    ok = out is not None and u(out) == f"np.real(filtered_vals[:len({fn.args.args[1].arg})])"
    ctx.check(ok, "R05e", c, "the real part of the first len(input) samples is returned", u(out) if out is not None else "", key_detail="output slice")
    # same shape in Signal.filter_frequencies
    ff = repo.member(SIG, "filter_frequencies")
    st = [s for s in strip_doc(ff) if isinstance(s, ast.Assign) and u(s.targets[0]) == "self.values"]
    ok = len(st) == 1 and u(st[0].value) == "np.real(filtered_vals[:len(self.times)])"
    ifft = [c_ for c_ in ast.walk(ff) if is_call(c_, func="scipy.fft.ifft")]
    ok = ok and len(ifft) == 1 and {u(ifft[0].args[0].left), u(ifft[0].args[0].right)} == {"responses", "spectrum"}
    ctx.check(ok, "R05e", f"{SIG}.filter_frequencies", "values := real(ifft(responses*spectrum)[:len(times)])", "", key_detail="signal filter shape")
    # every normal exit of Signal.filter_frequencies has applied the filter: no shortcut that leaves some signals unfiltered (linearity in the signal)
    from ..core import paths
    cnt = paths.seq(strip_doc(ff), lambda n: isinstance(n, ast.Assign) and u(n.targets[0]) == "self.values")
    normal = [v for k, v in cnt.items() if k in ("fall", "return")]
    ctx.check(bool(normal) and all(v[0] >= 1 for v in normal), "R05e", f"{SIG}.filter_frequencies", "every normal path stores the filtered values (no early exit that skips the filter)", str(cnt),
              key_detail="filter always applied", loc=ctx.loc("pyrex.signals", ff))


def r05f(ctx):
    """linearity and independence of history for function-backed signals: filter_frequencies appends to the inner lists of `_filters` in place,
    so a sum or a copy that shared those lists with its operand would filter the operand too (H(a+b) != H(a)+H(b) afterwards).  C04's R04c
    decides that copy/__add__ never share the component lists; reported here as well."""
    from . import c04
    from ._cross import relay
    relay(ctx, "R05f", "a sum or copy of function-backed signals shares no filter list with its operands (= R04c): filtering one never filters the other", "C04", c04.r04c, "R04c", kind="N")


def run(ctx):
    ctx.guard(r05f)
    ctx.guard(r05a)
    ctx.guard(r05b)
    ctx.guard(r05c)
    ctx.guard(r05d)
    ctx.guard(r05e)


SELFTEST = {
    "faults": [
        {"name": "faint signals skip the filter", "file": "pyrex/signals.py", "old": "        freqs = scipy.fft.fftfreq(n=2*len(self.values), d=self.dt)\n",
         "new": "        if np.allclose(self.values, 0):\n            return\n        freqs = scipy.fft.fftfreq(n=2*len(self.values), d=self.dt)\n", "rule": "R05e"},
        {"name": "np.asarray instead of a copy before the in-place mirror", "file": "pyrex/signals.py", "old": "            responses = np.array(function(freqs), dtype=np.complex128)",
         "new": "            responses = np.asarray(function(freqs), dtype=np.complex128)", "rule": "R05d"},
        {"name": "real inverse transform one bin short", "file": "pyrex/signals.py", "old": "        filtered_vals = scipy.fft.ifft(responses*spectrum)\n        self.values = np.real(filtered_vals[:len(self.times)])",
         "new": "        n_half = len(self.values)\n        filtered_vals = scipy.fft.irfft((responses*spectrum)[:n_half], n=2*n_half)\n        self.values = np.real(filtered_vals[:len(self.times)])",
         "rule": ["R05b", "R05e"]},
        {"name": "no zero padding", "file": "pyrex/signals.py", "old": "        vals = np.concatenate((self.values, np.zeros(len(self.values))))", "new": "        vals = np.array(self.values)",
         "rule": "R05b"},
        {"name": "response added to the spectrum", "file": "pyrex/signals.py", "old": "        filtered_vals = scipy.fft.ifft(responses*spectrum)", "new": "        filtered_vals = scipy.fft.ifft(responses+spectrum)",
         "rule": ["R05a", "R05e"]},
        {"name": "mirror on positive frequencies", "file": "pyrex/signals.py", "old": "            responses.imag[true_freqs<0] *= -1", "new": "            responses.imag[true_freqs>0] *= -1", "rule": "R05d"},
        {"name": "fall-back loop skips the first frequency", "file": "pyrex/signals.py", "old": "            for i, f in enumerate(freqs):\n                responses[i] = function(f)",
         "new": "            for i, f in enumerate(freqs[1:]):\n                responses[i] = function(f)", "rule": "R05a"},
        {"name": "filter evaluated at absolute times offset", "file": "pyrex/signals.py", "old": "        freqs = scipy.fft.fftfreq(n=2*len(self.values), d=self.dt)",
         "new": "        freqs = scipy.fft.fftfreq(n=2*len(self.values), d=self.dt) + self.times[0]", "rule": "R05c"},
        {"name": "mirror uses the folded frequencies", "file": "pyrex/signals.py", "old": "            true_freqs = np.array(freqs)\n            freqs = np.abs(freqs)",
         "new": "            freqs = np.abs(freqs)\n            true_freqs = np.array(freqs)", "rule": "R05d"},
        {"name": "output keeps the padded tail", "file": "pyrex/signals.py", "old": "        self.values = np.real(filtered_vals[:len(self.times)])", "new": "        self.values = np.real(filtered_vals[len(self.times):])",
         "rule": ["R05b", "R05e"]},
        {"name": "only the last filter of a component is applied", "file": "pyrex/signals.py",
         "old": "            all_filters *= self._get_filter_response(freqs, freq_response,\n                                                     force_real)",
         "new": "            all_filters = self._get_filter_response(freqs, freq_response,\n                                                    force_real)", "rule": "R05e"},
        {"name": "values squared before filtering", "file": "pyrex/signals.py", "old": "        spectrum = scipy.fft.fft(vals)\n        freqs = scipy.fft.fftfreq(n=2*len(self.values), d=self.dt)",
         "new": "        spectrum = scipy.fft.fft(vals*np.abs(vals))\n        freqs = scipy.fft.fftfreq(n=2*len(self.values), d=self.dt)", "rule": "R05a"},
    ],
    "benign": [
        {"name": "operand order of the product", "file": "pyrex/signals.py", "old": "        filtered_vals = scipy.fft.ifft(responses*spectrum)", "new": "        filtered_vals = scipy.fft.ifft(spectrum*responses)"},
    ],
}
