"""C14 -- interactions conserve energy, cross sections are consistent, event trees are well formed (structural clauses)."""
import ast
import re

from ..core.source import AnalysisError, parent
from ..core.astutil import strip_doc, calls, is_call, kwargs_of, guards, u, returns, names_in, parse_expr
from ..core.exprnf import NF, local_env

META = {
    "explanation": "R14a default model (CTW): every constant c_0..c_4 of each (particle sign, interaction kind) arm of cross_section equals the matching "
                   "c_i_cc / c_i_nc of total_cross_section, both use 10**(c1 + c2 L + c3 L^2 + c4/L) with L = ln(log10(E) - c0), and the total is the sum of "
                   "the two -- sufficient for 'CC + NC = total' for every energy.  R14b interaction lengths are 1/(N_A sigma).  R14c decision table of the "
                   "primary shower fractions (NC -> (0, y); CC e -> (1-y, y); CC mu/tau -> (0, y); else raise), NC returns before the secondary loop, "
                   "secondary fractions are divided by the particle energy and returned only under the energy-conservation guard.  R14d every "
                   "(kind, sign) arm of the CTW/GQRS parameter tables assigns all of its constants and the chains end in raise.  R14e event tree: "
                   "_all and _children grow together by the same count, child indices start at len(_all) before the extend, __iter__/__len__ read _all, "
                   "get_children/get_parent use the same index map.",
    "not_decided": ["y in [0,1], positivity and monotonicity of cross sections in energy", "sampled distributions", "secondary-interaction tables",
                    "GQRS antiparticle total (7.80e-36) differs from CC+NC (5.52+2.29)e-36: the property names the default model only"],
    "trusted_base": ["CPython ast", "PolyNF"],
    "assumptions": [],
}

CTW = "pyrex.particle.CTWInteraction"
GQRS = "pyrex.particle.GQRSInteraction"
INT = "pyrex.particle.Interaction"
EV = "pyrex.particle.Event"


def leaf_tables(fn):
    """{(tuple of guard texts): {name: constant}} for the if/elif parameter tables at the top of a method"""
    out = {}
    raises = []

    def walk(body, path):
        vals = {}
        for st in body:
            if isinstance(st, ast.If):
                walk(st.body, path + (u(st.test),))
                if st.orelse:
                    if len(st.orelse) == 1 and isinstance(st.orelse[0], ast.If):
                        walk(st.orelse, path)
                    else:
                        walk(st.orelse, path + ("else:" + u(st.test),))
            elif isinstance(st, ast.Assign) and isinstance(st.targets[0], ast.Name):
                try:
                    vals[st.targets[0].id] = ast.literal_eval(st.value)
                except Exception:
                    pass
            elif isinstance(st, ast.Raise):
                raises.append(path)
        if vals:
            out[path] = vals
    # only the leading If statement(s): the parameter table
    tbl = [s for s in strip_doc(fn) if isinstance(s, ast.If)]
    walk(tbl[:1], ())
    return out, raises


def sign_of(test):
    t = test.replace(" ", "")
    if t.endswith("id.value>0"):
        return "+"
    if t.endswith("id.value<0"):
        return "-"
    return None


def kind_of(test):
    if "charged_current" in test:
        return "cc"
    if "neutral_current" in test:
        return "nc"
    return None


def r14a(ctx):
    repo = ctx.repo
    ctx.rule("R14a", "CTW: constants of cross_section[(sign, kind)] == c_i_kind of total_cross_section[sign]; same exponent polynomial; total = 10**p_cc + 10**p_nc",
             expected=6, kind="S")
    ft = repo.lookup(CTW, "total_cross_section")[2]
    fc = repo.lookup(CTW, "cross_section")[2]
    tot, _ = leaf_tables(ft)
    cs, _ = leaf_tables(fc)
    tot_by_sign = {sign_of(p[0]): v for p, v in tot.items() if p and sign_of(p[0])}
    if set(tot_by_sign) != {"+", "-"} or len(cs) != 4:
        ctx.unknown("R14a", CTW, "parameter tables have the (sign) x (kind) shape", f"total arms {list(tot)}; cross_section arms {list(cs)}")
        return
    for path, vals in sorted(cs.items()):
        sg, kd = sign_of(path[0]), kind_of(path[1]) if len(path) > 1 else None
        if sg is None or kd is None:
            ctx.unknown("R14a", f"{CTW}.cross_section", "arm is keyed by particle sign and interaction kind", str(path))
            continue
        ref = tot_by_sign[sg]
        diff = {k: (v, ref.get(f"{k}_{kd}")) for k, v in vals.items() if ref.get(f"{k}_{kd}") != v}
        ok = not diff and set(vals) == {"c_0", "c_1", "c_2", "c_3", "c_4"}
        ctx.check(ok, "R14a", f"{CTW}.cross_section[{sg},{kd}]", f"the five constants equal c_i_{kd} of total_cross_section for the same particle sign",
                  f"differences (cross_section, total): {diff}", key_detail="constants differ", loc=ctx.loc("pyrex.particle", fc))
    et, ec = local_env(ft), local_env(fc)
    want = "c_1 + c_2*L + c_3*L**2 + c_4/L"
    p_c = NF({k: v for k, v in ec.items() if k in ("log_term",)}).nf(ec["power"]) if "power" in ec else None
    ok = p_c is not None and p_c.equals(NF({"L": parse_expr("np.log(eps - c_0)")}).nf(parse_expr(want)))
    ctx.check(ok, "R14a", f"{CTW}.cross_section", "exponent is c1 + c2 L + c3 L^2 + c4/L with L = ln(eps - c0)", u(ec.get("power")) if "power" in ec else "", key_detail="exponent polynomial")
    for kd in ("cc", "nc"):
        p_t = NF({k: v for k, v in et.items() if k == f"log_term_{kd}"}).nf(et[f"power_{kd}"]) if f"power_{kd}" in et else None
        ren = re.sub(rf"c_(\d)_{kd}", r"c_\1", repr(p_t)) if p_t is not None else None
        ok = ren is not None and ren == repr(p_c)
        ctx.check(ok, "R14a", f"{CTW}.total_cross_section", f"the {kd} exponent of the total is the same polynomial in its own constants", ren or "", key_detail=f"{kd} exponent")
    r = returns(ft)
    ok = len(r) == 1 and NF().nf(r[0].value).equals(NF().nf(parse_expr("10**power_cc + 10**power_nc")))
    ctx.check(ok, "R14a", f"{CTW}.total_cross_section", "total = 10**power_cc + 10**power_nc", u(r[0].value) if r else "", key_detail="total is the sum")
    r = returns(fc)
    ok = len(r) == 1 and u(r[0].value).replace(" ", "") == "10**power"
    ctx.check(ok, "R14a", f"{CTW}.cross_section", "partial cross section = 10**power", u(r[0].value) if r else "", key_detail="partial formula")
    ok = u(et.get("eps")) == "np.log10(self.particle.energy)" and u(ec.get("eps")) == "np.log10(self.particle.energy)"
    ctx.check(ok, "R14a", CTW, "both use eps = log10(particle energy)", "", key_detail="eps")
    al = repo.aliases.get("pyrex.particle", {}).get("NeutrinoInteraction")
    ctx.check(al == "CTWInteraction", "R14a", "pyrex.particle.NeutrinoInteraction", "the default model is CTWInteraction", str(al), key_detail="default model")


def r14b(ctx):
    repo = ctx.repo
    ctx.rule("R14b", "interaction_length == 1/(N_A cross_section); total_interaction_length == 1/(N_A total_cross_section)", expected=2, kind="N")
    for m, cs in (("interaction_length", "self.cross_section"), ("total_interaction_length", "self.total_cross_section")):
        fn = repo.lookup(INT, m)[2]
        r = returns(fn)
        ok = len(r) == 1 and NF().nf(r[0].value).equals(NF().nf(parse_expr(f"1/(scipy.constants.N_A*{cs})")))
        ctx.check(ok, "R14b", f"{INT}.{m}", f"length = 1 / (N_A * {cs.split('.')[1]})", u(r[0].value) if r else "", key_detail="interaction length", loc=ctx.loc("pyrex.particle", fn))
    for q in (GQRS, CTW):
        ci = repo.cls(q)
        over = [m for m in ("interaction_length", "total_interaction_length") if m in ci.methods]
        ctx.check(not over, "R14b", q, "the models inherit the interaction lengths from the base class", str(over), key_detail="override")


def r14c(ctx):
    repo = ctx.repo
    ctx.rule("R14c", "primary fractions: NC -> (0, y); CC e -> (1-y, y); CC mu/tau -> (0, y); else raise; NC returns before the secondary loop; secondary fractions "
             "divided by the particle energy, under em+had <= lepton energy", expected=5, kind="N")
    fn = repo.member(GQRS, "choose_shower_fractions")
    c = f"{GQRS}.choose_shower_fractions"
    body = strip_doc(fn)
    t0 = body[0]
    table = {}
    raises = 0

    def walk(node, path):
        nonlocal raises
        cur = node
        while True:
            k = path + (u(cur.test),)
            sub = [s for s in cur.body if isinstance(s, ast.If)]
            asg = {u(s.targets[0]): u(s.value) for s in cur.body if isinstance(s, ast.Assign)}
            if sub:
                walk(sub[0], k)
            elif asg:
                table[k] = asg
            if len(cur.orelse) == 1 and isinstance(cur.orelse[0], ast.If):
                cur = cur.orelse[0]
            else:
                if any(isinstance(x, ast.Raise) for x in cur.orelse):
                    raises += 1
                break
    if not isinstance(t0, ast.If):
        ctx.unknown("R14c", c, "decision table on the interaction kind first", "")
        return
    walk(t0, ())
    y = "self.inelasticity"
    got = {}
    for k, asg in table.items():
        kind = kind_of(k[0])
        flav = None
        if len(k) > 1:
            flav = "e" if "electron" in k[1] else "mu" if "muon" in k[1] else "tau" if "tau" in k[1] else None
        got[(kind, flav)] = (asg.get("em_frac"), asg.get("had_frac"))
    want = {("nc", None): ("0", y), ("cc", "e"): (f"1 - {y}", y), ("cc", "mu"): ("0", y), ("cc", "tau"): ("0", y)}
    ctx.check(got == want and raises == 2, "R14c", c, "NC: all hadronic = y; CC electron: (1-y, y) summing to 1; CC muon/tau: (0, y); unsupported types raise",
              f"got {got}, raise arms {raises}", key_detail="primary fraction table", loc=ctx.loc("pyrex.particle", fn))
    # both neutrino and antineutrino are named in each flavour test
    tests = [k[1] for k in table if len(k) > 1]
    ok = all(("neutrino" in t and "antineutrino" in t and " or " in t) for t in tests) and len(tests) == 3
    ctx.check(ok, "R14c", c, "each flavour arm covers the neutrino and the antineutrino", str([t[:60] for t in tests]), key_detail="nu and nubar")
    early = [s for s in body if isinstance(s, ast.If) and u(s.test) == "not self.include_secondaries"]
    ok = len(early) == 1 and u(early[0].body[0]) == "return (em_frac, had_frac)" and body.index(early[0]) == 1
    ctx.check(ok, "R14c", c, "without secondaries the primary fractions are returned", "", key_detail="no secondaries")
    sec = [s for s in body if isinstance(s, ast.If) and u(s.test) == "self.kind == self.Type.charged_current" and s is not t0]
    ok = len(sec) == 1
    if ok:
        s = sec[0]
        ok = u(s.body[0]) == "lepton_energy = self.particle.energy * (1 - self.inelasticity)" and len(s.orelse) == 1 and isinstance(s.orelse[0], ast.If) \
            and u(s.orelse[0].test) == "self.kind == self.Type.neutral_current" and u(s.orelse[0].body[0]) == "return (em_frac, had_frac)"
        loop_i = next((i for i, x in enumerate(body) if isinstance(x, ast.While)), None)
        ok = ok and loop_i is not None and body.index(s) < loop_i
    ctx.check(ok, "R14c", c, "neutral current returns before the secondary loop; the lepton carries (1-y) of the energy", "", key_detail="NC early return")
    wl = [x for x in body if isinstance(x, ast.While)]
    ok = len(wl) == 1
    if ok:
        g = [n for n in wl[0].body if isinstance(n, ast.If)]
        ok = len(g) == 1 and u(g[0].test) == "em_secondaries + had_secondaries <= lepton_energy"
        if ok:
            rets = [x for x in ast.walk(g[0]) if isinstance(x, ast.Return)]
            vals = sorted(u(x.value) for x in rets)
            ok = vals == sorted(["(em_secondaries / self.particle.energy, had_secondaries / self.particle.energy)", "(em_frac, had_frac)"])
            outside = [x for x in ast.walk(wl[0]) if isinstance(x, ast.Return) and not any(x is y_ for y_ in ast.walk(g[0]))]
            ok = ok and not outside
    ctx.check(ok, "R14c", c, "secondary showers are returned as fractions of the particle energy, and only when they fit into the lepton energy", "", key_detail="energy conservation guard")


def r14d(ctx):
    repo = ctx.repo
    ctx.rule("R14d", "parameter tables: every arm assigns all of its constants; chains end in raise", expected=4, kind="N")
    for q, m, names in ((CTW, "choose_inelasticity", {"a_0", "a_1", "a_2", "a_3"}), (CTW, "cross_section", {"c_0", "c_1", "c_2", "c_3", "c_4"}),
                        (CTW, "total_cross_section", {f"c_{i}_{k}" for i in range(5) for k in ("cc", "nc")}), (GQRS, "cross_section", {"coeff", "power"}),
                        (GQRS, "total_cross_section", {"coeff", "power"})):
        owner, kind, fn = repo.lookup(q, m)
        tbl, raises = leaf_tables(fn)
        bad = {str(p): sorted(names - set(v)) for p, v in tbl.items() if names - set(v)}
        ctx.check(not bad and len(tbl) >= 2, "R14d", f"{q}.{m}", f"every arm assigns all of {sorted(names)[:5]}{'...' if len(names) > 5 else ''}", f"{len(tbl)} arms; incomplete: {bad}",
                  key_detail="incomplete arm", loc=ctx.loc("pyrex.particle", fn))
        ctx.check(len(raises) >= 1, "R14d", f"{q}.{m}", "unsupported particle / interaction types raise", f"{len(raises)} raise arms", key_detail="else raise")
    ci = repo.member(CTW, "choose_interaction")
    env = local_env(ci)
    ok = NF(env).nf(parse_expr("nc_frac")).equals(NF().nf(parse_expr("0.252162 + 0.0256*np.log(np.log10(self.particle.energy) - 1.76)")))
    t = [n for n in strip_doc(ci) if isinstance(n, ast.If)]
    ok = ok and len(t) == 1 and u(t[0].test) == "np.random.rand() < nc_frac" and "neutral_current" in u(t[0].body[0]) and "charged_current" in u(t[0].orelse[0])
    ctx.check(ok, "R14d", f"{CTW}.choose_interaction", "NC with probability d1 + d2 ln(eps - d0), CC otherwise", "", key_detail="interaction choice")


def r14e(ctx):
    repo = ctx.repo
    ctx.rule("R14e", "event tree: _all and _children grow together; child indices start at len(_all) before the extend; __iter__/__len__ read _all; get_children / "
             "get_parent use the same index map", expected=6, kind="N")
    ci = repo.cls(EV)
    growers = {}
    for name, (kind, fn) in ci.methods.items():
        ga = [c for c in ast.walk(fn) if is_call(c, recv="self._all") and c.func.attr in ("append", "extend", "insert")]
        gc = [c for c in ast.walk(fn) if is_call(c, recv="self._children") and c.func.attr in ("append", "extend", "insert")]
        sa = [s for s in ast.walk(fn) if isinstance(s, ast.Assign) and u(s.targets[0]) == "self._all"]
        sc = [s for s in ast.walk(fn) if isinstance(s, ast.Assign) and u(s.targets[0]) == "self._children"]
        if ga or gc or sa or sc:
            growers[name] = (ga, gc, sa, sc)
    for name, (ga, gc, sa, sc) in growers.items():
        ok = (len(ga) == len(gc)) and (len(sa) == len(sc))
        ctx.check(ok, "R14e", f"{EV}.{name}", "every method that grows/sets _all does the same to _children", f"_all: {len(ga)} grow/{len(sa)} set; _children: {len(gc)}/{len(sc)}",
                  key_detail="parallel growth", loc=ctx.loc("pyrex.particle", ci.methods[name][1]))
    init = repo.member(EV, "__init__")
    src = [u(s) for s in strip_doc(init)]
    ok = "self._all = [particle for particle in self.roots]" in src and "self._children = [[] for _ in range(len(self.roots))]" in src
    ctx.check(ok, "R14e", f"{EV}.__init__", "the tree starts with the roots and one empty child list per root", "", key_detail="initial lists")
    ac = repo.member(EV, "add_children")
    body = [u(s) for s in strip_doc(ac)]
    need = ["new_index_start = len(self._all)", "self._all.extend(children)", "indices = [new_index_start + i for i in range(len(children))]",
            "self._children.extend([[] for _ in indices])", "self._children[parent_index].extend(indices)"]
    pos = [body.index(x) if x in body else -1 for x in need]
    ok = all(p >= 0 for p in pos) and pos == sorted(pos)
    ctx.check(ok, "R14e", f"{EV}.add_children", "new children get the indices len(_all).. before the extend, one empty child list each, and are linked to the parent's list",
              str(pos), key_detail="child indices")
    ok = any("raise ValueError" in b and "parent not in self._all" in b for b in body) and any("children = [children]" in b for b in body)
    ctx.check(ok, "R14e", f"{EV}.add_children", "unknown parents are rejected; a single child is wrapped", "", key_detail="add_children guards")
    it = repo.member(EV, "__iter__")
    ln = repo.member(EV, "__len__")
    ok = [u(s) for s in strip_doc(it)] == ["yield from self._all"] and [u(s) for s in strip_doc(ln)] == ["return len(self._all)"]
    ctx.check(ok, "R14e", f"{EV}.__iter__", "iteration and length both read _all: every particle exactly once", "", key_detail="iter/len")
    gc = repo.member(EV, "get_children")
    gp = repo.member(EV, "get_parent")
    r = returns(gc)
    ok = len(r) == 1 and u(r[0].value) == "[self._all[i] for i in self._children[parent_index]]" and "parent_index = self._all.index(parent)" in u(gc)
    ctx.check(ok, "R14e", f"{EV}.get_children", "children of p are _all[i] for i in _children[index of p]", u(r[0].value) if r else "", key_detail="get_children")
    srcp = u(gp)
    ok = "child_index = self._all.index(child)" in srcp and "for parent_index, child_indices in enumerate(self._children):" in srcp \
        and "if child_index in child_indices:" in srcp and "return self._all[parent_index]" in srcp
    ctx.check(ok, "R14e", f"{EV}.get_parent", "the parent of c is _all[j] for the j whose child list holds the index of c (inverse of get_children)", "", key_detail="get_parent")
    gl = repo.member(EV, "get_from_level")
    srcl = u(gl)
    ok = "particles = self.roots" in srcl and "particles.extend(self.get_children(p))" in srcl and "while current_level < level:" in srcl and "current_level += 1" in srcl
    ctx.check(ok, "R14e", f"{EV}.get_from_level", "level k is obtained by k rounds of get_children starting from the roots", "", key_detail="levels")


def r14f(ctx):
    repo = ctx.repo
    ctx.rule("R14f", "CTW inelasticity: the low-y region is chosen with probability 0.128 sin(-0.197 (eps - 21.8)) (CTW 2011, eq. 16) -- compared as drawn, so a negative value means never", expected=1, kind="N")
    fn = repo.member(CTW, "choose_inelasticity")
    st = [n for n in ast.walk(fn) if isinstance(n, ast.Compare) and any(is_call(c_, func="np.random.rand") for c_ in ast.walk(n))]
    want = NF().nf(parse_expr("0.128*np.sin(-0.197*(eps-21.8))"))
    ok = len(st) >= 1 and isinstance(st[0].ops[0], ast.Lt) and NF().nf(st[0].comparators[0]).equals(want)
    ctx.check(ok, "R14f", f"{CTW}.choose_inelasticity", "rand() < 0.128*sin(-0.197*(eps-21.8))", u(st[0]) if st else "no comparison of a random draw", key_detail="low-y probability",
              loc=ctx.loc("pyrex.particle", st[0] if st else fn))


def r14g(ctx):
    repo = ctx.repo
    ctx.rule("R14g", "the event tree finds particles by identity (list.index / in on the particle list): Particle and Interaction define no __eq__ / __hash__ of their own, "
             "so two distinct particles with equal values are never confused", expected=2, kind="N")
    for q in ("pyrex.particle.Particle", "pyrex.particle.Interaction", "pyrex.particle.Event"):
        ci = repo.cls(q)
        own = [st.name for c_ in [ci] + ci.mro()[1:] if c_.module.startswith("pyrex") for st in c_.node.body if isinstance(st, ast.FunctionDef) and st.name in ("__eq__", "__hash__", "__ne__")]
        ctx.check(not own, "R14g", q, "compared by identity", f"defines {own}", key_detail="value equality", loc=ctx.loc(ci.module, ci.node))


def run(ctx):
    ctx.guard(r14g)
    ctx.guard(r14f)
    ctx.guard(r14a)
    ctx.guard(r14b)
    ctx.guard(r14c)
    ctx.guard(r14d)
    ctx.guard(r14e)


SELFTEST = {
    "faults": [
        {"name": "particles compared by value", "file": "pyrex/particle.py", "old": "    @property\n    def id(self):", "new": "    def __eq__(self, other):\n        return isinstance(other, Particle) and self.energy==other.energy\n\n    __hash__ = None\n\n    @property\n    def id(self):",
         "rule": "R14g"},
        {"name": "low-y probability made non-negative", "file": "pyrex/particle.py", "old": "0.128*np.sin(-0.197*(eps-21.8))", "new": "0.128*abs(np.sin(0.197*(eps-21.8)))", "rule": "R14f"},
        {"name": "one constant changed in one CTW table", "file": "pyrex/particle.py", "old": "                c_2 = -6.448", "new": "                c_2 = -6.484", "rule": "R14a"},
        {"name": "em_frac = y for CC e", "file": "pyrex/particle.py", "old": "                em_frac = 1 - self.inelasticity", "new": "                em_frac = self.inelasticity", "rule": "R14c"},
        {"name": "_all extended but not _children", "file": "pyrex/particle.py", "old": "        self._children.extend([[] for _ in indices])\n", "new": "", "rule": "R14e"},
        {"name": "interaction length without N_A", "file": "pyrex/particle.py", "old": "        return 1 / (scipy.constants.N_A * self.cross_section)", "new": "        return 1 / self.cross_section", "rule": "R14b"},
        {"name": "total uses the cc exponent twice", "file": "pyrex/particle.py", "old": "        return 10**power_cc + 10**power_nc", "new": "        return 10**power_cc + 10**power_cc", "rule": "R14a"},
        {"name": "child indices computed after the extend", "file": "pyrex/particle.py", "old": "        new_index_start = len(self._all)\n        self._all.extend(children)",
         "new": "        self._all.extend(children)\n        new_index_start = len(self._all)", "rule": "R14e"},
        {"name": "secondaries not normalised by the energy", "file": "pyrex/particle.py", "old": "                    return (em_secondaries / self.particle.energy,\n                            had_secondaries / self.particle.energy)",
         "new": "                    return (em_secondaries,\n                            had_secondaries)", "rule": "R14c"},
        {"name": "missing constant in one inelasticity arm", "file": "pyrex/particle.py", "old": "                a_0 = -0.005\n                a_1 = 0.23\n                a_2 = 3\n", "new": "                a_0 = -0.005\n                a_1 = 0.23\n",
         "rule": "R14d"},
    ],
    "benign": [
        {"name": "sum operands swapped", "file": "pyrex/particle.py", "old": "        return 10**power_cc + 10**power_nc", "new": "        return 10**power_nc + 10**power_cc"},
    ],
}
