"""C08 -- antenna response is linear, rotation-covariant and scales fields by the antenna factor."""
import ast

from ..core.source import AnalysisError, parent
from ..core import paths
from ..core.ai import Interp, Obj, Fn, Tup
from ..core.domains.rotation import Rotation
from ..core.astutil import strip_doc, calls, is_call, kwargs_of, guards, u, returns, parse_expr
from ..core.exprnf import NF, local_env
from ..core.sigbind import param_names
from ._ai import degree_interp, plain_signal, function_signal, degree_verdict, lam

META = {
    "explanation": "R08k (pointed) partial evaluation of apply_response per Signal.Type member: every member other than voltage and field raises on every path.  R08a abstract interpretation (homogeneity-degree domain) of apply_response for Antenna, DipoleAntenna and through "
                   "AntennaSystem: result values are linear in the input values, of degree +1 in directional gain, polarization gain, "
                   "efficiency and frequency response, and of degree -1 in the antenna factor on the field arm / 0 on the voltage arm -- "
                   "for every signal and parameter value.  R08b decision list on the *input* signal's type; R08c copy -> filter once with "
                   "force_real forwarded -> scale; R08d AntennaSystem forwards every parameter under its own name; R08e rotation-covariance "
                   "domain: gains and spherical angles are scalars built only from dot/cross/norm of lab-frame vectors; R08f dipole formulas "
                   "in normal form; R08g receive stores exactly one summed signal per call.",
    "not_decided": ["Butterworth response values", "numerical equality under rotation", "gains of the custom antenna classes (thorough: delegation shape only)"],
    "trusted_base": ["CPython ast", "numpy summary table of the degree / rotation domains (pvx/core/domains)"],
    "assumptions": ["numpy functions listed as linear / bilinear in the summary table are so"],
}

A = "pyrex.antenna.Antenna"
DA = "pyrex.antenna.DipoleAntenna"
S = "pyrex.detector.AntennaSystem"
ARMS = {"voltage": {"signal.value_type == Signal.Type.voltage": True, "signal.value_type == Signal.Type.field": False},
        "field": {"signal.value_type == Signal.Type.voltage": False, "signal.value_type == Signal.Type.field": True}}


def r08a(ctx):
    repo = ctx.repo
    ctx.rule("R08a", "degree of apply_response's result values: Lin in signal values; +1 in d_gain, p_gain, efficiency, frequency response; "
             "antenna_factor -1 (field) / 0 (voltage)", expected=24, kind="S")
    dom, it = degree_interp(repo)
    U, LIN = dom.U, dom.LIN
    arm_tests = find_type_tests(repo)
    for q in (A, DA, S):
        ci = repo.cls(q)
        for arm in ("voltage", "field"):
            it.assume = dict(arm_tests[arm])
            it.assume.update({"direction is None": False, "polarization is None": False})      # the arms with both gains applied
            for tracked, want in (("signal.values", 1), ("function-signal output", 1), ("efficiency", 1), ("antenna_factor", -1 if arm == "field" else 0),
                                  ("directional_gain", 1), ("polarization_gain", 1), ("frequency_response", 1)):
                it.notes.clear()
                fields = {"position": U, "z_axis": U, "x_axis": U, "antenna_factor": U, "efficiency": U, "filter_coeffs": Tup([U, U]),
                          "effective_height": U, "freq_range": Tup([U, U])}
                ant = Obj(repo.cls(DA if q == DA else A), fields)
                if tracked in ("efficiency", "antenna_factor"):
                    ant.fields[tracked] = LIN
                if tracked == "directional_gain":
                    ant.fields[tracked] = lam("lambda theta=None, phi=None: G", {"G": LIN})
                if tracked == "polarization_gain":
                    ant.fields[tracked] = lam("lambda polarization=None: G", {"G": LIN})
                if tracked == "frequency_response":
                    ant.fields[tracked] = lam("lambda frequencies=None: G", {"G": LIN})
                if tracked == "function-signal output":
                    sig = function_signal(repo, dom, out=LIN)
                else:
                    sig = plain_signal(repo, dom, values=LIN if tracked == "signal.values" else None)
                recv = ant if q != S else Obj(ci, {"antenna": ant})
                out = it.call_fn(it.getattr_obj(recv, "apply_response", 0), [sig], {"direction": U, "polarization": U, "force_real": U}, 0)
                val = it.getattr_obj(out, "values", 0) if isinstance(out, Obj) else out
                degree_verdict(ctx, "R08a", f"{q}.apply_response", f"[{arm} input] result is of degree {want} in {tracked}", it.flat(val) if not hasattr(val, "kind") else val,
                               want, want_lin=(tracked in ("signal.values", "function-signal output")), notes=it.notes,
                               loc=ctx.loc(ci.module, repo.lookup(q, "apply_response")[2]))
    it.assume = {}


def find_type_tests(repo):
    """The two tests on the input signal's type in Antenna.apply_response, by their normal text."""
    fn = repo.member(A, "apply_response")
    tests = {}
    for n in ast.walk(fn):
        if isinstance(n, ast.If) and isinstance(n.test, ast.Compare) and "value_type" in u(n.test.left):
            t = u(n.test)
            if t.endswith("Type.voltage"):
                tests["voltage"] = t
            elif t.endswith("Type.field"):
                tests["field"] = t
    if set(tests) != {"voltage", "field"}:
        raise AnalysisError("Antenna.apply_response: tests on the signal's value type not found")
    return {"voltage": {tests["voltage"]: True, tests["field"]: False}, "field": {tests["voltage"]: False, tests["field"]: True}}


def r08b(ctx):
    repo = ctx.repo
    ctx.rule("R08b", "type decision on the input signal: voltage -> unchanged, field -> divide by antenna_factor, otherwise raise ValueError", expected=3, kind="N")
    fn = repo.member(A, "apply_response")
    c = f"{A}.apply_response"
    sigp = fn.args.args[1].arg
    chain = [n for n in ast.walk(fn) if isinstance(n, ast.If) and isinstance(n.test, ast.Compare) and "value_type" in u(n.test.left)
             and not (isinstance(parent(n), ast.If) and n in parent(n).orelse)]
    if len(chain) != 1:
        ctx.unknown("R08b", c, "one if/elif/else chain on the signal's value type", f"{len(chain)} chains")
        return
    n = chain[0]
    arms = []
    cur = n
    while True:
        arms.append((u(cur.test), cur.body))
        if len(cur.orelse) == 1 and isinstance(cur.orelse[0], ast.If):
            cur = cur.orelse[0]
        else:
            arms.append((None, cur.orelse))
            break
    subj = {u(x.test.left) for x in [n] + [a for a in ast.walk(n) if isinstance(a, ast.If) and a is not n and "value_type" in u(a.test)]}
    ctx.check(subj == {f"{sigp}.value_type"}, "R08b", c, "the decision reads the input signal's type (the copy's type was already overwritten)", str(subj),
              key_detail="decision subject", loc=ctx.loc("pyrex.antenna", n))
    table = {}
    for t, body in arms:
        kind = "else" if t is None else ("voltage" if t.endswith("Type.voltage") else "field" if t.endswith("Type.field") else t)
        acts = [u(s) for s in body]
        table[kind] = acts
    ok = (table.get("voltage") == ["pass"] and len(table.get("field", [])) == 1 and len(table.get("else", [])) == 1 and "raise ValueError" in table["else"][0])
    div_ok = False
    if ok:
        st = [s for t, b in arms if t and t.endswith("Type.field") for s in b][0]
        if isinstance(st, ast.AugAssign) and isinstance(st.op, ast.Div) and u(st.value) == "self.antenna_factor":
            div_ok = True
        elif isinstance(st, ast.Assign) and isinstance(st.value, ast.BinOp) and isinstance(st.value.op, ast.Div) and u(st.value.right) == "self.antenna_factor" \
                and u(st.value.left) == u(st.targets[0]):
            div_ok = True
    ctx.check(ok and div_ok, "R08b", c, "voltage -> factor unchanged; field -> factor divided by self.antenna_factor; anything else -> ValueError", str(table),
              key_detail="type decision table")
    ctx.check(all(isinstance(op, ast.Eq) for x in ast.walk(n) if isinstance(x, ast.Compare) and "value_type" in u(x.left) for op in x.ops), "R08b", c,
              "the tests are equalities with Signal.Type members", "", key_detail="equality tests")


def r08c(ctx):
    repo = ctx.repo
    ctx.rule("R08c", "apply_response: result is signal.copy(); filter_frequencies(self.frequency_response, force_real=force_real) exactly once; "
             "scaled once by d_gain*p_gain*efficiency; result typed voltage", expected=5, kind="N")
    fn = repo.member(A, "apply_response")
    c = f"{A}.apply_response"
    sigp = fn.args.args[1].arg
    body = strip_doc(fn)
    cp = [s for s in body if isinstance(s, ast.Assign) and u(s.value) == f"{sigp}.copy()"]
    ctx.check(len(cp) == 1, "R08c", c, "the processed signal is a copy of the input", str([u(s) for s in cp]), key_detail="copy", loc=ctx.loc("pyrex.antenna", fn))
    if not cp:
        return
    new = u(cp[0].targets[0])
    cnt = paths.seq(body, lambda n: is_call(n, name="filter_frequencies", recv=new))
    ok = all(v == (1, 1) for k, v in cnt.items() if k in ("fall", "return"))
    fc = calls(fn, name="filter_frequencies", recv=new)
    ok = ok and len(fc) == 1 and fc[0].args and u(fc[0].args[0]) == "self.frequency_response" and {k: u(v) for k, v in kwargs_of(fc[0]).items()} == {"force_real": "force_real"}
    ctx.check(ok, "R08c", c, "the frequency response is applied exactly once on every normal path, with force_real forwarded", f"{cnt} {[u(x) for x in fc]}",
              key_detail="filter once")
    cnt = paths.seq(body, lambda n: isinstance(n, ast.AugAssign) and u(n.target) == new and isinstance(n.op, ast.Mult))
    ok = all(v == (1, 1) for k, v in cnt.items() if k in ("fall", "return"))
    ctx.check(ok, "R08c", c, "the copy is scaled exactly once", str(cnt), key_detail="scale once")
    env = local_env(fn)
    sf = [s for s in body if isinstance(s, ast.Assign) and u(s.targets[0]) == "signal_factor"]
    ok = len(sf) == 1 and NF().nf(sf[0].value).equals(NF().nf(parse_expr("d_gain * p_gain * self.efficiency")))
    ctx.check(ok, "R08c", c, "the scale factor is d_gain * p_gain * efficiency", u(sf[0].value) if sf else "", key_detail="scale factor")
    vt = [s for s in body if isinstance(s, ast.Assign) and u(s.targets[0]) == f"{new}.value_type"]
    ctx.check(len(vt) == 1 and u(vt[0].value).endswith("Type.voltage"), "R08c", c, "the result is typed as a voltage", "", key_detail="result type")
    r = returns(fn)
    ctx.check(len(r) == 1 and u(r[0].value) == new, "R08c", c, "the scaled copy is returned", "", key_detail="return")
    # gains: from the arrival direction (origin = position - normalize(direction)) / normalized polarization, 1 when not given
    dg = [s for s in ast.walk(fn) if isinstance(s, ast.Assign) and u(s.targets[0]) == "d_gain"]
    pg = [s for s in ast.walk(fn) if isinstance(s, ast.Assign) and u(s.targets[0]) == "p_gain"]
    ok = sorted(u(s.value) for s in dg) == ["1", "self.directional_gain(theta=theta, phi=phi)"] and \
        sorted(u(s.value) for s in pg) == ["1", "self.polarization_gain(normalize(polarization))"]
    org = [s for s in ast.walk(fn) if isinstance(s, ast.Assign) and u(s.targets[0]) == "origin"]
    ok = ok and len(org) == 1 and u(org[0].value) == "self.position - normalize(direction)"
    ctx.check(ok, "R08c", c, "gains default to 1 without direction/polarization and are evaluated at the arrival direction / normalized polarization",
              f"{[u(s.value) for s in dg]} {[u(s.value) for s in pg]}", key_detail="gain arguments")


FORWARD = {"apply_response": "apply_response", "receive": "receive", "set_orientation": "set_orientation", "trigger": "trigger"}


def r08d(ctx):
    repo = ctx.repo
    ctx.rule("R08d", "AntennaSystem.{apply_response,receive,set_orientation,trigger} forward every parameter under its own name to self.antenna.<same>",
             expected=4, kind="N")
    systems = [repo.cls(S)]
    if ctx.tier == "thorough":
        systems += [c for c in repo.subclasses("AntennaSystem")]
    for ci in systems:
        for m in FORWARD:
            if m not in ci.methods:
                continue
            fn = ci.methods[m][1]
            if ci.qual != S:
                # subclass override: must reach the base behaviour through super().<m>(...) or self.antenna.<m>(...)
                fw = [c for c in ast.walk(fn) if isinstance(c, ast.Call) and isinstance(c.func, ast.Attribute) and c.func.attr == m
                      and (u(c.func.value) in ("super()", "self.antenna"))]
                if not fw:
                    continue
            else:
                fw = calls(fn, name=m, recv="self.antenna")
            params = param_names(fn)
            construct = f"{ci.qual}.{m}"
            if len(fw) != 1:
                ctx.bad("R08d", construct, f"delegates exactly once to self.antenna.{m}", f"{len(fw)} delegation calls", key_detail="delegation count",
                        loc=ctx.loc(ci.module, fn))
                continue
            c = fw[0]
            target = repo.lookup(A, m)[2]
            tparams = param_names(target)
            passed = {}
            for i, a in enumerate(c.args):
                if i < len(tparams):
                    passed[tparams[i]] = u(a)
            for k, v in kwargs_of(c).items():
                passed[k] = u(v)
            missing = [p for p in params if p in tparams and passed.get(p) != p]
            ctx.check(not missing, "R08d", construct, f"every parameter ({params}) is forwarded under its own name", f"call `{u(c)[:100]}`; not forwarded: {missing}",
                      key_detail="forwarding", loc=ctx.loc(ci.module, c))
            if ci.qual == S:
                r = returns(fn)
                ok = (len(r) == 1 and r[0].value is c) or (not r and isinstance(parent(c), ast.Expr))
                ctx.check(ok, "R08d", construct, "the delegate's result is the method's result", "", key_detail="result forwarded")
                d1 = [u(x) for x in fn.args.defaults]
                d2 = [u(x) for x in target.args.defaults]
                ctx.check(d1 == d2, "R08d", construct, "defaults equal the antenna's defaults", f"{d1} vs {d2}", key_detail="defaults")


def r08e(ctx):
    repo = ctx.repo
    ctx.rule("R08e", "rotation covariance: with position, direction, polarization, z_axis, x_axis typed as lab-frame vectors, the spherical coordinates, "
             "both gains and the response values are scalars (no component of a lab-frame vector is extracted)", expected=6, kind="S")
    dom = Rotation()
    it = Interp(repo, dom, depth=10)
    VEC, U = dom.VEC, dom.U
    arm_tests = find_type_tests(repo)
    for q in (A, DA):
        ci = repo.cls(q)

        def ant():
            return Obj(ci, {"position": VEC, "z_axis": VEC, "x_axis": VEC, "antenna_factor": U, "efficiency": U, "filter_coeffs": Tup([U, U])})
        it.notes.clear()
        r = it.call_fn(it.getattr_obj(ant(), "_convert_to_antenna_coordinates", 0), [VEC], {}, 0)
        items = r.items if isinstance(r, Tup) else [r]
        flat = [it.flat(x) for x in items]
        verdict(ctx, "R08e", f"{q}._convert_to_antenna_coordinates", "r, theta, phi of a lab-frame point are rotation scalars", flat, it.notes)
        g = it.call_fn(it.getattr_obj(ant(), "polarization_gain", 0), [VEC], {}, 0)
        verdict(ctx, "R08e", f"{q}.polarization_gain", "polarization gain of a lab-frame polarization is a rotation scalar", [it.flat(g)], it.notes)
        g = it.call_fn(it.getattr_obj(ant(), "directional_gain", 0), [], {"theta": U, "phi": U}, 0)
        verdict(ctx, "R08e", f"{q}.directional_gain", "directional gain is a function of the antenna-frame angles only", [it.flat(g)], it.notes)
        it.assume = dict(arm_tests["voltage"])
        it.assume.update({"direction is None": False, "polarization is None": False})
        sig = plain_signal(repo, dom)
        out = it.call_fn(it.getattr_obj(ant(), "apply_response", 0), [sig], {"direction": VEC, "polarization": VEC, "force_real": U}, 0)
        val = out.fields.get("values") if isinstance(out, Obj) else out
        verdict(ctx, "R08e", f"{q}.apply_response", "response values do not depend on the frame (direction, polarization, axes rotate together)", [it.flat(val)], it.notes)
        it.assume = {}
    # set_orientation stores normalized axes and demands perpendicularity
    so = repo.member(A, "set_orientation")
    txt = [u(s) for s in strip_doc(so)]
    ok = txt[:2] == ["self.z_axis = normalize(z_axis)", "self.x_axis = normalize(x_axis)"] and any("np.dot(self.z_axis, self.x_axis)" in t and "raise ValueError" in t for t in txt)
    ctx.check(ok, "R08e", f"{A}.set_orientation", "axes are stored normalized and must be perpendicular", "", key_detail="orientation")
    cf = repo.member(A, "_convert_to_antenna_coordinates")
    env = local_env(cf)
    ok = (u(env.get("transformation")) == "np.array([self.x_axis, y_axis, self.z_axis])" and u(env.get("y_axis")) == "np.cross(self.z_axis, self.x_axis)"
          and u(env.get("rel_point")) == "np.array(point) - np.array(self.position)")
    ctx.check(ok, "R08e", f"{A}._convert_to_antenna_coordinates", "antenna frame = rows [x_axis, z_axis x x_axis, z_axis] applied to (point - position)",
              "", key_detail="transformation matrix")
    ok = NF().nf(env["theta"]).equals(NF().nf(parse_expr("np.arccos(z/r)"))) and u(env["phi"]) == "np.arctan2(y, x) % (2 * np.pi)" \
        and NF().nf(env["r"]).equals(NF().nf(parse_expr("np.sqrt(x**2+y**2+z**2)")))
    ctx.check(ok, "R08e", f"{A}._convert_to_antenna_coordinates", "r = |v|, theta = arccos(z/r), phi = arctan2(y, x) mod 2pi", "", key_detail="spherical angles")


def verdict(ctx, rule, construct, what, vals, notes):
    bad = [v for v in vals if getattr(v, "k", None) == "fd"]
    top = [v for v in vals if getattr(v, "k", None) == "top"]
    vec = [v for v in vals if getattr(v, "k", None) in ("vec", "mat")]
    if bad:
        ctx.bad(rule, construct, what, f"frame-dependent value: {bad[0]!r}", key_detail=what)
    elif vec:
        ctx.bad(rule, construct, what, f"result still transforms as a vector: {vals}", key_detail=what)
    elif top:
        ctx.unknown(rule, construct, what, f"{top[0]!r} notes={sorted(set(notes))[:3]}")
    else:
        ctx.ok(rule, construct, what, str(vals))


def r08f(ctx):
    repo = ctx.repo
    ctx.rule("R08f", "dipole: directional_gain == sin(theta); polarization_gain == vdot(z_axis, polarization); antenna_factor == 1/effective_height",
             expected=3, kind="N")
    dg = repo.member(DA, "directional_gain")
    r = returns(dg)
    th = dg.args.args[1].arg
    ctx.check(len(r) == 1 and NF().nf(r[0].value).equals(NF().nf(parse_expr(f"np.sin({th})"))), "R08f", f"{DA}.directional_gain", "gain is sin(theta) from the dipole axis",
              u(r[0].value) if r else "", key_detail="directional gain", loc=ctx.loc("pyrex.antenna", dg))
    pg = repo.member(DA, "polarization_gain")
    r = returns(pg)
    pol = pg.args.args[1].arg
    ok = len(r) == 1 and u(r[0].value) in (f"np.vdot(self.z_axis, {pol})", f"np.dot(self.z_axis, {pol})", f"np.vdot({pol}, self.z_axis)", f"np.dot({pol}, self.z_axis)")
    ctx.check(ok, "R08f", f"{DA}.polarization_gain", "gain is the projection of the polarization on the dipole axis", u(r[0].value) if r else "", key_detail="polarization gain")
    init = repo.member(DA, "__init__")
    sc = [c for c in ast.walk(init) if is_call(c, name="__init__") and "super()" in u(c.func)]
    kw = {k: v for k, v in kwargs_of(sc[0]).items()} if sc else {}
    ok = "antenna_factor" in kw and NF().nf(kw["antenna_factor"]).equals(NF().nf(parse_expr("1/self.effective_height"))) and u(kw.get("z_axis")) == "orientation"
    ctx.check(ok, "R08f", f"{DA}.__init__", "antenna factor is 1/effective_height and the dipole axis is the given orientation", u(kw.get("antenna_factor")) if kw else "",
              key_detail="antenna factor")
    eh = [s for s in ast.walk(init) if isinstance(s, ast.Assign) and u(s.targets[0]) == "self.effective_height"]
    ok = any(NF().nf(s.value).equals(NF().nf(parse_expr("scipy.constants.c / center_frequency / 2"))) for s in eh) and any(u(s.value) == "effective_height" for s in eh)
    ctx.check(ok, "R08f", f"{DA}.__init__", "effective height defaults to half a wavelength at the centre frequency", "", key_detail="effective height")
    band = {u(s.targets[0]): s.value for s in ast.walk(init) if isinstance(s, ast.Assign) and u(s.targets[0]) in ("f_low", "f_high")}
    ok = set(band) == {"f_low", "f_high"} and NF().nf(band["f_low"]).equals(NF().nf(parse_expr("center_frequency - bandwidth/2"))) \
        and NF().nf(band["f_high"]).equals(NF().nf(parse_expr("center_frequency + bandwidth/2"))) and u(kw.get("freq_range")) == "(f_low, f_high)"
    ctx.check(ok, "R08f", f"{DA}.__init__", "band is centre +- bandwidth/2 and is the antenna's frequency range", "", key_detail="band")


def r08g(ctx):
    repo = ctx.repo
    ctx.rule("R08g", "receive: length-mismatch raises; exactly one object is appended to self.signals on every normal path; it is the sum over "
             "zip(signal, polarization) of apply_response results with all parameters forwarded", expected=3, kind="N")
    fn = repo.member(A, "receive")
    c = f"{A}.receive"
    cnt = paths.seq(strip_doc(fn), lambda n: is_call(n, name="append", recv="self.signals"))
    normal = [v for k, v in cnt.items() if k in ("fall", "return")]
    ctx.check(normal and all(v == (1, 1) for v in normal) and all(v[1] == 0 for k, v in cnt.items() if k == "raise"), "R08g", c, "exactly one stored signal per successful receive (falling off the end or returning), none when it raises",
              str(cnt), key_detail="append count", loc=ctx.loc("pyrex.antenna", fn))
    app = calls(fn, name="append", recv="self.signals")
    ok = False
    detail = ""
    if app:
        arg = app[0].args[0]
        env = local_env(fn)
        if isinstance(arg, ast.Name) and arg.id in env:
            arg = env[arg.id]
        detail = u(arg)[:160]
        if is_call(arg, func="sum") and arg.args and isinstance(arg.args[0], (ast.ListComp, ast.GeneratorExp)):
            comp = arg.args[0]
            g = comp.generators[0]
            elt = comp.elt
            ok = (is_call(g.iter, func="zip") and [u(a) for a in g.iter.args] == ["signal", "polarization"] and is_call(elt, name="apply_response", recv="self")
                  and len(comp.generators) == 1 and not g.ifs)
            if ok:
                tv = [t.id for t in g.target.elts]
                kw = {k: u(v) for k, v in kwargs_of(elt).items()}
                ok = kw == {"signal": tv[0], "direction": "direction", "polarization": tv[1], "force_real": "force_real"}
    ctx.check(ok, "R08g", c, "stored signal = sum(apply_response(signal=s, direction=direction, polarization=p, force_real=force_real) for s, p in zip(signal, polarization))",
              detail, key_detail="sum of responses")
    top = strip_doc(fn)[0]
    ok = isinstance(top, ast.If) and u(top.test) == "hasattr(signal, '__len__')" and any(isinstance(x, ast.Raise) and "ValueError" in u(x) for x in ast.walk(top.body[0])) \
        and "len(signal) != len(polarization)" in u(top.body[0].test) and [u(s) for s in top.orelse] == ["signal = [signal]", "polarization = [polarization]"]
    ctx.check(ok, "R08g", c, "several signals need as many polarizations (else ValueError); a single signal is wrapped with its polarization", "", key_detail="length guard")


def r08h(ctx):
    """apply_response filters a *copy* of the incoming signal; for a function-backed signal the copy must not share the inner filter lists
    with the input, or every further pass through an antenna stacks another response on the caller's signal (output != filtered input times
    gains from the second call on).  Decided by C04's R04c; reported here as well."""
    from . import c04
    from ._cross import relay
    relay(ctx, "R08h", "the copy that apply_response filters shares no component list with the incoming signal (= R04c)", "C04", c04.r04c, "R04c", kind="N")


def r08k(ctx):
    """Pointed: partial evaluation of Antenna.apply_response for each member of Signal.Type (read from the enum's own body).  Only the value-type tests
    are decided; every other test takes both branches.  A member other than voltage / field for which no path raises is accepted -- that is the finding,
    whatever the spelling of the dispatch."""
    repo = ctx.repo
    ctx.rule("R08k", "for every Signal.Type member other than voltage and field, some statement of apply_response raises on every path the member can take "
             "(rejection by exclusion, not by listing the bad types)", expected=2, kind="N")
    fn = repo.member(A, "apply_response")
    c = f"{A}.apply_response"
    sigp = fn.args.args[1].arg
    tcls = None
    for n in ast.walk(repo.cls("pyrex.signals.Signal").node):
        if isinstance(n, ast.ClassDef) and n.name == "Type":
            tcls = n
    members = {}
    for st in (tcls.body if tcls else []):
        if isinstance(st, ast.Assign) and isinstance(st.targets[0], ast.Name) and isinstance(st.value, ast.Constant):
            members[st.targets[0].id] = st.value.value
    if "voltage" not in members or "field" not in members:
        ctx.unknown("R08k", c, "Signal.Type members are class-level constants", str(members), required=False)
        return
    alias = {f"{sigp}.value_type"}
    for n in ast.walk(fn):
        if isinstance(n, ast.Assign) and len(n.targets) == 1 and isinstance(n.targets[0], ast.Name) and u(n.value) == f"{sigp}.value_type":
            alias.add(n.targets[0].id)

    def member_of(e):
        t = u(e)
        for pre in ("Signal.Type.", f"{sigp}.Type.", "Signal.Type(", ):
            if t.startswith(pre) and t[len(pre):] in members:
                return members[t[len(pre):]]
        return None

    def ev(test, val):
        if isinstance(test, ast.UnaryOp) and isinstance(test.op, ast.Not):
            r = ev(test.operand, val)
            return None if r is None else not r
        if isinstance(test, ast.BoolOp):
            rs = [ev(v, val) for v in test.values]
            if isinstance(test.op, ast.And):
                return False if any(r is False for r in rs) else (True if all(r is True for r in rs) else None)
            return True if any(r is True for r in rs) else (False if all(r is False for r in rs) else None)
        if isinstance(test, ast.Compare) and len(test.ops) == 1:
            l, r_, op = test.left, test.comparators[0], test.ops[0]
            if u(r_) in alias and isinstance(op, (ast.Eq, ast.NotEq, ast.Is, ast.IsNot)):
                l, r_ = r_, l
            if u(l) not in alias:
                return None
            if isinstance(op, (ast.Eq, ast.Is, ast.NotEq, ast.IsNot)):
                m = member_of(r_)
                if m is None:
                    return None
                return (m == val) if isinstance(op, (ast.Eq, ast.Is)) else (m != val)
            if isinstance(op, (ast.In, ast.NotIn)) and isinstance(r_, (ast.Tuple, ast.List, ast.Set)):
                ms = [member_of(e) for e in r_.elts]
                if any(m is None for m in ms):
                    return None
                return (val in ms) if isinstance(op, ast.In) else (val not in ms)
        return None

    def run_(stmts, val):
        """-> set of outcomes of the block: 'raise', 'return', 'fall'"""
        out = {"fall"}
        for st in stmts:
            if "fall" not in out:
                break
            out.discard("fall")
            if isinstance(st, ast.Raise):
                o = {"raise"}
            elif isinstance(st, ast.Return):
                o = {"return"}
            elif isinstance(st, ast.If):
                r = ev(st.test, val)
                o = set()
                if r is not False:
                    o |= run_(st.body, val)
                if r is not True:
                    o |= run_(st.orelse, val) if st.orelse else {"fall"}
            elif isinstance(st, (ast.For, ast.While, ast.With, ast.Try)):
                o = {"fall"}
                for blk in [getattr(st, "body", []), getattr(st, "orelse", []), getattr(st, "finalbody", [])] + [h.body for h in getattr(st, "handlers", [])]:
                    o |= run_(blk, val) if blk else set()
                if any(isinstance(x, ast.Call) and isinstance(y, ast.Name) and y.id in alias | {sigp} for x in ast.walk(st) for y in ast.walk(x) if isinstance(x, ast.Call)):
                    o.add("raise")      # the signal is handed to something inside a compound statement: not read
            else:
                o = {"fall"}
            out |= o
        return out
    # a helper that receives the value type may do the rejecting: not read by this rule
    handed = [x for x in ast.walk(fn) if isinstance(x, ast.Call) and any(u(a) in alias for a in list(x.args) + [k.value for k in x.keywords]) and u(x.func) != "str"]
    if handed:
        ctx.unknown("R08k", c, "the value type is decided inside apply_response", f"handed to {u(handed[0].func)}", required=False)
        return
    done = set()
    for name, val in members.items():
        if val in (members["voltage"], members["field"]) or val in done:
            continue
        done.add(val)
        same = "/".join(k for k, v in members.items() if v == val)
        out = run_(strip_doc(fn), val)
        if "raise" not in out:
            ctx.bad("R08k", c, f"a signal of type `{same}` is rejected", f"with value_type == Signal.Type.{name} no path through apply_response reaches a raise "
                    f"(outcomes: {sorted(out)}): the input is processed as if it were a voltage", key_detail=f"type {name} accepted", loc=ctx.loc("pyrex.antenna", fn), pointed=True)
        elif out == {"raise"}:
            ctx.ok("R08k", c, f"a signal of type `{same}` is rejected on every path")
        else:
            ctx.unknown("R08k", c, f"a signal of type `{same}` is rejected on every path", f"outcomes {sorted(out)}", required=False)


def run(ctx):
    ctx.guard(r08k)         # pointed rules first (see Ctx.guard)
    ctx.guard(r08h)
    ctx.guard(r08a)
    ctx.guard(r08b)
    ctx.guard(r08c)
    ctx.guard(r08d)
    ctx.guard(r08e)
    ctx.guard(r08f)
    ctx.guard(r08g)


SELFTEST = {
    "faults": [
        {"name": "only the undefined type is rejected, up front", "file": "pyrex/antenna.py",
         "old": "        else:\n            raise ValueError(\"Signal's value type must be either \"\n                             +\"voltage or field. Given \"+str(signal.value_type))\n        new_signal *= signal_factor",
         "new": "        elif signal.value_type==Signal.Type.undefined:\n            raise ValueError(\"Signal's value type must be either \"\n                             +\"voltage or field. Given \"+str(signal.value_type))\n        new_signal *= signal_factor",
         "rule": "R08k"},
        {"name": "force_real dropped in AntennaSystem.apply_response (generic hand-over rule)", "file": "pyrex/detector.py",
         "old": "        return self.antenna.apply_response(signal, direction=direction,\n                                           polarization=polarization,\n                                           force_real=force_real)",
         "new": "        return self.antenna.apply_response(signal, direction=direction,\n                                           polarization=polarization)", "rule": "R08x"},
        {"name": "*= for /= on antenna_factor", "file": "pyrex/antenna.py", "old": "            signal_factor /= self.antenna_factor", "new": "            signal_factor *= self.antenna_factor",
         "rule": ["R08a", "R08b"]},
        {"name": "divide on the voltage arm too", "file": "pyrex/antenna.py", "old": "        if signal.value_type==Signal.Type.voltage:\n            pass",
         "new": "        if signal.value_type==Signal.Type.voltage:\n            signal_factor /= self.antenna_factor", "rule": ["R08a", "R08b"]},
        {"name": "force_real dropped in AntennaSystem.receive", "file": "pyrex/detector.py",
         "old": "        return self.antenna.receive(signal, direction=direction,\n                                    polarization=polarization,\n                                    force_real=force_real)",
         "new": "        return self.antenna.receive(signal, direction=direction,\n                                    polarization=polarization)", "rule": "R08d"},
        {"name": "lab-frame component instead of projection", "file": "pyrex/antenna.py", "old": "        return np.vdot(self.z_axis, polarization)", "new": "        return polarization[2]",
         "rule": ["R08e", "R08f"]},
        {"name": "decision on the copy's type", "file": "pyrex/antenna.py", "old": "        elif signal.value_type==Signal.Type.field:", "new": "        elif new_signal.value_type==Signal.Type.field:",
         "rule": "R08b"},
        {"name": "efficiency squared", "file": "pyrex/antenna.py", "old": "signal_factor = d_gain * p_gain * self.efficiency", "new": "signal_factor = d_gain * p_gain * self.efficiency**2",
         "rule": ["R08a", "R08c"]},
        {"name": "filter applied twice", "file": "pyrex/antenna.py", "old": "        if direction is None:\n            d_gain = 1",
         "new": "        new_signal.filter_frequencies(self.frequency_response, force_real=force_real)\n        if direction is None:\n            d_gain = 1", "rule": ["R08c", "R08a"]},
        {"name": "direction not normalized against position swap", "file": "pyrex/antenna.py", "old": "origin = self.position - normalize(direction)", "new": "origin = normalize(direction) - self.position",
         "rule": "R08c"},
        {"name": "receive appends per component", "file": "pyrex/antenna.py", "old": "        self.signals.append(total_signal)", "new": "        for _s in [total_signal, total_signal]:\n            self.signals.append(_s)",
         "rule": "R08g"},
    ],
    "benign": [
        {"name": "plain for augmented division", "file": "pyrex/antenna.py", "old": "            signal_factor /= self.antenna_factor", "new": "            signal_factor = signal_factor / self.antenna_factor"},
        {"name": "factor order", "file": "pyrex/antenna.py", "old": "signal_factor = d_gain * p_gain * self.efficiency", "new": "signal_factor = self.efficiency * p_gain * d_gain"},
    ],
}
