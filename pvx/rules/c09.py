"""C09 -- antenna and antenna-system hit bookkeeping is consistent under every history."""
import ast
import difflib

from ..core.source import AnalysisError, parent
from ..core import paths
from ..core.astutil import strip_doc, stmts_in_order, calls, is_call, kwargs_of, guards, u, parse_expr, returns, self_attr, enclosing_stmt
from ..core.exprnf import NF, local_env

META = {
    "explanation": "Per-method rules that hold for every interleaving of receive / query / clear because each cache is "
                   "brought up to date against its source on every read: R09a shape of the 5 catch-up loops (strict <, one append "
                   "per iteration on every path, source indexed at len(cache)); R09b clear() empties every list initialised in "
                   "__init__ and resets noise only on request; R09c definitions of is_hit / waveforms / is_hit_during; R09d a single "
                   "noise realisation (construction guarded by `is None`, only __init__/clear/make_noise assign it); R09e "
                   "superposition in full_waveform (start value, disjointness skip, re-gridding); R09f Antenna and AntennaSystem "
                   "siblings agree after the substitution self.signals -> self.antenna.signals; R09g lead-in grid keeps dt.",
    "not_decided": ["numerical equality of the superposition", "n_pts rounding", "front-end behaviour of subclasses"],
    "trusted_base": ["CPython ast"],
    "assumptions": ["signals are appended only by receive()"],
}

A = "pyrex.antenna.Antenna"
S = "pyrex.detector.AntennaSystem"


# ------------------------------------------------------------------------------------------------ R09a
def catchup_loops(repo, qual):
    ci = repo.cls(qual)
    out = []
    for name, (kind, fn) in ci.methods.items():
        for w in ast.walk(fn):
            if isinstance(w, ast.While):
                out.append((name, fn, w))
    return out


def r09a(ctx):
    repo = ctx.repo
    ctx.rule("R09a", "catch-up loop `while len(C) < len(S): ... C.append(E)`: strict <, exactly one append per iteration on every "
             "path, every subscript of S in the body is S[len(C)], the property returns C (or its filtered zip)", expected=5, kind="N")
    n = 0
    for q in (A, S):
        for name, fn, w in catchup_loops(repo, q):
            construct = f"{q}.{name}"
            t = w.test
            ok_shape = (isinstance(t, ast.Compare) and len(t.ops) == 1 and isinstance(t.left, ast.Call) and u(t.left.func) == "len"
                        and isinstance(t.comparators[0], ast.Call) and u(t.comparators[0].func) == "len")
            if not ok_shape:
                ctx.unknown("R09a", construct, "while-loop is a catch-up loop over len(cache) / len(source)", u(t), required=False)
                continue
            n += 1
            C, Ssrc = u(t.left.args[0]), u(t.comparators[0].args[0])
            ctx.check(isinstance(t.ops[0], ast.Lt), "R09a", construct, f"loop runs while len({C}) < len({Ssrc}) (strict)", u(t),
                      key_detail="comparator", loc=ctx.loc(repo.cls(q).module, w))
            cnt = paths.seq(w.body, lambda x: is_call(x, name="append", recv=C))
            ok = cnt.get("fall") == (1, 1) and not any(k in cnt for k in ("break", "continue", "return"))
            ctx.check(ok, "R09a", construct, f"exactly one {C}.append(...) per iteration on every path", f"(min,max) per outcome={cnt}", key_detail="append count")
            # resolve a local alias of the source (all_waves = self.all_waveforms)
            src_names = {Ssrc}
            for st in fn.body:
                if isinstance(st, ast.Assign) and len(st.targets) == 1 and isinstance(st.targets[0], ast.Name) and st.targets[0].id == Ssrc:
                    src_names.add(u(st.value))
            subs = [s for s in ast.walk(w) if isinstance(s, ast.Subscript) and u(s.value) in src_names and not isinstance(s.slice, ast.Slice)]
            idx_ok = bool(subs) and all(u(s.slice) == f"len({C})" for s in subs)
            ctx.check(idx_ok, "R09a", construct, f"the source is read at index len({C}) -- the first entry not yet cached", str([u(s) for s in subs]),
                      key_detail="source index")
            # the appended value derives from that entry
            app = [c for c in ast.walk(w) if is_call(c, name="append", recv=C)]
            if app and subs:
                names = {x.id for x in ast.walk(app[0].args[0]) if isinstance(x, ast.Name)}
                env = {}
                for st in w.body:
                    if isinstance(st, ast.Assign) and isinstance(st.targets[0], ast.Name):
                        env[st.targets[0].id] = st.value
                seen, work = set(), list(names)
                dep = any(u(s) in u(app[0].args[0]) for s in subs)
                while work and not dep:
                    nm = work.pop()
                    if nm in seen or nm not in env:
                        continue
                    seen.add(nm)
                    if any(u(s) in u(env[nm]) for s in subs):
                        dep = True
                    work += [x.id for x in ast.walk(env[nm]) if isinstance(x, ast.Name)]
                ctx.check(dep, "R09a", construct, "the appended value is computed from that source entry", u(app[0])[:90], key_detail="appended value")
            # return value
            rets = returns(fn)
            ok = len(rets) == 1 and (u(rets[0].value) == C or (isinstance(rets[0].value, ast.ListComp) and C in u(rets[0].value)))
            ctx.check(ok, "R09a", construct, f"the property returns {C} (or the filter of it)", u(rets[0].value)[:90] if rets else "", key_detail="return")
            # the source really is the sibling signal list
            if "signals" in Ssrc or "all_waves" in Ssrc or "all_waveforms" in "".join(src_names):
                pass
    if n < 5:
        raise AnalysisError(f"only {n} catch-up loops found in Antenna/AntennaSystem (5 on the pinned tree)")


# ------------------------------------------------------------------------------------------------ R09b
def list_inits(fn):
    out = []
    for st in fn.body:
        if isinstance(st, ast.Assign) and len(st.targets) == 1 and self_attr(st.targets[0]) and isinstance(st.value, ast.List) and not st.value.elts:
            out.append(st.targets[0].attr)
    return out


def r09b(ctx):
    repo = ctx.repo
    ctx.rule("R09b", "clear(): every list initialised to [] in __init__ is emptied unconditionally; _noise_master is reset only under "
             "reset_noise; the system clears its antenna with the same flag", expected=4, kind="N")
    for q in (A, S):
        init = repo.member(q, "__init__")
        clr = repo.member(q, "clear")
        lists = list_inits(init)
        if len(lists) < 3:
            raise AnalysisError(f"{q}.__init__: expected >=3 list attributes, found {lists}")
        body = strip_doc(clr)
        cleared = set()
        for st in body:           # top level only = unconditional
            if isinstance(st, ast.Expr) and is_call(st.value, name="clear") and self_attr(st.value.func.value):
                cleared.add(st.value.func.value.attr)
            elif isinstance(st, ast.Assign) and self_attr(st.targets[0]) and isinstance(st.value, ast.List) and not st.value.elts:
                cleared.add(st.targets[0].attr)
            elif isinstance(st, ast.Delete):
                for t in st.targets:
                    if isinstance(t, ast.Subscript) and self_attr(t.value) and u(t.slice) == ":":
                        cleared.add(t.value.attr)
        ctx.check(set(lists) <= cleared, "R09b", f"{q}.clear", f"every list of __init__ ({lists}) is emptied unconditionally",
                  f"cleared: {sorted(cleared)}", key_detail="lists cleared", loc=ctx.loc(repo.cls(q).module, clr))
    clr = repo.member(A, "clear")
    nm = [st for st in ast.walk(clr) if isinstance(st, ast.Assign) and self_attr(st.targets[0], "_noise_master")]
    ok = len(nm) == 1 and u(nm[0].value) == "None"
    if ok:
        g = guards(nm[0], stop=clr)
        ok = len(g) == 1 and u(g[0][0]) == "reset_noise" and g[0][1]
    ctx.check(ok, "R09b", f"{A}.clear", "the noise realisation is dropped exactly when reset_noise is true", "", key_detail="noise reset guard")
    sclr = repo.member(S, "clear")
    c = calls(sclr, name="clear", recv="self.antenna")
    ok = len(c) == 1 and {k: u(v) for k, v in kwargs_of(c[0]).items()} == {"reset_noise": "reset_noise"} or (len(c) == 1 and [u(a) for a in c[0].args] == ["reset_noise"])
    ok = ok and parent(parent(c[0])) is sclr if c else False
    ctx.check(ok, "R09b", f"{S}.clear", "the system clears its antenna unconditionally, forwarding reset_noise", u(c[0]) if c else "", key_detail="antenna clear")
    d1 = repo.member(A, "clear").args.defaults
    d2 = sclr.args.defaults
    ctx.check([u(x) for x in d1] == [u(x) for x in d2] == ["False"], "R09b", f"{S}.clear", "reset_noise defaults to False in both", "", key_detail="default")


# ------------------------------------------------------------------------------------------------ R09c
def r09c(ctx):
    repo = ctx.repo
    ctx.rule("R09c", "is_hit == len(waveforms) > 0; waveforms == zip-filter of all_waveforms by _triggers in order; "
             "is_hit_during == trigger(full_waveform(times))", expected=6, kind="N")
    for q in (A, S):
        mod = repo.cls(q).module
        f = repo.member(q, "is_hit")
        r = returns(f)
        ctx.check(len(r) == 1 and u(r[0].value).replace(" ", "") in ("len(self.waveforms)>0", "len(self.waveforms)!=0", "bool(self.waveforms)"),
                  "R09c", f"{q}.is_hit", "is_hit is true exactly when there is at least one triggered waveform", u(r[0].value) if r else "", key_detail="is_hit")
        f = repo.member(q, "waveforms")
        r = returns(f)
        ok = False
        if len(r) == 1 and isinstance(r[0].value, ast.ListComp):
            lc = r[0].value
            g = lc.generators[0]
            ok = (len(lc.generators) == 1 and is_call(g.iter, func="zip") and len(g.iter.args) == 2 and u(g.iter.args[1]) == "self._triggers"
                  and isinstance(g.target, ast.Tuple) and len(g.target.elts) == 2 and u(lc.elt) == u(g.target.elts[0])
                  and len(g.ifs) == 1 and u(g.ifs[0]) == u(g.target.elts[1]))
            src = u(g.iter.args[0])
            al = [st for st in f.body if isinstance(st, ast.Assign) and u(st.targets[0]) == src]
            ok = ok and (src == "self.all_waveforms" or (len(al) == 1 and u(al[0].value) == "self.all_waveforms"))
        ctx.check(ok, "R09c", f"{q}.waveforms", "waveforms are exactly the all_waveforms entries whose trigger flag is true, in order",
                  u(r[0].value)[:100] if r else "", key_detail="waveform filter")
        f = repo.member(q, "is_hit_during")
        r = returns(f)
        ctx.check(len(r) == 1 and u(r[0].value) == "self.trigger(self.full_waveform(times))", "R09c", f"{q}.is_hit_during",
                  "is_hit_during evaluates the trigger on the full waveform over the given times", u(r[0].value) if r else "", key_detail="is_hit_during")


# ------------------------------------------------------------------------------------------------ R09d
def r09d(ctx):
    repo = ctx.repo
    ctx.rule("R09d", "one noise realisation: _noise_master is built only under `is None`, every return of make_noise is "
             "_noise_master.with_times(times), no other method assigns it", expected=3, kind="N")
    f = repo.member(A, "make_noise")
    asg = [st for st in ast.walk(f) if isinstance(st, ast.Assign) and self_attr(st.targets[0], "_noise_master")]
    ok = bool(asg)
    # (a guard clause at the top of the function -- `if self._noise_master is not None: return ...` -- says the same for everything after it)
    clause = False
    for top in strip_doc(f):
        if isinstance(top, ast.If) and not top.orelse and u(top.test) in ("self._noise_master is not None", "not self._noise_master is None") \
                and top.body and isinstance(top.body[-1], (ast.Return, ast.Raise)):
            clause = True
        if any(x is top for st in asg for x in [enclosing_stmt(st, f)]):
            break
    for st in asg:
        g = guards(st, stop=f)
        ok = ok and (any(u(t) == "self._noise_master is None" and pol for t, pol in g)
                     or (clause and any(isinstance(top, ast.If) and not top.orelse and u(top.test) in ("self._noise_master is not None", "not self._noise_master is None")
                                        for top in strip_doc(f)[:[id(x) for x in strip_doc(f)].index(id(enclosing_stmt(st, f)))])))
    ctx.check(ok, "R09d", f"{A}.make_noise", "the noise master is constructed only when it is None", f"{len(asg)} construction site(s)",
              key_detail="construction guard", loc=ctx.loc("pyrex.antenna", f))
    r = returns(f)
    ctx.check(len(r) >= 1 and all(u(x.value) == "self._noise_master.with_times(times)" for x in r), "R09d", f"{A}.make_noise",
              "every return re-grids the one noise master onto the requested times", str([u(x.value) for x in r]), key_detail="return value")
    # the constructor call gets the requested times as grid and the antenna's own band / rms
    ctor = [c for c in ast.walk(f) if isinstance(c, ast.Call) and u(c.func) in ("ThermalNoise", "FFTThermalNoise", "FullThermalNoise")]
    ok = bool(ctor) and all(c.args and u(c.args[0]) == "times" and u(kwargs_of(c).get("f_band")) == "self.freq_range"
                            and u(kwargs_of(c).get("uniqueness_factor")) == "self.unique_noises" for c in ctor)
    ctx.check(ok, "R09d", f"{A}.make_noise", "the master is built on the requested grid with the antenna's band and uniqueness factor", "", key_detail="constructor arguments")
    others = []
    for q in (A, S, "pyrex.antenna.DipoleAntenna"):
        ci = repo.cls(q)
        for name, (kind, fn) in ci.methods.items():
            if (q == A and name in ("__init__", "clear", "make_noise")):
                continue
            for st in ast.walk(fn):
                if isinstance(st, (ast.Assign, ast.AugAssign)):
                    for t in (st.targets if isinstance(st, ast.Assign) else [st.target]):
                        if isinstance(t, ast.Attribute) and t.attr == "_noise_master":
                            others.append(f"{q}.{name}")
    ctx.check(not others, "R09d", A, "no other method of Antenna / DipoleAntenna / AntennaSystem assigns _noise_master", str(others), key_detail="other assignments")


# ------------------------------------------------------------------------------------------------ R09e
def r09e(ctx):
    repo = ctx.repo
    ctx.rule("R09e", "full_waveform: start = noise iff noisy else EmptySignal(long_times); every signal not disjoint from the long "
             "window is added re-gridded onto it; result re-gridded onto the requested times", expected=5, kind="N")
    f = repo.member(A, "full_waveform")
    c = f"{A}.full_waveform"
    ifs = [n for n in ast.walk(f) if isinstance(n, ast.If) and u(n.test) in ("self.noisy", "not self.noisy")]
    ok = False
    if len(ifs) == 1:
        pos, neg = (ifs[0].body, ifs[0].orelse) if u(ifs[0].test) == "self.noisy" else (ifs[0].orelse, ifs[0].body)
        ok = (len(pos) == 1 and len(neg) == 1 and u(pos[0]) == "waveform = self.make_noise(long_times)" and u(neg[0]) == "waveform = EmptySignal(long_times)")
    ctx.check(ok, "R09e", c, "start value is make_noise(long_times) iff noisy, otherwise EmptySignal(long_times)", "", key_detail="start value", loc=ctx.loc("pyrex.antenna", f))
    loops = [n for n in ast.walk(f) if isinstance(n, ast.For) and u(n.iter) == "self.signals"]
    if len(loops) != 1:
        ctx.bad("R09e", c, "one loop over all received signals", f"{len(loops)} loops", key_detail="signal loop")
        return
    lp = loops[0]
    v = lp.target.id
    adds = [n for n in ast.walk(lp) if isinstance(n, ast.AugAssign) and isinstance(n.op, ast.Add) and u(n.target) == "waveform"]
    ok = len(adds) == 1 and u(adds[0].value) == f"{v}.with_times(long_times)"
    cnt = paths.seq(lp.body, lambda x: isinstance(x, ast.AugAssign) and u(x.target) == "waveform")
    ctx.check(ok and cnt.get("fall", (0, 0))[1] == 1, "R09e", c, "each signal is added once, re-gridded onto the long window",
              f"{[u(a) for a in adds]} counts={cnt}", key_detail="superposition")
    skips = [n for n in lp.body if isinstance(n, ast.If) and any(isinstance(x, ast.Continue) for x in n.body)]
    ok = len(skips) == 1
    if ok:
        t = skips[0].test
        ok = isinstance(t, ast.BoolOp) and isinstance(t.op, ast.Or) and len(t.values) == 2
        if ok:
            forms = set()
            for cmp_ in t.values:
                if isinstance(cmp_, ast.Compare) and len(cmp_.ops) == 1:
                    l, r, op = u(cmp_.left), u(cmp_.comparators[0]), type(cmp_.ops[0]).__name__
                    if op in ("Gt", "GtE"):
                        l, r, op = r, l, {"Gt": "Lt", "GtE": "LtE"}[op]
                    forms.add((l, op, r))
            ok = forms == {(f"{v}.times[-1]", "Lt", "long_times[0]"), ("long_times[-1]", "Lt", f"{v}.times[0]")}
    ctx.check(ok, "R09e", c, "a signal is skipped only when it ends before the long window starts or starts after it ends (strict)",
              u(skips[0].test) if skips else f"{len(skips)} skip guards", key_detail="disjointness test")
    r = returns(f)
    ctx.check(len(r) == 1 and u(r[0].value) == "waveform.with_times(times)", "R09e", c, "the result is re-gridded onto the requested times",
              u(r[0].value) if r else "", key_detail="result grid")
    # long window: times extended on both sides by n_pts samples of the same dt
    env = local_env(f)
    lt = env.get("long_times")
    ok = lt is not None and is_call(lt, func="np.concatenate")
    if ok:
        parts = lt.args[0].elts if isinstance(lt.args[0], (ast.Tuple, ast.List)) else []
        ok = len(parts) == 3 and u(parts[1]) == "times"
        if ok:
            nf = NF({k: v for k, v in env.items() if k in ("dt",)})
            want0 = "times[0] + np.linspace(-n_pts * dt, 0, n_pts, endpoint=False)"
            want2 = "times[-1] + np.linspace(0, n_pts * dt, n_pts + 1)[1:]"
            ok = u(parts[0]) == want0 and u(parts[2]) == want2
    ctx.check(ok, "R09e", c, "the long window is the requested grid extended by n_pts samples of spacing dt on both sides", u(lt)[:120] if lt is not None else "",
              key_detail="long window")
    ok = u(env.get("dt")) == "times[1] - times[0]" if env.get("dt") is not None else False
    sl = env.get("signal_length")
    ctx.check(ok, "R09e", c, "dt is the spacing of the requested grid", u(env.get("dt")) if env.get("dt") is not None else "", key_detail="dt")


# ------------------------------------------------------------------------------------------------ R09f
SUBST = [("self.antenna.signals", "self.signals"), ("self.antenna.noisy", "self.noisy")]


def norm_body(fn, subst):
    out = []
    for st in strip_doc(fn):
        t = u(st)
        for a, b in subst:
            t = t.replace(a, b)
        out.append(t)
    return out


def r09f(ctx):
    repo = ctx.repo
    ctx.rule("R09f", "AntennaSystem.{is_hit,is_hit_mc_truth,is_hit_during,waveforms,all_waveforms} equal Antenna's after the substitution "
             "self.antenna.signals -> self.signals, self.antenna.noisy -> self.noisy (deviant sibling)", expected=5, kind="N")
    for m in ["is_hit", "is_hit_mc_truth", "is_hit_during", "waveforms", "all_waveforms"]:
        a = norm_body(repo.member(A, m), [])
        s = norm_body(repo.member(S, m), SUBST)
        d = [l for l in difflib.unified_diff(a, s, lineterm="", n=0) if not l.startswith(("---", "+++", "@@"))]
        ctx.check(a == s, "R09f", f"{S}.{m}", f"body equals Antenna.{m} after substituting the antenna's signal list / noisy flag",
                  f"deviation: {d}", key_detail="deviates from Antenna sibling", loc=ctx.loc("pyrex.detector", repo.member(S, m)))
    # frozen, confirmed differences (one line of reason each): signals / full_waveform / make_noise of the system wrap the antenna's
    # result in lead-in extension + front_end + re-gridding; they are checked by their own shape:
    for m, inner in (("full_waveform", "self.antenna.full_waveform(long_times)"), ("make_noise", "self.antenna.make_noise(long_times)")):
        f = repo.member(S, m)
        body = [u(x) for x in strip_doc(f)]
        ok = body == ["long_times = self._calculate_lead_in_times(times)", f"preprocessed = {inner}",
                      "processed = self.front_end(preprocessed)", "return processed.with_times(times)"]
        ctx.check(ok, "R09f", f"{S}.{m}", "system wraps the antenna's result: lead-in grid -> antenna -> front_end -> back onto the requested times",
                  str(body), key_detail="front-end wrapping")
    f = repo.member(S, "signals")
    w = [n for n in ast.walk(f) if isinstance(n, ast.While)]
    body = [u(x) for x in w[0].body] if w else []
    ok = body == ["signal = self.antenna.signals[len(self._signals)]", "long_times = self._calculate_lead_in_times(signal.times)",
                  "preprocessed = signal.with_times(long_times)", "processed = self.front_end(preprocessed)",
                  "self._signals.append(processed.with_times(signal.times))"]
    ctx.check(ok, "R09f", f"{S}.signals", "each antenna signal passes once through lead-in extension, front_end and back onto its own grid", str(body),
              key_detail="signal front-end wrapping")
    tr = repo.member(S, "trigger")
    r = returns(tr)
    ctx.check(len(r) == 1 and u(r[0].value) == "self.antenna.trigger(signal)", "R09f", f"{S}.trigger", "system trigger defers to the antenna's trigger",
              u(r[0].value) if r else "", key_detail="trigger delegation")


# ------------------------------------------------------------------------------------------------ R09g
def r09g(ctx):
    repo = ctx.repo
    ctx.rule("R09g", "lead-in grid: linspace(t0 - n*dt, t0, n, endpoint=False) prepended to times with dt = times[1]-times[0]", expected=1, kind="N")
    f = repo.member(S, "_calculate_lead_in_times")
    c = f"{S}._calculate_lead_in_times"
    # t_min is assigned twice (target, then grid-aligned): take the last definition of each local
    env = {}
    for st in f.body:
        if isinstance(st, ast.Assign) and isinstance(st.targets[0], ast.Name):
            env[st.targets[0].id] = st.value
    r = returns(f)
    ok = len(r) == 1 and is_call(r[0].value, func="np.concatenate")
    detail = ""
    if ok:
        parts = r[0].value.args[0].elts
        ok = len(parts) == 2 and u(parts[1]) == "times" and is_call(parts[0], func="np.linspace")
        if ok:
            ls = parts[0]
            kw = {k: u(v) for k, v in kwargs_of(ls).items()}
            nf = NF({k: v for k, v in env.items() if k in ("t_min", "t0", "dt")})
            start_ok = nf.nf(ls.args[0]).equals(NF().nf(parse_expr("times[0] - n_pts*(times[1]-times[0])")))
            stop_ok = nf.nf(ls.args[1]).equals(NF().nf(parse_expr("times[0]")))
            ok = start_ok and stop_ok and u(ls.args[2]) == "n_pts" and kw.get("endpoint") == "False"
            detail = f"linspace({u(ls.args[0])}={nf.nf(ls.args[0])!r}, ..., {u(ls.args[2])}, {kw})"
    ctx.check(ok, "R09g", c, "prepended samples are linspace(times[0] - n_pts*dt, times[0], n_pts, endpoint=False) with dt = times[1]-times[0]; times is the suffix",
              detail, key_detail="lead-in grid", loc=ctx.loc("pyrex.detector", f))


def r09h(ctx):
    repo = ctx.repo
    ctx.rule("R09h", "Antenna.receive stores exactly one signal on every normal exit (no early return that drops a hit): the i-th waveform belongs to the i-th receive", expected=1, kind="N")
    fn = repo.member(A, "receive")
    cnt = paths.seq(strip_doc(fn), lambda n: is_call(n, name="append", recv="self.signals"))
    normal = [v for k, v in cnt.items() if k in ("fall", "return")]
    ctx.check(bool(normal) and all(v == (1, 1) for v in normal), "R09h", f"{A}.receive", "one self.signals.append on every normal path through receive", str(cnt),
              key_detail="one stored signal per receive", loc=ctx.loc("pyrex.antenna", fn))


def r09i(ctx):
    repo = ctx.repo
    ctx.rule("R09i", "AntennaSystem._calculate_lead_in_times extends the requested grid backwards by at least lead_in_time, on the same grid: "
             "n_pts = int((t_max - (t0 - lead_in_time)) / dt) + 2 - len(times)", expected=1, kind="N")
    fn = repo.lookup(S, "_calculate_lead_in_times")[2]
    st = [n for n in ast.walk(fn) if isinstance(n, ast.Assign) and u(n.targets[0]) == "n_pts"]
    env = {}
    for x in strip_doc(fn):         # the values in force where n_pts is computed (t_min is re-used afterwards)
        if st and x is st[0]:
            break
        if isinstance(x, ast.Assign) and len(x.targets) == 1 and isinstance(x.targets[0], ast.Name):
            env[x.targets[0].id] = x.value
    want = NF(env).nf(parse_expr("int((times[-1]-(t0-self.lead_in_time))/dt)+2 - len(times)"))
    got = NF(env).nf(st[0].value) if st else None
    ctx.check(got is not None and got.equals(want), "R09i", f"{S}._calculate_lead_in_times", "number of lead-in points", u(st[0].value) if st else "no n_pts", key_detail="lead-in count",
              loc=ctx.loc("pyrex.detector", st[0] if st else fn))


def run(ctx):
    ctx.guard(r09i)
    ctx.guard(r09h)
    ctx.guard(r09a)
    ctx.guard(r09b)
    ctx.guard(r09c)
    ctx.guard(r09d)
    ctx.guard(r09e)
    ctx.guard(r09f)
    ctx.guard(r09g)


SELFTEST = {
    "faults": [
        {"name": "lead-in count from lead_in_time/dt only", "file": "pyrex/detector.py", "old": "        n_pts = int((t_max-t_min)/dt)+2 - len(times)", "new": "        n_pts = int(self.lead_in_time/dt)", "rule": "R09i"},
        {"name": "receive drops signals without amplitude", "file": "pyrex/antenna.py", "old": "        self.signals.append(total_signal)\n",
         "new": "        if not np.any(total_signal.values):\n            return\n        self.signals.append(total_signal)\n", "rule": "R09h"},
        {"name": "<= in a catch-up loop", "file": "pyrex/antenna.py", "old": "while len(self._all_waves)<len(self.signals):",
         "new": "while len(self._all_waves)<=len(self.signals):", "rule": "R09a", "construct": "Antenna.all_waveforms"},
        {"name": "signals[-1] in a catch-up loop", "file": "pyrex/antenna.py", "old": "self.full_waveform(self.signals[len(self._all_waves)].times)",
         "new": "self.full_waveform(self.signals[-1].times)", "rule": "R09a"},
        {"name": "forget _triggers.clear()", "file": "pyrex/antenna.py", "old": "        self._all_waves.clear()\n        self._triggers.clear()\n        if reset_noise:",
         "new": "        self._all_waves.clear()\n        if reset_noise:", "rule": "R09b"},
        {"name": "reset noise unconditionally", "file": "pyrex/antenna.py", "old": "        if reset_noise:\n            self._noise_master = None",
         "new": "        self._noise_master = None", "rule": "R09b"},
        {"name": "> for < in the disjointness skip", "file": "pyrex/antenna.py", "old": "if (signal.times[-1]<long_times[0]", "new": "if (signal.times[-1]>long_times[0]",
         "rule": "R09e"},
        {"name": "system waveforms indexed by its own processed signals", "file": "pyrex/detector.py",
         "old": "        while len(self._all_waves)<len(self.antenna.signals):", "new": "        while len(self._all_waves)<len(self._signals):", "rule": "R09f"},
        {"name": "noise regenerated on every call", "file": "pyrex/antenna.py", "old": "        if self._noise_master is None:\n            if self.freq_range is None:",
         "new": "        if True:\n            if self.freq_range is None:", "rule": "R09d"},
        {"name": "lead-in grid with endpoint", "file": "pyrex/detector.py", "old": "(np.linspace(t_min, t0, n_pts, endpoint=False),", "new": "(np.linspace(t_min, t0, n_pts),",
         "rule": "R09g"},
        {"name": "is_hit from all waveforms", "file": "pyrex/detector.py", "old": "        return len(self.waveforms)>0", "new": "        return len(self.all_waveforms)>0",
         "rule": ["R09c", "R09f"]},
        {"name": "system forgets to clear the antenna", "file": "pyrex/detector.py", "old": "        self.antenna.clear(reset_noise=reset_noise)", "new": "        pass", "rule": "R09b"},
    ],
    "benign": [
        {"name": "clear by reassignment", "file": "pyrex/antenna.py", "old": "        self._all_waves.clear()\n        self._triggers.clear()\n        if reset_noise:",
         "new": "        self._all_waves = []\n        self._triggers = []\n        if reset_noise:"},
        {"name": "reversed comparison operands in skip", "file": "pyrex/antenna.py", "old": "if (signal.times[-1]<long_times[0]", "new": "if (long_times[0]>signal.times[-1]"},
    ],
}
