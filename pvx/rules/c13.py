"""C13 -- generators throw uniform, isotropic, correctly weighted neutrinos and count every throw (structural clauses)."""
import ast

from ..core.source import AnalysisError, parent
from ..core import paths
from ..core.astutil import strip_doc, calls, is_call, kwargs_of, guards, u, returns, names_in, parse_expr
from ..core.exprnf import NF, local_env

META = {
    "explanation": "R13a count: `self.count += 1` is the first statement of Generator.create_event and executes exactly once per invocation; the rejected "
                   "(shadowed) arm re-enters through self.create_event(); list/file generator count getter and setter are mutual inverses.  R13b weights in "
                   "normal form against the statement: survival = exp(-t/L_tot) with t = slant_depth(vertex, -direction); interaction = (l_ice/L) exp(-d/L), "
                   "L = L_tot/0.92/100, l_ice = |exit - entry|, d = |vertex - entry|.  R13c shadow decision table.  R13d flavour thresholds: cumulative "
                   "ratio[0], ratio[0]+ratio[1] on one variate, arm k uses nunubar_ratios[k] on a second variate, ratio normalised by its sum.  R13e sampling "
                   "formulas (sqrt-radius, uniform cos theta, 2 pi u, separate draws).  R13f geometry agreement between get_vertex, get_exit_points and "
                   "volume.  R13g list replay index arithmetic.",
    "not_decided": ["uniformity / isotropy as distributions", "exit-point geometry for every direction (axis-parallel, grazing): case analysis not decided",
                    "Poisson / secondary logic", "energy source semantics"],
    "trusted_base": ["CPython ast", "PolyNF", "numpy.random draws are independent uniform variates"],
    "assumptions": [],
}

G = "pyrex.generation.Generator"
CYL = "pyrex.generation.CylindricalGenerator"
BOX = "pyrex.generation.RectangularGenerator"
LST = "pyrex.generation.ListGenerator"
RAND = ("np.random.random_sample()", "np.random.rand()", "np.random.random()", "np.random.uniform()")


def r13a(ctx):
    repo = ctx.repo
    ctx.rule("R13a", "count: += 1 first and exactly once per create_event invocation; rejected throws recurse; list/file count getter/setter inverse", expected=4, kind="N")
    fn = repo.member(G, "create_event")
    body = strip_doc(fn)
    c = f"{G}.create_event"
    ok = isinstance(body[0], ast.AugAssign) and u(body[0]) == "self.count += 1"
    ctx.check(ok, "R13a", c, "the throw counter is incremented before anything else", u(body[0]), key_detail="count first", loc=ctx.loc("pyrex.generation", fn))
    cnt = paths.seq(body, lambda n: isinstance(n, ast.AugAssign) and u(n.target) == "self.count")
    ctx.check(all(v == (1, 1) for v in cnt.values()), "R13a", c, "exactly one increment on every path of one invocation", str(cnt), key_detail="count once")
    rec = [r for r in returns(fn) if u(r.value) == "self.create_event()"]
    oth = [r for r in returns(fn) if u(r.value) != "self.create_event()"]
    ok = len(rec) == 1 and all(u(r.value) == "Event(particle)" for r in oth) and len(oth) == 2
    ctx.check(ok, "R13a", c, "a rejected throw re-enters create_event (and is therefore counted); accepted throws return the event", str([u(r.value) for r in returns(fn)]),
              key_detail="recursion on rejection")
    init = repo.member(G, "__init__")
    ctx.check("self.count = 0" in [u(s) for s in strip_doc(init)], "R13a", f"{G}.__init__", "the counter starts at zero", "", key_detail="count init")
    for q in (LST, "pyrex.generation.FileGenerator"):
        g = repo.member(q, "count")
        s = repo.lookup(q, "count.setter")[2]
        gv = returns(g)[0].value
        sv = [x for x in strip_doc(s) if isinstance(x, ast.Assign)][0]
        arg = s.args.args[1].arg
        # setter stores T := arg - rest ; getter returns T + rest  => getter(after set) == arg
        tgt = u(sv.targets[0])
        tname = "T"
        g_nf = NF().nf(parse_expr(u(gv).replace(tgt, tname))) if tgt in u(gv) else None
        if q == LST:
            ok = NF({"T": sv.value}).nf(parse_expr(u(gv).replace(tgt, "T"))).equals(NF().nf(parse_expr(arg)))
        else:
            ok = u(gv) == "sum(self._file_counts)" and u(sv) == f"self._file_counts[0] = {arg} - sum(self._file_counts[1:])"
        ctx.check(ok, "R13a", f"{q}.count", "assigning count and reading it back returns the assigned value", f"get: {u(gv)}; set: {u(sv)}", key_detail="count get/set inverse",
                  loc=ctx.loc("pyrex.generation", g))


def r13b(ctx):
    repo = ctx.repo
    ctx.rule("R13b", "survival = exp(-slant_depth(vertex, -direction)/L_tot); interaction = (l_ice/L) exp(-d/L) with L = L_tot/0.92/100", expected=3, kind="N")
    fn = repo.member(G, "get_weights")
    p = fn.args.args[1].arg
    env = local_env(fn)
    c = f"{G}.get_weights"
    r = returns(fn)
    ok = len(r) == 1 and u(r[0].value) == "(survival_weight, interaction_weight)"
    ctx.check(ok, "R13b", c, "returns (survival weight, interaction weight) in this order", u(r[0].value) if r else "", key_detail="return order", loc=ctx.loc("pyrex.generation", fn))
    ent = [s for s in strip_doc(fn) if isinstance(s, ast.Assign) and isinstance(s.targets[0], ast.Tuple)]
    ok = len(ent) == 1 and u(ent[0].value) == f"self.get_exit_points({p})" and len(ent[0].targets[0].elts) == 2
    if not ok:
        ctx.unknown("R13b", c, "entry and exit points come from get_exit_points(particle)", "")
        return
    en, ex = [e.id for e in ent[0].targets[0].elts]
    T = f"self.earth_model.slant_depth({p}.vertex, -{p}.direction)"
    L = f"{p}.interaction.total_interaction_length"
    bind = {"T": parse_expr(T), "Ltot": parse_expr(L), "ice_len": parse_expr(f"np.sqrt(np.sum((np.array({ex}) - np.array({en}))**2))"),
            "trav": parse_expr(f"np.sqrt(np.sum(({p}.vertex - np.array({en}))**2))")}
    spec = NF(bind)
    got = NF(env)
    ok = got.nf(parse_expr("survival_weight")).equals(spec.nf(parse_expr("np.exp(-T/Ltot)")))
    ctx.check(ok, "R13b", c, "survival weight = exp(-column depth behind the vertex / total interaction length)", repr(got.nf(parse_expr("survival_weight")))[:120],
              key_detail="survival weight")
    ok = got.nf(parse_expr("interaction_weight")).equals(spec.nf(parse_expr("ice_len/(Ltot/0.92/100) * np.exp(-trav/(Ltot/0.92/100))")))
    ctx.check(ok, "R13b", c, "interaction weight = (in-ice chord / L) * exp(-distance travelled in ice / L), L = L_tot/0.92/100", repr(got.nf(parse_expr("interaction_weight")))[:160],
              key_detail="interaction weight")


def r13c(ctx):
    repo = ctx.repo
    ctx.rule("R13c", "no shadow: both weights stored; shadow: accept iff rand < survival weight, store survival 1 and the interaction weight; else recurse", expected=2, kind="N")
    fn = repo.member(G, "create_event")
    c = f"{G}.create_event"
    chain = [n for n in strip_doc(fn) if isinstance(n, ast.If) and u(n.test) == "not self.shadow"]
    if len(chain) != 1:
        ctx.unknown("R13c", c, "decision on self.shadow found", "")
        return
    n = chain[0]
    a = [u(s) for s in n.body if isinstance(s, ast.Assign)]
    ok = a == ["particle.survival_weight = weights[0]", "particle.interaction_weight = weights[1]"]
    ctx.check(ok, "R13c", c, "without shadowing both weights are stored on the particle", str(a), key_detail="unshadowed weights", loc=ctx.loc("pyrex.generation", n))
    ok = len(n.orelse) == 1 and isinstance(n.orelse[0], ast.If)
    if ok:
        e = n.orelse[0]
        t = e.test
        ok = isinstance(t, ast.Compare) and u(t.left) in RAND and isinstance(t.ops[0], ast.Lt) and u(t.comparators[0]) == "weights[0]"
        b = [u(s) for s in e.body if isinstance(s, ast.Assign)]
        ok = ok and b == ["particle.survival_weight = 1", "particle.interaction_weight = weights[1]"]
        ok = ok and any(isinstance(s, ast.Return) and u(s.value) == "self.create_event()" for s in e.orelse)
    ctx.check(ok, "R13c", c, "with shadowing a throw is kept with probability = survival weight (then stored as 1) and otherwise thrown again", "", key_detail="shadow decision")
    w = [s for s in strip_doc(fn) if isinstance(s, ast.Assign) and u(s.targets[0]) == "weights"]
    ctx.check(len(w) == 1 and u(w[0].value) == "self.get_weights(particle)", "R13c", c, "the weights are those of this particle", "", key_detail="weights source")


def r13d(ctx):
    repo = ctx.repo
    ctx.rule("R13d", "flavour thresholds: ratio[0], ratio[0]+ratio[1] on one variate; arm k uses nunubar_ratios[k] on a second variate; ratio normalised", expected=4, kind="N")
    fn = repo.member(G, "get_particle_type")
    c = f"{G}.get_particle_type"
    env = local_env(fn)
    rf = [k for k, v in env.items() if u(v) in RAND]
    ctx.check(len(rf) == 2, "R13d", c, "two separate uniform draws (flavour, neutrino/antineutrino)", str(rf), key_detail="two draws", loc=ctx.loc("pyrex.generation", fn))
    if len(rf) != 2:
        return
    chain = [n for n in strip_doc(fn) if isinstance(n, ast.If) and isinstance(n.test, ast.Compare) and u(n.test.left) in rf]
    if len(chain) != 1:
        ctx.unknown("R13d", c, "flavour decision chain found", "")
        return
    fl = u(chain[0].test.left)
    nb = [x for x in rf if x != fl][0]
    arms = []
    cur = chain[0]
    while True:
        arms.append((cur.test, cur.body))
        if len(cur.orelse) == 1 and isinstance(cur.orelse[0], ast.If) and u(cur.orelse[0].test.left) == fl:
            cur = cur.orelse[0]
        else:
            arms.append((None, cur.orelse))
            break
    ok = len(arms) == 3
    if ok:
        t0, t1 = arms[0][0], arms[1][0]
        ok = isinstance(t0.ops[0], ast.Lt) and isinstance(t1.ops[0], ast.Lt) and NF().nf(t0.comparators[0]).equals(NF().nf(parse_expr("self.ratio[0]"))) \
            and NF().nf(t1.comparators[0]).equals(NF().nf(parse_expr("self.ratio[0] + self.ratio[1]")))
    ctx.check(ok, "R13d", c, "cumulative thresholds ratio[0] and ratio[0]+ratio[1] on the flavour variate", str([u(t) for t, _ in arms if t is not None]), key_detail="thresholds")
    names = ["electron", "muon", "tau"]
    ok = len(arms) == 3
    detail = []
    for k, (t, body) in enumerate(arms):
        inner = body[0] if len(body) == 1 and isinstance(body[0], ast.If) else None
        good = inner is not None and isinstance(inner.test, ast.Compare) and u(inner.test.left) == nb and isinstance(inner.test.ops[0], ast.Lt) \
            and u(inner.test.comparators[0]) == f"nunubar_ratios[{k}]" and u(inner.body[0]) == f"return Particle.Type.{names[k]}_neutrino" \
            and u(inner.orelse[0]) == f"return Particle.Type.{names[k]}_antineutrino"
        detail.append(good)
        ok = ok and good
    ctx.check(ok, "R13d", c, "flavour arm k draws neutrino with probability nunubar_ratios[k] (else antineutrino) of the k-th flavour", str(detail), key_detail="nu/nubar arms")
    init = repo.member(G, "__init__")
    r = [s for s in strip_doc(init) if isinstance(s, ast.Assign) and u(s.targets[0]) == "self.ratio"]
    ok = len(r) == 1 and NF().nf(r[0].value).equals(NF().nf(parse_expr("np.array(flavor_ratio) / np.sum(flavor_ratio)")))
    ctx.check(ok, "R13d", f"{G}.__init__", "the flavour ratio is normalised by its sum", u(r[0].value) if r else "", key_detail="ratio normalised")
    tb = {u(s.value) for s in ast.walk(fn) if isinstance(s, ast.Assign) and u(s.targets[0]) == "nunubar_ratios"}
    ctx.check(tb == {"[0.78, 0.61, 0.61]", "[0.5, 0.5, 0.5]"}, "R13d", c, "neutrino fractions per source type are the documented tables (three entries each)", str(sorted(tb)),
              key_detail="nunubar tables")


def r13e(ctx):
    repo = ctx.repo
    ctx.rule("R13e", "sampling: cylinder r = dr sqrt(u), theta = 2 pi u, z = -dz u; box uniform(low=(-dx/2,-dy/2,-dz), high=(dx/2,dy/2,0)); direction cos = 2u-1, "
             "sin = sqrt(1-cos^2), phi = 2 pi u, each u a separate draw", expected=3, kind="N")
    fn = repo.member(CYL, "get_vertex")
    env = local_env(fn)
    U = "np.random.random_sample()"

    def is_(expr, src):
        return expr is not None and NF().nf(expr).equals(NF().nf(parse_expr(src)))
    draws = sum(u(n) in RAND for n in ast.walk(fn) if isinstance(n, ast.Call))
    names = {k: v for k, v in env.items()}
    rr, th, zz = names.get("r"), names.get("theta"), names.get("z")
    rnd = [n for n in ast.walk(fn) if isinstance(n, ast.Call) and u(n) in RAND]
    R = u(rnd[0]) if rnd else U
    ok = draws == 3 and is_(rr, f"self.dr * np.sqrt({R})") and is_(th, f"2*np.pi*{R}") and is_(zz, f"-self.dz*{R}")
    r = returns(fn)
    ok = ok and len(r) == 1 and u(r[0].value) == "np.array([r * np.cos(theta), r * np.sin(theta), z])"
    ctx.check(ok, "R13e", f"{CYL}.get_vertex", "uniform in the cylinder: r = dr*sqrt(u1), theta = 2 pi u2, z = -dz*u3, three separate draws",
              f"r={u(rr) if rr is not None else None}; theta={u(th) if th is not None else None}; z={u(zz) if zz is not None else None}; draws={draws}", key_detail="cylinder sampling",
              loc=ctx.loc("pyrex.generation", fn))
    fn = repo.member(BOX, "get_vertex")
    r = returns(fn)
    ok = len(r) == 1 and is_call(r[0].value, func="np.random.uniform")
    if ok:
        kw = kwargs_of(r[0].value)
        lo = kw.get("low", r[0].value.args[0] if r[0].value.args else None)
        hi = kw.get("high", r[0].value.args[1] if len(r[0].value.args) > 1 else None)
        ok = lo is not None and hi is not None and isinstance(lo, ast.Tuple) and isinstance(hi, ast.Tuple) and len(lo.elts) == 3 and len(hi.elts) == 3
        if ok:
            want_lo = ["-self.dx/2", "-self.dy/2", "-self.dz"]
            want_hi = ["self.dx/2", "self.dy/2", "0"]
            ok = all(is_(a, b) for a, b in zip(lo.elts, want_lo)) and all(is_(a, b) for a, b in zip(hi.elts, want_hi))
    ctx.check(ok, "R13e", f"{BOX}.get_vertex", "uniform in the box [-dx/2,dx/2] x [-dy/2,dy/2] x [-dz,0]", u(r[0].value) if r else "", key_detail="box sampling", loc=ctx.loc("pyrex.generation", fn))
    fn = repo.member(G, "get_direction")
    env = local_env(fn)
    rnd = [n for n in ast.walk(fn) if isinstance(n, ast.Call) and u(n) in RAND]
    R = u(rnd[0]) if rnd else U
    ok = len(rnd) == 2 and is_(env.get("cos_theta"), f"{R}*2 - 1") and is_(env.get("sin_theta"), "np.sqrt(1 - cos_theta**2)") and is_(env.get("phi"), f"{R}*2*np.pi")
    r = returns(fn)
    ok = ok and len(r) == 1 and u(r[0].value) == "np.array([sin_theta * np.cos(phi), sin_theta * np.sin(phi), cos_theta])"
    ctx.check(ok, "R13e", f"{G}.get_direction", "isotropic: cos(theta) uniform in [-1,1), sin from it, phi uniform in [0, 2 pi), two separate draws", "", key_detail="direction sampling",
              loc=ctx.loc("pyrex.generation", fn))


def r13f(ctx):
    repo = ctx.repo
    ctx.rule("R13f", "geometry agreement: box bounds in get_vertex == sides in get_exit_points == factors of volume; cylinder dr, -dz, 0 consistent", expected=4, kind="N")
    ex = repo.member(BOX, "get_exit_points")
    env = local_env(ex)
    sides = env.get("sides")
    ok = sides is not None and isinstance(sides, ast.Tuple) and len(sides.elts) == 3
    if ok:
        want = [("-self.dx/2", "self.dx/2"), ("-self.dy/2", "self.dy/2"), ("-self.dz", "0")]
        ok = all(NF().nf(p.elts[0]).equals(NF().nf(parse_expr(a))) and NF().nf(p.elts[1]).equals(NF().nf(parse_expr(b))) for p, (a, b) in zip(sides.elts, want))
    ctx.check(ok, "R13f", f"{BOX}.get_exit_points", "the faces tested for exit points are the faces of the sampling box", u(sides) if sides is not None else "", key_detail="box faces",
              loc=ctx.loc("pyrex.generation", ex))
    v = returns(repo.lookup(BOX, "volume")[2])
    ok = len(v) == 1 and NF().nf(v[0].value).equals(NF().nf(parse_expr("self.dx*self.dy*self.dz")))
    ctx.check(ok, "R13f", f"{BOX}.volume", "volume = dx*dy*dz of the same box", u(v[0].value) if v else "", key_detail="box volume")
    v = returns(repo.lookup(CYL, "volume")[2])
    ok = len(v) == 1 and NF().nf(v[0].value).equals(NF().nf(parse_expr("np.pi*self.dr**2*self.dz")))
    ctx.check(ok, "R13f", f"{CYL}.volume", "volume = pi dr^2 dz of the same cylinder", u(v[0].value) if v else "", key_detail="cylinder volume")
    ex = repo.member(CYL, "get_exit_points")
    caps = [n for n in ast.walk(ex) if isinstance(n, ast.If) and isinstance(n.test, ast.Compare) and u(n.test.left) == "pt[2]"]
    forms = sorted((type(n.test.ops[0]).__name__, u(n.test.comparators[0]), u(n.body[0])) for n in caps)
    ok = forms == sorted([("Gt", "0", "z = 0"), ("Lt", "-self.dz", "z = -self.dz")])
    ctx.check(ok, "R13f", f"{CYL}.get_exit_points", "points beyond the caps are moved onto z = 0 / z = -dz (the sampling range of z)", str(forms), key_detail="cylinder caps")
    rad = [n for n in ast.walk(ex) if isinstance(n, ast.BinOp) and isinstance(n.op, ast.Pow) and u(n.left) == "self.dr"]
    ctx.check(len(rad) >= 4, "R13f", f"{CYL}.get_exit_points", "the wall intersections use the sampling radius dr", f"{len(rad)} uses", key_detail="cylinder radius")
    # both implementations raise when no pair of points was found and return (entry, exit)
    for q in (CYL, BOX):
        f = repo.member(q, "get_exit_points")
        r = [u(x.value) for x in returns(f)]
        ok = r == ["(enter_point, exit_point)"] and any(isinstance(x, ast.Raise) and "ValueError" in u(x) for x in ast.walk(f))
        ctx.check(ok, "R13f", f"{q}.get_exit_points", "returns (entry point, exit point) or raises ValueError", str(r), key_detail="exit points return")


def r13g(ctx):
    repo = ctx.repo
    ctx.rule("R13g", "ListGenerator.create_event: stop test `not loop and _index >= len(events)` precedes the increment; returns events[(_index-1) mod len]", expected=2, kind="N")
    fn = repo.member(LST, "create_event")
    body = strip_doc(fn)
    c = f"{LST}.create_event"
    ok = len(body) == 3 and isinstance(body[0], ast.If) and u(body[0].test) == "not self.loop and self._index >= len(self.events)" \
        and any(isinstance(x, ast.Raise) and "StopIteration" in u(x) for x in body[0].body) and u(body[1]) == "self._index += 1"
    ctx.check(ok, "R13g", c, "a non-looping list stops after its last event (test before the increment); the index advances by one per call", "", key_detail="stop test",
              loc=ctx.loc("pyrex.generation", fn))
    r = body[-1]
    ok = isinstance(r, ast.Return) and isinstance(r.value, ast.Subscript) and u(r.value.value) == "self.events" and isinstance(r.value.slice, ast.BinOp) \
        and isinstance(r.value.slice.op, ast.Mod) and NF().nf(r.value.slice.left).equals(NF().nf(parse_expr("self._index - 1"))) and u(r.value.slice.right) == "len(self.events)"
    ctx.check(ok, "R13g", c, "the k-th call returns events[(k-1) mod len]: in order, cycling", u(r.value) if isinstance(r, ast.Return) else "", key_detail="replay index")


def r13h(ctx):
    """exit-point algebra: the candidate points computed by get_exit_points lie on the volume boundary and on the particle's line of flight,
    as identities in exact arithmetic (square roots expanded)."""
    from ..core.exprnf import expand_roots
    repo = ctx.repo
    ctx.rule("R13h", "exit-point algebra: cylinder wall points satisfy x^2 + y^2 = dr^2 and lie on the line through the vertex along the direction (both arms); cap "
             "points and box-face points are vertex + t*direction with the face coordinate exact", expected=8, kind="S")
    fn = repo.member(CYL, "get_exit_points")
    c = f"{CYL}.get_exit_points"
    top = [n for n in strip_doc(fn) if isinstance(n, ast.If) and "direction[0]" in u(n.test)]
    if len(top) != 1:
        ctx.unknown("R13h", c, "decision on a vanishing x-component of the direction", "")
        return
    t = top[0]
    vert_arm, gen_arm = (t.body, t.orelse) if u(t.test).replace(" ", "").endswith("==0") else (t.orelse, t.body)
    V = {"vx": "particle.vertex[0]", "vy": "particle.vertex[1]", "vz": "particle.vertex[2]", "dx": "particle.direction[0]", "dy": "particle.direction[1]", "dz": "particle.direction[2]"}

    def env_of(stmts):
        e = {}
        for st in stmts:
            if isinstance(st, ast.Assign) and isinstance(st.targets[0], ast.Name):
                e[st.targets[0].id] = st.value
        return e
    P = lambda src: NF().nf(parse_expr(src))
    for arm_name, stmts in (("general", gen_arm), ("direction[0] == 0", vert_arm)):
        e = env_of(stmts)
        nf = NF({k: v for k, v in e.items() if k not in ("x0", "y0", "z0", "x1", "y1", "z1")})
        for k in ("0", "1"):
            if not all(n + k in e for n in "xyz"):
                ctx.unknown("R13h", c, f"[{arm_name}] point {k} has x, y, z", str(sorted(e)))
                continue
            full = NF({kk: vv for kk, vv in e.items() if kk not in (f"z{k}",)})     # z may refer to x/y of the same point
            X, Y = full.nf(e["x" + k]), full.nf(e["y" + k])
            on_circle = expand_roots(X * X + Y * Y - P("self.dr**2")).num.is_zero()
            ctx.check(on_circle, "R13h", c, f"[{arm_name}] wall point {k} lies on the cylinder x^2 + y^2 = dr^2", f"x{k} = {u(e['x' + k])[:70]}", key_detail=f"{arm_name} point {k} on circle",
                      loc=ctx.loc("pyrex.generation", e["x" + k]))
            # on the line: (X - vx)*dy == (Y - vy)*dx   and   (Z - vz)*d_h == (H - v_h)*dz  with h the horizontal coordinate used for z
            Z = NF({**{kk: vv for kk, vv in e.items()}}).nf(e["z" + k])
            lin_xy = expand_roots((X - P(V["vx"])) * P(V["dy"]) - (Y - P(V["vy"])) * P(V["dx"])).num.is_zero()
            lin_z = expand_roots((Z - P(V["vz"])) * P(V["dx"]) - (X - P(V["vx"])) * P(V["dz"])).num.is_zero() or \
                expand_roots((Z - P(V["vz"])) * P(V["dy"]) - (Y - P(V["vy"])) * P(V["dz"])).num.is_zero()
            if arm_name != "general":
                lin_xy = X.equals(P(V["vx"]))          # dx == 0: the point keeps the vertex's x
            ctx.check(lin_xy and lin_z, "R13h", c, f"[{arm_name}] wall point {k} lies on the particle's line of flight", f"xy: {lin_xy}, z: {lin_z}",
                      key_detail=f"{arm_name} point {k} on line")
    # cap correction: pt = vertex + (z - vz) * direction / direction[2]
    caps = [s_ for s_ in ast.walk(fn) if isinstance(s_, ast.Assign) and u(s_.targets[0]) in ("pt[0]", "pt[1]")]
    ok = len(caps) == 2
    for s_, i in zip(sorted(caps, key=lambda x: u(x.targets[0])), (0, 1)):
        ok = ok and NF().nf(s_.value).equals(P(f"particle.vertex[{i}] + (z - particle.vertex[2]) * particle.direction[{i}] / particle.direction[2]"))
    ctx.check(ok, "R13h", c, "a point beyond a cap is moved along the line of flight onto the cap plane: vertex + (z_cap - vz) * d / dz", "", key_detail="cap points on line")
    # box
    bx = repo.member(BOX, "get_exit_points")
    e = {}
    for st in ast.walk(bx):
        if isinstance(st, ast.Assign) and isinstance(st.targets[0], ast.Name):
            e.setdefault(st.targets[0].id, st.value)
    ok = "scale" in e and "intersection" in e and NF().nf(e["scale"]).equals(P("(sides[coord][min_max] - particle.vertex[coord]) / particle.direction[coord]")) \
        and NF().nf(e["intersection"]).equals(P("particle.vertex + particle.direction * scale"))
    ctx.check(ok, "R13h", f"{BOX}.get_exit_points", "face candidate = vertex + direction * (face - vertex[c]) / direction[c]: on the line, with coordinate c exactly on the face",
              u(e.get("scale")) if "scale" in e else "", key_detail="box face point", loc=ctx.loc("pyrex.generation", bx))
    val = [n for n in ast.walk(bx) if isinstance(n, ast.If) and "intersection[i]" in u(n.test)]
    ok = len(val) == 1 and u(val[0].test) == "intersection[i] < pair[0] or intersection[i] > pair[1]" and u(val[0].body[0]) == "valid = False"
    ctx.check(ok, "R13h", f"{BOX}.get_exit_points", "a candidate is kept only if its other two coordinates are inside the box (closed bounds)", u(val[0].test) if val else "",
              key_detail="box candidate validity")
    dec = [n for n in ast.walk(bx) if isinstance(n, ast.If) and "sign * particle.direction[coord]" in u(n.test)]
    ok = len(dec) == 1 and u(dec[0].test) == "sign * particle.direction[coord] < 0" and u(dec[0].body[0]) == "enter_point = intersection" and u(dec[0].orelse[0]) == "exit_point = intersection" \
        and u(e.get("sign")) == "1 if min_max == 1 else -1"
    ctx.check(ok, "R13h", f"{BOX}.get_exit_points", "a face is the entry face when the direction points into the box there (outward normal . direction < 0), else the exit face", "",
              key_detail="entry/exit decision")
    # cylinder: entry/exit by the sign of (pt - vertex)/direction
    src = u(fn)
    ok = "direction = (pt[nonzero] - particle.vertex[nonzero]) / particle.direction[nonzero]" in src and "if np.all(direction < 0):\n" in src and "enter_point = pt" in src \
        and "elif np.all(direction > 0):" in src and "exit_point = pt" in src
    ctx.check(ok, "R13h", c, "a wall/cap point is the entry point when it lies behind the vertex along the direction (t < 0) and the exit point when ahead (t > 0)", "", key_detail="cylinder entry/exit")


def r13i(ctx):
    from ._fwd import forwarding
    ctx.rule("R13i", "every generator hands energy, shadow, flavor ratio, source, interaction model and Earth model to the base generator", expected=10, kind="N")
    forwarding(ctx, "R13i", {"pyrex.generation"}, "generators")


def r13j(ctx):
    """`energies from the supplied source`: the i-th event carries the i-th value the source yields.  The source may be stateful (a
    tabulated spectrum, an iterator, a private RNG), so it is consulted exactly once per created event and nowhere else -- in particular not
    "to validate it" at construction."""
    repo = ctx.repo
    ctx.rule("R13j", "the energy source is called once per created event (in create_event, outside any loop) and by no other method of the random generators", expected=2, kind="N")
    mod = repo.modules["pyrex.generation"]
    sites = []
    for q, body, i, fn in __import__("pvx.core.canon", fromlist=["x"]).outer_functions(mod, "pyrex.generation"):
        params = {a_.arg for a_ in fn.args.args + fn.args.kwonlyargs}
        for c in ast.walk(fn):
            if not isinstance(c, ast.Call):
                continue
            f = c.func
            if (isinstance(f, ast.Attribute) and f.attr == "get_energy" and isinstance(f.value, ast.Name) and f.value.id == "self") \
                    or (isinstance(f, ast.Name) and f.id == "energy" and "energy" in params):
                sites.append((q, c))
    ctx.analysed["energy_source_call_sites"] = [q for q, _ in sites]
    in_create = [(q, c) for q, c in sites if q == f"{G}.create_event"]
    others = [(q, c) for q, c in sites if q != f"{G}.create_event"]
    ok = len(in_create) == 1
    if ok:
        n, c = in_create[0][1], in_create[0][1]
        while n is not None and not isinstance(n, ast.FunctionDef):
            if isinstance(n, (ast.For, ast.While, ast.ListComp, ast.GeneratorExp, ast.SetComp, ast.DictComp, ast.Lambda)):
                ok = False
            n = parent(n)
    ctx.check(ok, "R13j", f"{G}.create_event", "exactly one call of the energy source per created event, outside any loop", f"{len(in_create)} call(s)",
              key_detail="one draw per event", loc=ctx.loc("pyrex.generation", repo.member(G, "create_event")))
    ctx.check(not others, "R13j", f"{G}", "no other method of pyrex.generation calls the energy source", "; ".join(f"{q} calls it (line {c.lineno})" for q, c in others),
              key_detail="no draw outside create_event", loc=(ctx.loc("pyrex.generation", others[0][1]) if others else None), pointed=bool(others))


def run(ctx):
    ctx.guard(r13j)
    ctx.guard(r13i)
    ctx.guard(r13h)
    ctx.guard(r13a)
    ctx.guard(r13b)
    ctx.guard(r13c)
    ctx.guard(r13d)
    ctx.guard(r13e)
    ctx.guard(r13f)
    ctx.guard(r13g)


SELFTEST = {
    "faults": [
        {"name": "energy source probed once at construction", "file": "pyrex/generation.py", "old": "        self.get_energy = energy\n        self.shadow = shadow",
         "new": "        float(energy())\n        self.get_energy = energy\n        self.shadow = shadow", "rule": "R13j"},
        {"name": "sign slip in the second wall point", "file": "pyrex/generation.py", "old": "            x1 = (-slope*b + np.sqrt(-b**2 + a*self.dr**2)) / a", "new": "            x1 = (slope*b + np.sqrt(-b**2 + a*self.dr**2)) / a",
         "rule": "R13h"},
        {"name": "cap point uses the wrong direction component", "file": "pyrex/generation.py",
         "old": "                pt[1] = (particle.vertex[1] + (z-particle.vertex[2])\n                         * particle.direction[1]/particle.direction[2])",
         "new": "                pt[1] = (particle.vertex[1] + (z-particle.vertex[2])\n                         * particle.direction[0]/particle.direction[2])", "rule": "R13h"},
        {"name": "box face scale from the wrong coordinate", "file": "pyrex/generation.py", "old": "            scale = ((sides[coord][min_max] - particle.vertex[coord])", "new": "            scale = ((sides[coord][min_max] - particle.vertex[0])",
         "rule": "R13h"},
        {"name": "count only on acceptance", "file": "pyrex/generation.py", "old": "        self.count += 1\n        vtx = self.get_vertex()", "new": "        vtx = self.get_vertex()", "rule": "R13a"},
        {"name": "+direction into slant_depth", "file": "pyrex/generation.py", "old": "-particle.direction)", "new": "particle.direction)", "rule": "R13b"},
        {"name": "exp(+x) survival", "file": "pyrex/generation.py", "old": "        survival_weight = np.exp(-x)", "new": "        survival_weight = np.exp(x)", "rule": "R13b"},
        {"name": "ratio[1] as second threshold", "file": "pyrex/generation.py", "old": "        elif rand_flavor<self.ratio[0]+self.ratio[1]:", "new": "        elif rand_flavor<self.ratio[1]:", "rule": "R13d"},
        {"name": "r = dr*u without the square root", "file": "pyrex/generation.py", "old": "        r = self.dr * np.sqrt(np.random.random_sample())", "new": "        r = self.dr * np.random.random_sample()",
         "rule": "R13e"},
        {"name": "*0.92 for /0.92", "file": "pyrex/generation.py", "old": "/ 0.92 / 100)", "new": "* 0.92 / 100)", "rule": "R13b"},
        {"name": "shadow keeps with probability 1-w", "file": "pyrex/generation.py", "old": "        elif np.random.rand() < weights[0]:", "new": "        elif np.random.rand() > weights[0]:", "rule": "R13c"},
        {"name": "list replay off by one", "file": "pyrex/generation.py", "old": "return self.events[(self._index-1)%len(self.events)]", "new": "return self.events[self._index%len(self.events)]", "rule": "R13g"},
        {"name": "exit faces differ from the sampling box", "file": "pyrex/generation.py", "old": "                 (-self.dz, 0))", "new": "                 (-self.dz/2, self.dz/2))", "rule": "R13f"},
        {"name": "one draw reused for flavour and nu/nubar", "file": "pyrex/generation.py", "old": "        rand_nunubar = np.random.rand()", "new": "        rand_nunubar = rand_flavor", "rule": "R13d"},
    ],
    "benign": [
        {"name": "2*pi*u reordered", "file": "pyrex/generation.py", "old": "        theta = 2*np.pi * np.random.random_sample()", "new": "        theta = np.random.random_sample() * np.pi * 2"},
    ],
}
