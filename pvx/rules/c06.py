"""C06 -- lazily evaluated signals and ray objects never serve stale values.

Families are found through the MRO from LazyMutableClass.  Rules R06a..R06d (DESIGN.md section 3, C06).
"""
import ast

from ..core.source import AnalysisError, parent
from ..core import paths

META = {
    "explanation": "For every class deriving from LazyMutableClass (8 ray tracer/path classes, FunctionSignal and its 6 "
                   "subclasses, plus custom sub-packages): R06a read-set closure of every lazy property against the static-"
                   "attribute list that reaches LazyMutableClass.__init__; R06b path-state analysis of every method: an "
                   "in-place mutation of an object rooted at a static/read attribute must be covered by _clear_cache() or a "
                   "static re-assignment on every path to every exit (incl. explicit raises); R06c integrity of the caching "
                   "mechanism itself (prefix agreement, positive membership test, unconditional super().__setattr__); R06d "
                   "shape of the eager definition in FunctionSignal.values.  Necessary conditions of the property; they hold "
                   "for every interleaving because they are stated per method, not per history.",
    "not_decided": ["mutation from outside of objects held by an attribute (tracer.ice.n0 = ..., noise.amps[3] = 0)",
                    "numerical equality of cached and fresh values",
                    "closures that capture constructor locals instead of attributes (changing the attribute has no effect at all)"],
    "trusted_base": ["CPython ast", "Python attribute protocol: obj.x = v and obj.x += v call type(obj).__setattr__"],
    "assumptions": ["lazy values are only cached through the lazy_property decorator"],
}

MUTATORS = {"append", "extend", "insert", "pop", "remove", "clear", "sort", "reverse", "update", "setdefault",
            "popitem", "add", "discard", "fill", "resize", "put", "itemset"}
LAZY_BASE = "LazyMutableClass"


def is_self_attr(n, ctx=None):
    return (isinstance(n, ast.Attribute) and isinstance(n.value, ast.Name) and n.value.id == "self"
            and (ctx is None or isinstance(n.ctx, ctx)))


def self_loads(node):
    for n in ast.walk(node):
        if is_self_attr(n, ast.Load):
            yield n.attr, n


def self_stores(node):
    for n in ast.walk(node):
        if is_self_attr(n, ast.Store):
            yield n.attr, n


def super_init_call(st):
    for n in ast.walk(st):
        if (isinstance(n, ast.Call) and isinstance(n.func, ast.Attribute) and n.func.attr == "__init__"
                and isinstance(n.func.value, ast.Call) and isinstance(n.func.value.func, ast.Name)
                and n.func.value.func.id == "super"):
            return n
    return None


def _public_dict_comp(node):
    """[a for a in self.__dict__ if not a.startswith("_") ...] -> True"""
    if not isinstance(node, ast.ListComp) or len(node.generators) != 1:
        return False
    g = node.generators[0]
    if ast.unparse(g.iter) not in ("self.__dict__", "self.__dict__.keys()", "vars(self)"):
        return False
    if not (isinstance(node.elt, ast.Name) and isinstance(g.target, ast.Name) and node.elt.id == g.target.id):
        return False
    return any("startswith('_')" in ast.unparse(c) and "not " in ast.unparse(c) for c in g.ifs)


def _eval_static(expr, fn, upto, before, ci):
    """Evaluate a static_attributes expression -> list of names, or None if not understood."""
    if isinstance(expr, (ast.List, ast.Tuple)):
        if all(isinstance(e, ast.Constant) and isinstance(e.value, str) for e in expr.elts):
            return [e.value for e in expr.elts]
        return None
    if isinstance(expr, ast.BinOp) and isinstance(expr.op, ast.Add):
        l = _eval_static(expr.left, fn, upto, before, ci)
        r = _eval_static(expr.right, fn, upto, before, ci)
        return None if l is None or r is None else l + r
    if isinstance(expr, ast.Name):
        defs = [(st, st.value) for st in fn.body if isinstance(st, ast.Assign) and len(st.targets) == 1
                and isinstance(st.targets[0], ast.Name) and st.targets[0].id == expr.id]
        if len(defs) == 1:
            st, v = defs[0]
            names = []
            for s2 in fn.body:
                if s2 is st:
                    break
                names += [a for a, _ in self_stores(s2)]
            return _eval_static(v, fn, st, before + names, ci)
        return None
    if _public_dict_comp(expr):
        out = []
        for a in dict.fromkeys(before):
            if a.startswith("_"):
                continue
            o, ent = ci.lookup(a)
            if ent is not None and ent[0] in ("property", "lazy"):
                continue            # stored through a setter, not under this name in __dict__
            out.append(a)
        return out
    return None


def static_attrs(ci):
    """STATIC(C): the static_attributes value that reaches LazyMutableClass.__init__ along the __init__ chain
    (literal lists, `+`, and the `[a for a in self.__dict__ if not a.startswith("_")]` idiom are evaluated
    over the attributes assigned before that point); default = public attributes assigned before the call."""
    mro = ci.mro()
    before = []
    i = 0
    while i < len(mro):
        c = mro[i]
        if "__init__" not in c.methods:
            i += 1
            continue
        if c.name == LAZY_BASE:
            return [a for a in dict.fromkeys(before) if not a.startswith("_")], "attributes set before LazyMutableClass.__init__"
        fn = c.methods["__init__"][1]
        found = None
        here = []
        for st in fn.body:
            call = super_init_call(st)
            if call is not None:
                found = call
                break
            for a, _ in self_stores(st):
                here.append(a)
        if found is None:
            return None, f"{c.qual}.__init__ never calls super().__init__() at statement level"
        expr = None
        for kw in found.keywords:
            if kw.arg == "static_attributes":
                expr = kw.value
        nxt = next((m for m in mro[i + 1:] if "__init__" in m.methods), None)
        if expr is None and found.args and nxt is not None and nxt.name == LAZY_BASE:
            expr = found.args[0]
        if expr is not None and not (isinstance(expr, ast.Constant) and expr.value is None):
            val = _eval_static(expr, fn, None, before, ci)
            if val is None:
                return None, f"static_attributes expression in {c.qual}.__init__ not understood: {ast.unparse(expr)[:80]}"
            return list(dict.fromkeys(val)), f"static_attributes of {c.qual}.__init__"
        before += here
        i += 1
    return [a for a in dict.fromkeys(before) if not a.startswith("_")], "attributes set before super().__init__"


def function_args_to_super(ci):
    """Nested defs / lambdas in the __init__ of FunctionSignal subclasses (the sampled function)."""
    out = []
    if not ci.is_subclass_of("FunctionSignal"):
        return out
    for c in ci.mro():
        if c.name == "FunctionSignal":
            break
        if "__init__" in c.methods:
            init = c.methods["__init__"][1]
            for n in ast.walk(init):
                if isinstance(n, (ast.FunctionDef, ast.Lambda)) and n is not init:
                    out.append((f"{c.name}.__init__.<{getattr(n, 'name', 'lambda')}>", n))
    return out


def closure_reads(ci):
    """Leaves (attribute names) read transitively by any lazy property of ci -> {attr: kind}."""
    leaves, seen, work = {}, set(), []
    for c in ci.mro():
        for name, (kind, fn) in c.methods.items():
            if kind == "lazy" and ci.lookup(name)[0] is c:
                work.append((name, fn))
    work.extend(function_args_to_super(ci))
    via = {}
    while work:
        name, fn = work.pop()
        if id(fn) in seen:
            continue
        seen.add(id(fn))
        for attr, node in self_loads(fn):
            owner, ent = ci.lookup(attr)
            if ent is None:
                leaves.setdefault(attr, "instance")
                via.setdefault(attr, name)
            elif ent[0] in ("lazy", "property", "method", "static", "classmethod"):
                work.append((attr, ent[1]))
            elif ent[0] == "classattr":
                leaves.setdefault(attr, "class")
                via.setdefault(attr, name)
    return leaves, via


def touches_lazy(ci, name, _seen=None):
    """Does evaluating self.<name> (property) or calling self.<name>() possibly fill the lazy cache?"""
    _seen = _seen if _seen is not None else set()
    if name in _seen:
        return False
    _seen.add(name)
    owner, ent = ci.lookup(name)
    if ent is None or ent[0] == "classattr":
        return False
    if ent[0] == "lazy":
        return True
    for attr, _ in self_loads(ent[1]):
        if touches_lazy(ci, attr, _seen):
            return True
    return False


def root_self_attr(node):
    while isinstance(node, (ast.Subscript, ast.Attribute)) and not is_self_attr(node):
        node = node.value
    return node.attr if is_self_attr(node) else None


def lazy_classes(repo):
    out = [ci for ci in repo.classes.values() if ci.is_subclass_of(LAZY_BASE) and ci.name != LAZY_BASE]
    if len(out) < 9:
        raise AnalysisError(f"only {len(out)} LazyMutableClass subclasses found (15 on the pinned tree)")
    return out


# --------------------------------------------------------------------------------------------- R06a
def r06a(ctx, classes):
    ctx.rule("R06a", "every public instance attribute assigned in __init__ (or private attribute reassigned by a method) "
             "that a lazy value reads is a static attribute", expected=20, kind="N")
    ctx.rule("R06a'", "public class-level data attributes read by a lazy value (knobs) are static attributes", kind="N")
    reported = set()
    for ci in classes:
        static, how = static_attrs(ci)
        if static is None:
            ctx.unknown("R06a", ci.qual, "static attribute list can be determined", how)
            continue
        leaves, via = closure_reads(ci)
        outside = set()
        init_assigned = set()
        for c in ci.mro():
            for name, (kind, fn) in c.methods.items():
                tgt = init_assigned if name == "__init__" else outside
                for a, _ in self_stores(fn):
                    tgt.add(a)
        ctx.count("lazy_classes")
        ctx.count("closure_leaves", len(leaves))
        for attr, kind in sorted(leaves.items()):
            # key by the class that defines / assigns the attribute, so inherited findings are reported once
            definer = ci
            if kind == "class":
                definer = ci.lookup(attr)[0]
            else:
                for c in reversed(ci.mro()):
                    if "__init__" in c.methods and any(a == attr for a, _ in self_stores(c.methods["__init__"][1])):
                        definer = c
                        break
            construct = f"{definer.qual}.{attr}"
            if (construct, kind) in reported:
                continue
            reported.add((construct, kind))
            if kind == "instance":
                if not attr.startswith("_") and attr in init_assigned:
                    ctx.check(attr in static, "R06a", construct,
                              "public attribute read by a lazy value is static (assignment clears the cache)",
                              f"read via {via[attr]}; static list ({how}) = {static}", key_detail="not static")
                elif attr.startswith("_") and attr in outside and attr != "_static_attrs":
                    ctx.check(attr in static, "R06a", construct,
                              "private attribute reassigned by a method and read by a lazy value is static",
                              f"read via {via[attr]}; static list = {static}", key_detail="not static")
            elif kind == "class" and not attr.startswith("_"):
                owner, ent = ci.lookup(attr)
                val = ent[1]
                if isinstance(val, (ast.Lambda,)):
                    continue
                ctx.check(attr in static, "R06a'", construct,
                          "class-level knob read by a lazy value is static (instance assignment clears the cache)",
                          f"defined in {owner.qual}; read via {via[attr]}; static list = {static}", key_detail="knob not static")


# --------------------------------------------------------------------------------------------- R06b
def r06b(ctx, classes):
    ctx.rule("R06b", "in-place mutation of an object rooted at a static/read attribute is covered by _clear_cache() or a "
             "static re-assignment on every path to every exit", expected=2, kind="N")
    done = set()
    for ci in classes:
        static, _ = static_attrs(ci)
        if static is None:
            continue
        leaves, _ = closure_reads(ci)
        tracked = set(static) | set(leaves)
        for c in ci.mro():
            if c.name == LAZY_BASE:
                continue
            for name, (kind, fn) in c.methods.items():
                if name == "__init__" or kind in ("lazy", "static", "classmethod") or (c.qual, name) in done:
                    continue
                if ci.lookup(name)[0] is not c:
                    continue
                done.add((c.qual, name))
                check_method(ctx, ci, c, name, fn, tracked, set(static))


def check_method(ctx, ci, owner, name, fn, tracked, static):
    # aliases: loop variables / locals bound to (elements of) tracked attributes
    aliases = {}
    for n in ast.walk(fn):
        if isinstance(n, ast.For):
            it = n.iter
            if isinstance(it, ast.Call) and isinstance(it.func, ast.Name) and it.func.id in ("enumerate", "zip", "reversed"):
                srcs = it.args
            else:
                srcs = [it]
            for src in srcs:
                a = root_self_attr(src)
                if a in tracked:
                    for t in ast.walk(n.target):
                        if isinstance(t, ast.Name):
                            aliases[t.id] = a
        elif isinstance(n, ast.Assign) and len(n.targets) == 1 and isinstance(n.targets[0], ast.Name):
            v = n.value
            if isinstance(v, (ast.Attribute, ast.Subscript)) and not isinstance(v, ast.Call):
                a = root_self_attr(v)
                if a in tracked:
                    aliases[n.targets[0].id] = a

    def base_attr(node):
        """attribute mutated when `node` (the object being mutated in place) is changed"""
        a = root_self_attr(node)
        if a in tracked:
            return a
        b = node
        while isinstance(b, (ast.Subscript, ast.Attribute)):
            b = b.value
        if isinstance(b, ast.Name) and b.id in aliases:
            return aliases[b.id]
        return None

    def events(node):
        """ordered events in a simple statement / expression"""
        ev = []
        for n in ast.walk(node):
            if isinstance(n, ast.Call) and isinstance(n.func, ast.Attribute):
                if is_self_attr(n.func) and n.func.attr == "_clear_cache":
                    ev.append(("clear", None, n))
                elif n.func.attr in MUTATORS:
                    a = base_attr(n.func.value)
                    if a:
                        ev.append(("mut", a, n))
                elif is_self_attr(n.func) and touches_lazy(ci, n.func.attr):
                    ev.append(("read", n.func.attr, n))
            elif is_self_attr(n, ast.Load) and not (isinstance(parent(n), ast.Call) and parent(n).func is n):
                o, ent = ci.lookup(n.attr)
                if ent is not None and ent[0] in ("lazy", "property") and touches_lazy(ci, n.attr):
                    ev.append(("read", n.attr, n))
        if isinstance(node, (ast.Assign, ast.AugAssign, ast.AnnAssign)):
            tgts = node.targets if isinstance(node, ast.Assign) else [node.target]
            for t in tgts:
                for tt in ([t] if not isinstance(t, (ast.Tuple, ast.List)) else t.elts):
                    if is_self_attr(tt) and tt.attr in static:
                        ev.append(("clear", tt.attr, node))      # __setattr__ clears the cache
                    elif isinstance(tt, ast.Subscript) or (isinstance(tt, ast.Attribute) and not is_self_attr(tt)):
                        a = base_attr(tt.value)
                        if a:
                            ev.append(("mut", a, node))
        return ev

    muts = [e for st in ast.walk(fn) if isinstance(st, ast.stmt) and not isinstance(st, (ast.If, ast.For, ast.While, ast.Try, ast.With, ast.FunctionDef))
            for e in events(st) if e[0] == "mut"]
    if not muts:
        return
    ctx.count("methods_with_inplace_mutation")

    def step(node, state):
        fresh, dirty = state
        for kind, a, _ in events(node):
            if kind == "clear":
                fresh, dirty = True, frozenset()
            elif kind == "mut":
                if not fresh:
                    dirty = dirty | {a}
            elif kind == "read":
                fresh = False
        return (fresh, dirty)

    out = paths.flow(fn.body, step, {(False, frozenset())})
    bad = {}
    for outcome, states in out.items():
        for fresh, dirty in states:
            for a in dirty:
                bad.setdefault(a, set()).add(outcome)
    construct = f"{owner.qual}.{name}"
    mutated = sorted({a for _, a, _ in muts})
    if bad:
        for a, outs in sorted(bad.items()):
            first = next(n for k, aa, n in muts if aa == a)
            ctx.bad("R06b", construct, f"in-place mutation of self.{a} is followed or preceded (without an intervening lazy read) "
                    f"by a cache clear on every path", f"`{ast.unparse(first)[:80]}` reaches exit(s) {sorted(outs)} with the cache intact",
                    key_detail=f"self.{a} mutated without cache clear", loc=ctx.loc(owner.module, first))
    else:
        ctx.ok("R06b", construct, f"in-place mutation of {['self.' + a for a in mutated]} is covered by a cache clear on every path",
               f"{len(muts)} mutation site(s)", loc=ctx.loc(owner.module, fn))


# --------------------------------------------------------------------------------------------- R06c
def r06c(ctx):
    repo = ctx.repo
    ctx.rule("R06c", "caching mechanism: lazy_property stores under prefix+name via hasattr/setattr/getattr of one name; "
             "_clear_cache deletes every key with the same prefix; __setattr__ clears on positive membership and always stores",
             expected=5, kind="N")
    mod = "pyrex.internal_functions"
    lp = repo.func(mod + ".lazy_property")
    construct = mod + ".lazy_property"
    prefix = name_var = None
    for n in ast.walk(lp):
        if isinstance(n, ast.Assign) and len(n.targets) == 1 and isinstance(n.targets[0], ast.Name):
            v = n.value
            if (isinstance(v, ast.BinOp) and isinstance(v.op, ast.Add) and isinstance(v.left, ast.Constant)
                    and isinstance(v.left.value, str) and "__name__" in ast.unparse(v.right)):
                prefix, name_var = v.left.value, n.targets[0].id
            elif isinstance(v, ast.JoinedStr) and v.values and isinstance(v.values[0], ast.Constant) and "__name__" in ast.unparse(v):
                prefix, name_var = v.values[0].value, n.targets[0].id
    if prefix is None:
        ctx.unknown("R06c", construct, "cache attribute name is <prefix literal> + fn.__name__", "pattern not recognised")
        return
    ctx.ok("R06c", construct, "cache attribute name is <prefix literal> + fn.__name__", f"prefix={prefix!r}", loc=ctx.loc(mod, lp))
    calls = {}
    for n in ast.walk(lp):
        if isinstance(n, ast.Call) and isinstance(n.func, ast.Name) and n.func.id in ("hasattr", "setattr", "getattr"):
            calls.setdefault(n.func.id, []).append(n)
    ok = all(k in calls for k in ("hasattr", "setattr", "getattr"))
    same = ok and all(len(c.args) >= 2 and isinstance(c.args[1], ast.Name) and c.args[1].id == name_var
                      and isinstance(c.args[0], ast.Name) and c.args[0].id == "self" for cs in calls.values() for c in cs)
    ctx.check(ok and same, "R06c", construct, "hasattr, setattr and getattr all address self.<the same cache name>",
              f"calls={ {k: [ast.unparse(c) for c in v] for k, v in calls.items()} }", key_detail="cache name mismatch")
    # setattr guarded by `not hasattr`, value is fn(self); the return is the getattr
    guard_ok = False
    for n in ast.walk(lp):
        if isinstance(n, ast.If):
            t = n.test
            if (isinstance(t, ast.UnaryOp) and isinstance(t.op, ast.Not) and isinstance(t.operand, ast.Call)
                    and ast.unparse(t.operand.func) == "hasattr"):
                sets = [c for s in n.body for c in ast.walk(s) if isinstance(c, ast.Call) and ast.unparse(c.func) == "setattr"]
                if sets and len(sets[0].args) == 3 and isinstance(sets[0].args[2], ast.Call) and ast.unparse(sets[0].args[2].args[0] if sets[0].args[2].args else sets[0].args[2]) == "self":
                    guard_ok = True
    rets = [n for n in ast.walk(lp) if isinstance(n, ast.Return) and n.value is not None and "getattr" in ast.unparse(n.value)]
    ctx.check(guard_ok and bool(rets), "R06c", construct, "value is computed as fn(self) only when the cache name is absent and the cached value is returned",
              "", key_detail="compute-once shape")
    # ---- _clear_cache
    cc = repo.member(mod + ".LazyMutableClass", "_clear_cache")
    construct = mod + ".LazyMutableClass._clear_cache"
    lits = [n.args[0].value for n in ast.walk(cc) if isinstance(n, ast.Call) and isinstance(n.func, ast.Attribute)
            and n.func.attr == "startswith" and n.args and isinstance(n.args[0], ast.Constant)]
    ctx.check(lits == [prefix], "R06c", construct, "_clear_cache selects keys by the prefix literal used by lazy_property",
              f"startswith literals={lits}, lazy_property prefix={prefix!r}", key_detail="prefix mismatch", loc=ctx.loc(mod, cc))
    src_dict = any(ast.unparse(n) == "self.__dict__" for n in ast.walk(cc))
    dels = [n for n in ast.walk(cc) if (isinstance(n, ast.Call) and ast.unparse(n.func) == "delattr") or isinstance(n, ast.Delete)
            or (isinstance(n, ast.Call) and isinstance(n.func, ast.Attribute) and n.func.attr == "pop")]
    negated = any(isinstance(n, ast.UnaryOp) and isinstance(n.op, ast.Not) and "startswith" in ast.unparse(n.operand) for n in ast.walk(cc))
    ctx.check(src_dict and bool(dels) and not negated, "R06c", construct, "every selected key of self.__dict__ is deleted",
              f"reads __dict__={src_dict}, deletions={len(dels)}, negated filter={negated}", key_detail="no deletion")
    # ---- __setattr__
    sa = repo.member(mod + ".LazyMutableClass", "__setattr__")
    construct = mod + ".LazyMutableClass.__setattr__"
    pname = sa.args.args[1].arg if len(sa.args.args) > 1 else "name"
    vname = sa.args.args[2].arg if len(sa.args.args) > 2 else "value"

    def is_store(n):
        return (isinstance(n, ast.Call) and isinstance(n.func, ast.Attribute) and n.func.attr == "__setattr__"
                and "super()" in ast.unparse(n.func.value) or
                (isinstance(n, ast.Call) and ast.unparse(n.func) == "object.__setattr__"))
    cnt = paths.seq(sa.body, is_store)
    exits_ok = all(v == (1, 1) for k, v in cnt.items() if k in ("fall", "return")) and "raise" not in cnt
    ctx.check(exits_ok, "R06c", construct, "the attribute is stored exactly once on every path", f"store counts per outcome={cnt}",
              key_detail="store not unconditional", loc=ctx.loc(mod, sa))
    clear_ifs = []
    for n in ast.walk(sa):
        if isinstance(n, ast.Call) and is_self_attr(n.func) and n.func.attr == "_clear_cache":
            p, child, conds = parent(n), n, []
            while p is not None and p is not sa:
                if isinstance(p, ast.If):
                    inbody = any(child is s or child in ast.walk(s) for s in p.body)
                    conds.append((p.test, inbody))
                child, p = p, parent(p)
            clear_ifs.append(conds)
    if not clear_ifs:
        ctx.bad("R06c", construct, "__setattr__ clears the cache when a static attribute is assigned", "no _clear_cache() call",
                key_detail="no clear")
        return
    verdict, why = "unknown", ""
    for conds in clear_ifs:
        pos = []
        for test, inbody in conds:
            atoms = test.values if isinstance(test, ast.BoolOp) and isinstance(test.op, ast.And) else [test]
            if not inbody:
                atoms = [ast.UnaryOp(op=ast.Not(), operand=a) for a in atoms] if len(atoms) == 1 else [None]
            pos.extend(atoms)
        member = other = neg = same_value = 0
        for a in pos:
            if a is None:
                other += 1
                continue
            if isinstance(a, ast.UnaryOp) and isinstance(a.op, ast.Not):
                inner = a.operand
                if isinstance(inner, ast.Compare) and isinstance(inner.ops[0], ast.NotIn) and ast.unparse(inner.left) == pname and "_static_attrs" in ast.unparse(inner.comparators[0]):
                    member += 1
                elif isinstance(inner, ast.Compare) and isinstance(inner.ops[0], ast.In) and ast.unparse(inner.left) == pname:
                    neg += 1
                else:
                    other += 1
            elif isinstance(a, ast.Compare) and vname in {x.id for x in ast.walk(a) if isinstance(x, ast.Name)} \
                    and isinstance(a.ops[0], (ast.Is, ast.IsNot, ast.Eq, ast.NotEq)):
                same_value += 1     # see below
            elif isinstance(a, ast.Compare) and len(a.ops) == 1:
                l, r = ast.unparse(a.left), ast.unparse(a.comparators[0])
                if isinstance(a.ops[0], ast.In) and l == pname and "_static_attrs" in r:
                    member += 1
                elif isinstance(a.ops[0], ast.NotIn) and l == pname and "_static_attrs" in r:
                    neg += 1
                elif isinstance(a.ops[0], ast.In) and "_static_attrs" in l and "__dict__" in r:
                    pass        # existence guard of the list itself
                else:
                    other += 1
            elif isinstance(a, ast.Call) and ast.unparse(a.func) == "hasattr" and "_static_attrs" in ast.unparse(a):
                pass
            elif isinstance(a, ast.Compare) and vname in {x.id for x in ast.walk(a) if isinstance(x, ast.Name)} \
                    and isinstance(a.ops[0], (ast.Is, ast.IsNot, ast.Eq, ast.NotEq)):
                # "skip the clear when the value is (equal to) the one already stored": an in-place edit followed by re-assignment
                # (obj.attr += d on an array) stores the same object, so this drops required invalidations
                same_value += 1
            else:
                other += 1
        if same_value:
            verdict, why = "bad", ("the clear is skipped when the assigned value is (equal to) the stored one: `obj.attr += d` mutates in place and re-assigns "
                                   "the same object, so static-attribute changes no longer invalidate")
        elif neg:
            verdict, why = "bad", "cache is cleared when the name is NOT a static attribute"
        elif member and not other and verdict != "bad":
            verdict = "ok"
        elif not member and not other and verdict != "bad":
            verdict = "ok"      # unconditional clear: stronger than required
        elif verdict == "unknown":
            why = f"unrecognised extra condition in `{[ast.unparse(t) for t, _ in conds]}`"
    if verdict == "ok":
        ctx.ok("R06c", construct, "__setattr__ clears the cache whenever `name in self._static_attrs`")
    elif verdict == "bad":
        ctx.bad("R06c", construct, "__setattr__ clears the cache whenever `name in self._static_attrs`", why, key_detail="membership test")
    else:
        ctx.unknown("R06c", construct, "__setattr__ clears the cache whenever `name in self._static_attrs`", why)
    # clear happens before or after the store: both fine (cache empty afterwards); but the clear must not be skipped by an early return
    # ---- LazyMutableClass.__init__ default list
    init = repo.member(mod + ".LazyMutableClass", "__init__")
    txt = ast.unparse(init)
    ctx.check("self._static_attrs" in txt and "static_attributes" in txt, "R06c", mod + ".LazyMutableClass.__init__",
              "_static_attrs is taken from the static_attributes argument (default: public names of __dict__)", "",
              key_detail="static attrs source")


# --------------------------------------------------------------------------------------------- R06d
COMPONENT_LISTS = ("_functions", "_t0s", "_buffers", "_factors", "_filters")


def r06d(ctx):
    repo = ctx.repo
    ctx.rule("R06d", "FunctionSignal.values is the eager definition: per component i, function sampled on "
             "_full_times(i) - _t0s[i], scaled by _factors[i], filtered by _filters[i] iff non-empty, cropped by "
             "_value_window(i), accumulated", expected=6, kind="N")
    q = "pyrex.signals.FunctionSignal"
    fn = repo.member(q, "values", kinds=("lazy",))
    construct = q + ".values"
    loops = [n for n in ast.walk(fn) if isinstance(n, ast.For)]
    main = [l for l in loops if "self._functions" in ast.unparse(l.iter)]
    if len(main) != 1:
        ctx.bad("R06d", construct, "exactly one loop over the component functions", f"{len(main)} loops over self._functions",
                key_detail="component loop")
        return
    loop = main[0]
    it = loop.iter
    if not (isinstance(it, ast.Call) and ast.unparse(it.func) == "enumerate" and ast.unparse(it.args[0]) == "self._functions"
            and isinstance(loop.target, ast.Tuple) and len(loop.target.elts) == 2):
        ctx.unknown("R06d", construct, "loop is `for i, function in enumerate(self._functions)`", ast.unparse(it))
        return
    ivar, fvar = loop.target.elts[0].id, loop.target.elts[1].id
    ctx.ok("R06d", construct, "one loop over enumerate(self._functions)", loc=ctx.loc("pyrex.signals", loop))
    # (1) index consistency
    wrong = []
    n_idx = 0
    for n in ast.walk(loop):
        if isinstance(n, ast.Subscript) and is_self_attr(n.value) and n.value.attr in COMPONENT_LISTS:
            n_idx += 1
            if ast.unparse(n.slice) != ivar:
                wrong.append(ast.unparse(n))
        if isinstance(n, ast.Call) and is_self_attr(n.func) and n.func.attr in ("_full_times", "_value_window"):
            n_idx += 1
            if len(n.args) != 1 or ast.unparse(n.args[0]) != ivar:
                wrong.append(ast.unparse(n))
    ctx.check(not wrong and n_idx >= 5, "R06d", construct, f"every per-component list and helper is indexed by the loop index `{ivar}`",
              f"{n_idx} indexed uses; deviating: {wrong}", key_detail="component index")
    # (2) sampling: function(self._full_times(i) - self._t0s[i]) on both arms
    want = f"self._full_times({ivar}) - self._t0s[{ivar}]"
    samples = []
    for n in ast.walk(loop):
        if isinstance(n, ast.Call) and isinstance(n.func, ast.Name) and n.func.id == fvar:
            samples.append(n)
    ok_s = bool(samples)
    detail = []
    for c in samples:
        a = ast.unparse(c.args[0]) if c.args else ""
        if a == want:
            detail.append("vectorised: " + a)
            continue
        # element-wise fall-back: argument is the comprehension variable iterating over `want`
        comp = parent(c)
        while comp is not None and not isinstance(comp, (ast.ListComp, ast.GeneratorExp)):
            comp = parent(comp)
        if comp is not None and len(comp.generators) == 1 and ast.unparse(comp.generators[0].iter) == want \
                and ast.unparse(comp.generators[0].target) == a and not comp.generators[0].ifs:
            detail.append("element-wise over: " + want)
        else:
            ok_s = False
            detail.append("DEVIATES: " + ast.unparse(c))
    ctx.check(ok_s and len(samples) >= 1, "R06d", construct, "the function is sampled on _full_times(i) - _t0s[i] (vectorised and fall-back arm)",
              "; ".join(detail), key_detail="sampling grid")
    # (3) factor
    fac = [n for n in ast.walk(loop) if isinstance(n, ast.BinOp) and isinstance(n.op, ast.Mult)
           and f"self._factors[{ivar}]" in (ast.unparse(n.left), ast.unparse(n.right))]
    augf = [n for n in ast.walk(loop) if isinstance(n, ast.AugAssign) and isinstance(n.op, ast.Mult) and ast.unparse(n.value) == f"self._factors[{ivar}]"]
    ctx.check(len(fac) + len(augf) == 1, "R06d", construct, "sampled values are multiplied once by _factors[i]",
              f"{len(fac) + len(augf)} multiplication(s)", key_detail="factor")
    # (4) filters iff non-empty
    filt = [n for n in ast.walk(loop) if isinstance(n, ast.Call) and is_self_attr(n.func) and n.func.attr == "_apply_filters"]
    ok_f = len(filt) == 1 and len(filt[0].args) == 2 and ast.unparse(filt[0].args[1]) == f"self._filters[{ivar}]"
    guard = None
    if ok_f:
        p, child = parent(filt[0]), filt[0]
        while p is not None and p is not loop:
            if isinstance(p, ast.If):
                inbody = any(child is s or child in ast.walk(s) for s in p.body)
                guard = (ast.unparse(p.test), inbody)
                break
            child, p = p, parent(p)
    g_ok = guard is not None and ((guard[0].replace(" ", "") in (f"len(self._filters[{ivar}])!=0", f"len(self._filters[{ivar}])>0",
                                                                  f"self._filters[{ivar}]", f"len(self._filters[{ivar}])") and guard[1])
                                  or (guard[0].replace(" ", "") in (f"len(self._filters[{ivar}])==0", f"notself._filters[{ivar}]") and not guard[1]))
    ctx.check(ok_f and (g_ok or guard is None), "R06d", construct, "_apply_filters(vals, _filters[i]) is applied once, exactly when the component has filters",
              f"calls={[ast.unparse(c)[:70] for c in filt]} guard={guard}", key_detail="filter application")
    # (5) crop + accumulate
    acc = [n for n in ast.walk(loop) if isinstance(n, ast.AugAssign) and isinstance(n.op, ast.Add)]
    ok_a = len(acc) == 1 and isinstance(acc[0].value, ast.Subscript) and ast.unparse(acc[0].value.slice) == f"self._value_window({ivar})"
    accname = ast.unparse(acc[0].target) if acc else None
    inits = [n for n in fn.body if isinstance(n, ast.Assign) and ast.unparse(n.targets[0]) == accname]
    ok_i = len(inits) == 1 and ast.unparse(inits[0].value).replace(" ", "") in ("np.zeros(len(self.times))", "np.zeros_like(self.times)")
    rets = [n for n in ast.walk(fn) if isinstance(n, ast.Return)]
    ok_r = len(rets) == 1 and ast.unparse(rets[0].value) == accname and parent(rets[0]) is fn
    ctx.check(ok_a and ok_i and ok_r, "R06d", construct, "result starts at zeros(len(times)), adds vals[_value_window(i)] per component and is returned after the loop",
              f"accumulate={[ast.unparse(a) for a in acc]} init={[ast.unparse(i) for i in inits]}", key_detail="accumulation")
    # (6) the value that is cropped is the filtered one (def-use)
    if ok_a:
        src = acc[0].value.value
        names = {ast.unparse(src)}
        assigned = {}
        for n in ast.walk(loop):
            if isinstance(n, ast.Assign) and isinstance(n.targets[0], ast.Name):
                assigned.setdefault(n.targets[0].id, []).append(n.value)
        srcs = assigned.get(ast.unparse(src), [])
        has_filtered = any(isinstance(v, ast.Call) and is_self_attr(v.func) and v.func.attr == "_apply_filters" for v in srcs)
        ctx.check(has_filtered, "R06d", construct, "the cropped array is the output of _apply_filters on the filtered arm",
                  f"{ast.unparse(src)} <- {[ast.unparse(v)[:60] for v in srcs]}", key_detail="cropped operand")
    # (7) n_before clone
    ft = repo.member(q, "_full_times")
    vw = repo.member(q, "_value_window")

    def nb(f):
        out = []
        for st in f.body:
            if isinstance(st, ast.Expr) and isinstance(st.value, ast.Constant):
                continue
            txt = ast.unparse(st)
            if "n_before" in txt and not isinstance(st, ast.Return) and "t_min" not in txt:
                out.append(txt)
        return out
    a, b = nb(ft), nb(vw)
    ctx.check(a == b and len(a) >= 1, "R06d", q + "._value_window", "n_before is computed identically in _full_times and _value_window (clone)",
              f"_full_times: {a} | _value_window: {b}", key_detail="n_before clone")


def r06e(ctx, classes):
    """constructors of the lazy ray classes keep private copies of array-valued defining arguments: otherwise an in-place edit of the
    caller's array changes a static attribute without passing through __setattr__ and the cache survives."""
    repo = ctx.repo
    ctx.rule("R06e", "tracer constructors store copies (np.array) of their endpoint arguments; FunctionSignal stores a copy of times", expected=4, kind="N")
    from .c04 import fresh
    for ci in classes:
        if "__init__" not in ci.methods:
            continue
        fn = ci.methods["__init__"][1]
        params = {a.arg for a in fn.args.args}
        for st in ast.walk(fn):
            if isinstance(st, ast.Assign) and is_self_attr(st.targets[0]) and st.targets[0].attr in ("from_point", "to_point", "times"):
                src_names = {x.id for x in ast.walk(st.value) if isinstance(x, ast.Name)}
                if not (src_names & params) or "parent_tracer" in src_names:
                    continue        # paths share the (already private) arrays of their tracer by design
                ctx.check(fresh(st.value, fn, {}), "R06e", f"{ci.qual}.__init__", f"self.{st.targets[0].attr} is a private copy of the argument", u_(st.value),
                          key_detail=f"{st.targets[0].attr} aliased", loc=ctx.loc(ci.module, st))


def u_(n):
    return ast.unparse(n)


def r06f(ctx, classes):
    ctx.rule("R06f", "values of lazily evaluated classes are memoised only through lazy_property (the one mechanism __setattr__ / _clear_cache know about): "
             "no functools.cached_property / lru_cache / cache inside such a class", expected=9, kind="N")
    FOREIGN = ("cached_property", "lru_cache", "functools.cache", "cache")
    for ci in classes:
        bad = []
        for st in ci.node.body:
            if isinstance(st, ast.FunctionDef):
                for d in st.decorator_list:
                    t = ast.unparse(d.func) if isinstance(d, ast.Call) else ast.unparse(d)
                    if t.split(".")[-1] in ("cached_property", "lru_cache", "cache") and t.split(".")[-1] != "lazy_property":
                        bad.append((st, t))
        if bad:
            for st, t in bad:
                ctx.bad("R06f", f"{ci.qual}.{st.name}", "memoised through lazy_property only", f"@{t}: a cache that assigning an attribute never clears",
                        key_detail="foreign cache", loc=ctx.loc(ci.module, st), pointed=True)      # read off the decorator alone
        else:
            ctx.ok("R06f", ci.qual, "memoised through lazy_property only")


def r06g(ctx, classes):
    ctx.rule("R06g", "a lazy class that overrides __setattr__ hands every assignment to LazyMutableClass.__setattr__ (super().__setattr__), which is what clears the cache: "
             "no path stores through object.__setattr__ / __dict__ instead", expected=1, kind="N")
    n = 0
    for ci in classes + [ctx.repo.cls("pyrex.internal_functions.LazyMutableClass")]:
        for st in ci.node.body:
            if isinstance(st, ast.FunctionDef) and st.name == "__setattr__":
                n += 1
                raw = [c for c in ast.walk(st) if isinstance(c, ast.Call) and ast.unparse(c.func) in ("object.__setattr__", "self.__dict__.__setitem__", "self.__dict__.update")]
                raw += [s_ for s_ in ast.walk(st) if isinstance(s_, ast.Assign) and any(isinstance(t, ast.Subscript) and ast.unparse(t.value) == "self.__dict__" for t in s_.targets)]
                if ci.name == "LazyMutableClass":
                    ctx.ok("R06g", ci.qual + ".__setattr__", "the base hook itself")
                    continue
                cnt = paths.seq(st.body, lambda x: isinstance(x, ast.Call) and ast.unparse(x.func) == "super().__setattr__")
                normal = [v for k, v in cnt.items() if k in ("fall", "return")]
                ctx.check(not raw and bool(normal) and all(v[0] >= 1 for v in normal), "R06g", ci.qual + ".__setattr__", "every normal path calls super().__setattr__; nothing is stored behind its back",
                          f"paths={cnt}; raw stores={[ast.unparse(x)[:60] for x in raw]}", key_detail="setattr hook", loc=ctx.loc(ci.module, st))
    if n == 0:
        ctx.unknown("R06g", "pyrex.internal_functions.LazyMutableClass", "__setattr__ hook found", "")


def r06h(ctx):
    """A copy that shares the inner `[leading, trailing]` pairs of `_buffers` (or the inner filter lists) with its original lets
    `set_buffers` / `filter_frequencies` on one object change what the other would compute, while only the first one's cache is cleared:
    the other serves stale values.  C04's R04c decides that copy/__add__ share nothing; reported here as well."""
    from . import c04
    from ._cross import relay
    relay(ctx, "R06h", "copies and sums of function-backed signals share no component list, so an in-place update of one cannot outdate the cache of another (= R04c)",
          "C04", c04.r04c, "R04c", kind="N")


def run(ctx):
    classes = lazy_classes(ctx.repo)
    ctx.guard(r06h)
    if ctx.tier == "quick":
        pass
    ctx.guard(r06a, classes)
    ctx.guard(r06b, classes)
    ctx.guard(r06c)
    ctx.guard(r06d)
    ctx.guard(r06e, classes)
    ctx.guard(r06f, classes)
    ctx.guard(r06g, classes)


SELFTEST = {
    "faults": [
        {"name": "endpoint assignment stored behind the cache hook", "file": "pyrex/ray_tracing.py", "occurrence": 2, "old": "    @property\n    def z_turn_proximity(self):",
         "new": "    def __setattr__(self, name, value):\n        if name in ('from_point', 'to_point'):\n            object.__setattr__(self, name, np.array(value))\n        else:\n            super().__setattr__(name, value)\n\n    @property\n    def z_turn_proximity(self):",
         "rule": "R06g"},
        {"name": "a value cached with functools.cached_property", "file": "pyrex/ray_tracing.py", "old": "    @lazy_property\n    def z_turn(self):", "new": "    @functools.cached_property\n    def z_turn(self):",
         "rule": "R06f"},
        {"name": "skip the clear when the same object is re-assigned", "file": "pyrex/internal_functions.py",
         "old": "        if \"_static_attrs\" in self.__dict__ and name in self._static_attrs:\n            self._clear_cache()",
         "new": "        if \"_static_attrs\" in self.__dict__ and name in self._static_attrs:\n            if self.__dict__.get(name, None) is not value:\n                self._clear_cache()",
         "rule": "R06c"},
        {"name": "tracer keeps the caller's endpoint arrays", "file": "pyrex/ray_tracing.py", "old": "        self.from_point = np.array(from_point)\n        self.to_point = np.array(to_point)\n        self.ice = ice_model\n        self.dz = dz",
         "new": "        self.from_point = np.asarray(from_point)\n        self.to_point = np.asarray(to_point)\n        self.ice = ice_model\n        self.dz = dz", "rule": "R06e"},
        {"name": "delete _clear_cache() in filter_frequencies", "file": "pyrex/signals.py",
         "old": "        self._clear_cache()\n        for group in self._filters:", "new": "        for group in self._filters:",
         "rule": "R06b", "construct": "FunctionSignal.filter_frequencies"},
        {"name": "prefix mismatch", "file": "pyrex/internal_functions.py", "old": "if attr.startswith(\"_lazy_\")]",
         "new": "if attr.startswith(\"_lazy\" \"__\")]", "rule": "R06c"},
        {"name": "negated membership", "file": "pyrex/internal_functions.py", "old": "and name in self._static_attrs:",
         "new": "and name not in self._static_attrs:", "rule": "R06c"},
        {"name": "tracer attribute set after super().__init__", "file": "pyrex/ray_tracing.py",
         "old": "        self.dz = dz\n        super().__init__()", "new": "        super().__init__()\n        self.dz = dz",
         "rule": "R06a", "construct": "dz"},
        {"name": "wrong component index", "file": "pyrex/signals.py", "old": "np.asarray(func_vals) * self._factors[i]",
         "new": "np.asarray(func_vals) * self._factors[0]", "rule": "R06d"},
        {"name": "filters applied for every component", "file": "pyrex/signals.py", "old": "self._apply_filters(func_vals, self._filters[i])",
         "new": "self._apply_filters(func_vals, self._filters[-1])", "rule": "R06d"},
        {"name": "conditional store", "file": "pyrex/internal_functions.py",
         "old": "            self._clear_cache()\n        super().__setattr__(name, value)",
         "new": "            self._clear_cache()\n            return\n        super().__setattr__(name, value)", "rule": "R06c"},
    ],
    "benign": [
        {"name": "clear after the mutation", "file": "pyrex/signals.py",
         "old": "        self._clear_cache()\n        for group in self._filters:\n            group.append((freq_response, force_real))",
         "new": "        for group in self._filters:\n            group.append((freq_response, force_real))\n        self._clear_cache()"},
        {"name": "rename loop variable", "file": "pyrex/signals.py",
         "old": "        for group in self._filters:\n            group.append((freq_response, force_real))",
         "new": "        for grp in self._filters:\n            grp.append((freq_response, force_real))"},
        {"name": "debug logging in __setattr__", "file": "pyrex/internal_functions.py",
         "old": "            self._clear_cache()\n        super().__setattr__(name, value)",
         "new": "            logger.debug('clearing')\n            self._clear_cache()\n        super().__setattr__(name, value)"},
    ],
}
