"""C10 -- the event kernel delivers one time-aligned signal per ray solution, for any shipped component."""
import ast

from ..core.source import AnalysisError, parent
from ..core import paths
from ..core.sigbind import bind
from ..core.exprnf import NF, parse_expr
from ..core.astutil import u

META = {
    "explanation": "R10k (pointed) the index filing per-antenna ray paths and polarizations enumerates all of self.antennas, never a filtered subsequence.  R10a: every attribute use and call EventKernel.__init__/event makes on a pluggable component is bound "
                   "statically (Signature.bind on the syntax trees) against every shipped member of that component's family "
                   "(tracers, paths, Askaryan models, antennas, generators, ice models, writers), plus the tracers' own "
                   "constructor calls of their solution_class -- the whole cross-product of the property's quantifier, incl. "
                   "components no test instantiates.  R10b: structured path counting in the per-solution loop (receive and "
                   "polarizations.append exactly once on every normal path, ray_paths.extend once per antenna over the same "
                   "rt.solutions).  R10c-e: shape of the off-cone substitution, weight cuts, trigger and writer hand-over.",
    "not_decided": ["physics of nu_pol and psi", "numerical time alignment", "behaviour of user-supplied components"],
    "trusted_base": ["CPython ast", "Python call-binding rules (re-implemented in pvx/core/sigbind.py)"],
    "assumptions": ["component families are the classes shipped in the package"],
    "exhaustive": True,
}

K = "pyrex.kernel.EventKernel"
ROLE = {"self.gen": "generator", "self.writer": "writer", "self.ice": "ice", "rt": "tracer", "path": "path", "ant": "antenna"}


def families(repo, tier):
    fam = {k: [] for k in ("tracer", "path", "signal_model", "generator", "antenna", "ice", "writer")}
    for q, ci in repo.classes.items():
        if any("solution_class" in c.class_attrs for c in ci.mro()) and ci.lookup("solutions")[1] is not None:
            fam["tracer"].append(ci)
            owner, ent = ci.lookup("solution_class")
            v = ent[1]
            if isinstance(v, ast.Name):
                pc = repo.resolve_class(owner.module, v.id)
                if pc and pc not in fam["path"]:
                    fam["path"].append(pc)
        if ci.module == "pyrex.askaryan" and ci.is_subclass_of("FunctionSignal"):
            fam["signal_model"].append(ci)
        if ci.lookup("create_event")[1] is not None and ci.name != "Generator" or "create_event" in ci.methods:
            if ci not in fam["generator"]:
                fam["generator"].append(ci)
        if ci.is_subclass_of("Antenna") or ci.is_subclass_of("AntennaSystem"):
            if tier == "thorough" or ci.module in ("pyrex.antenna", "pyrex.detector"):
                fam["antenna"].append(ci)
        if ci.lookup("index")[1] is not None and ci.lookup("contains")[1] is not None:
            fam["ice"].append(ci)
        if ci.is_subclass_of("BaseWriter") and ci.name != "BaseWriter":
            fam["writer"].append(ci)
    for pc in list(fam["path"]):
        for sub in repo.subclasses(pc.name):
            if sub not in fam["path"]:
                fam["path"].append(sub)
    mins = {"tracer": 4, "path": 4, "signal_model": 3, "generator": 3, "antenna": 3, "ice": 4, "writer": 1}
    for k, m in mins.items():
        if len(fam[k]) < m:
            raise AnalysisError(f"component family '{k}' has {len(fam[k])} members (>= {m} on the pinned tree)")
    return fam


def under_attribute_error_guard(node):
    child, p = node, parent(node)
    while p is not None:
        if isinstance(p, ast.Try) and child in p.body:
            for h in p.handlers:
                if h.type is None or "AttributeError" in ast.unparse(h.type):
                    return True
        child, p = p, parent(p)
    return False


def kernel_uses(repo):
    k = repo.cls(K)
    uses = []
    for mname in ("__init__", "event"):
        fn = repo.member(K, mname)
        for n in ast.walk(fn):
            if isinstance(n, ast.Call):
                f = n.func
                src = ast.unparse(f)
                if src == "self.ray_tracer":
                    uses.append(("tracer", "ctor", "__init__", n))
                elif src == "self.signal_model":
                    uses.append(("signal_model", "ctor", "__init__", n))
                elif isinstance(f, ast.Attribute):
                    recv = ast.unparse(f.value)
                    if recv in ROLE and not under_attribute_error_guard(n):
                        uses.append((ROLE[recv], "call", f.attr, n))
            elif isinstance(n, ast.Attribute) and isinstance(n.ctx, ast.Load):
                recv = ast.unparse(n.value)
                par = parent(n)
                if recv in ROLE and not (isinstance(par, ast.Call) and par.func is n) and not under_attribute_error_guard(n):
                    uses.append((ROLE[recv], "attr", n.attr, n))
    return uses


def has_member(ci, name):
    if ci.lookup(name)[1] is not None:
        return True
    for c in ci.mro():
        for mname, (kind, fn) in c.methods.items():
            if mname != "__init__":
                continue
            for n in ast.walk(fn):
                if (isinstance(n, ast.Attribute) and isinstance(n.value, ast.Name) and n.value.id == "self"
                        and n.attr == name and isinstance(n.ctx, ast.Store)):
                    return True
    return False


# frozen exception, one line of reason: the abstract base AntennaSystem defines no `position`; every shipped concrete
# system assigns self.position in __init__ before building its antenna (a delegating property would break that order).
EXEMPT = {("pyrex.detector.AntennaSystem", "attr", "position")}


def r10a(ctx, fam):
    repo = ctx.repo
    ctx.rule("R10a", "every use the kernel makes of a component binds against every shipped member of the component's family",
             expected=60, kind="S")
    uses = kernel_uses(repo)
    if len(uses) < 15:
        raise AnalysisError(f"only {len(uses)} component uses found in EventKernel (>= 25 on the pinned tree)")
    seen = set()
    for family, kind, member, node in uses:
        key = (family, kind, member, ast.unparse(node) if kind != "attr" else "")
        if key in seen:
            continue
        seen.add(key)
        ctx.count("kernel_uses")
        for ci in fam[family]:
            if (ci.qual, kind, member) in EXEMPT:
                continue
            if kind == "attr":
                ctx.check(has_member(ci, member), "R10a", f"{ci.qual}.{member}",
                          f"{family} attribute `{member}` used by EventKernel exists", f"use: `{ast.unparse(node)}`",
                          key_detail="missing attribute", loc=ctx.loc("pyrex.kernel", node))
                continue
            owner, ent = ci.lookup(member)
            if ent is None or ent[0] == "classattr":
                if member == "__init__":
                    continue
                ctx.bad("R10a", f"{ci.qual}.{member}", f"{family} method `{member}` called by EventKernel exists",
                        f"call: `{ast.unparse(node)[:90]}`", key_detail="missing method", loc=ctx.loc("pyrex.kernel", node))
                continue
            if ent[0] in ("property", "lazy"):
                ctx.bad("R10a", f"{owner.qual}.{member}", f"{family}.{member} is callable the way EventKernel calls it",
                        "member is a property", key_detail="property called", loc=ctx.loc(owner.module, ent[1]))
                continue
            msg = bind(node, ent[1], bound_method=ent[0] != "static")
            ctx.check(msg is None, "R10a", f"{owner.qual}.{member}" + (f" (as {ci.name})" if owner is not ci and member == "__init__" else ""),
                      f"binds the kernel's call `{ast.unparse(node)[:100]}`", msg or "", key_detail=f"cannot bind kernel call: {msg}",
                      loc=ctx.loc(owner.module, ent[1]))
    # tracer -> path constructor calls
    for tr in fam["tracer"]:
        owner_sc, ent = tr.lookup("solution_class")
        pc = repo.resolve_class(owner_sc.module, ent[1].id) if isinstance(ent[1], ast.Name) else None
        if pc is None:
            ctx.unknown("R10a", tr.qual + ".solution_class", "solution_class resolves to a class of the package", ast.unparse(ent[1]))
            continue
        o, init = pc.lookup("__init__")
        for c in tr.mro():
            for mname, (kind, fn) in c.methods.items():
                if tr.lookup(mname)[0] is not c:
                    continue
                for n in ast.walk(fn):
                    if isinstance(n, ast.Call) and ast.unparse(n.func) == "self.solution_class":
                        msg = bind(n, init[1])
                        ctx.count("path_constructor_calls")
                        ctx.check(msg is None, "R10a", f"{c.qual}.{mname}->{pc.name}.__init__",
                                  f"tracer's path construction `{ast.unparse(n)[:80]}` binds {pc.name}.__init__", msg or "",
                                  key_detail=f"cannot bind path constructor: {msg}", loc=ctx.loc(c.module, n))
    # the iterable of particles: Event must be iterable and particles carry what the kernel reads
    ev = repo.cls("pyrex.particle.Event")
    ctx.check(ev.lookup("__iter__")[1] is not None, "R10a", "pyrex.particle.Event.__iter__", "the generator's Event is iterable", "",
              key_detail="event iteration")
    part = repo.cls("pyrex.particle.Particle")
    evfn = repo.member(K, "event")
    pattrs = sorted({n.attr for n in ast.walk(evfn) if isinstance(n, ast.Attribute) and ast.unparse(n.value) == "particle"})
    for a in pattrs:
        ctx.check(has_member(part, a), "R10a", f"pyrex.particle.Particle.{a}", f"particle attribute `{a}` read by the kernel exists", "",
                  key_detail="missing attribute")


def is_call(name, recv=None):
    return (lambda n: isinstance(n, ast.Call) and isinstance(n.func, ast.Attribute) and n.func.attr == name
            and (recv is None or ast.unparse(n.func.value) == recv))


def find_loops(fn):
    ant_loop = sol_loop = None
    for n in ast.walk(fn):
        if isinstance(n, ast.For):
            it = ast.unparse(n.iter)
            if it == "enumerate(self.antennas)":
                ant_loop = n
            elif isinstance(n.iter, ast.Attribute) and n.iter.attr == "solutions":
                sol_loop = n
    if ant_loop is None or sol_loop is None:
        raise AnalysisError("EventKernel.event: antenna loop / solutions loop not found")
    return ant_loop, sol_loop


def r10b(ctx):
    repo = ctx.repo
    ctx.rule("R10b", "per ray solution: exactly one receive and one polarization entry on every normal path; "
             "ray_paths extended once per antenna with the iterated solutions", expected=4, kind="S")
    fn = repo.member(K, "event")
    ant_loop, sol_loop = find_loops(fn)
    c = K + ".event"
    ivar, avar = [e.id for e in ant_loop.target.elts]
    pvar = sol_loop.target.id
    rt_sol = ast.unparse(sol_loop.iter)
    rc = paths.seq(sol_loop.body, is_call("receive", avar))
    ok = all(v == (1, 1) for k, v in rc.items() if k in ("fall", "continue")) and "break" not in rc and "return" not in rc
    ctx.check(ok and "fall" in rc, "R10b", c, f"`{avar}.receive(...)` executes exactly once per ray solution on every normal path",
              f"(min,max) per outcome = {rc}", key_detail="receive count", loc=ctx.loc("pyrex.kernel", sol_loop))
    pc = paths.seq(sol_loop.body, is_call("append", f"polarizations[{ivar}]"))
    ok = all(v == (1, 1) for k, v in pc.items() if k in ("fall", "continue")) and "break" not in pc
    ctx.check(ok and "fall" in pc, "R10b", c, f"`polarizations[{ivar}].append(...)` executes exactly once per ray solution",
              f"(min,max) per outcome = {pc}", key_detail="polarization count", loc=ctx.loc("pyrex.kernel", sol_loop))
    # ray_paths: exactly once on paths that reach the solutions loop, zero on paths that skip it
    def ext(n):
        return is_call("extend", f"ray_paths[{ivar}]")(n)
    ec = paths.seq(ant_loop.body, ext)
    calls = [n for n in ast.walk(ant_loop) if ext(n)]
    same = len(calls) == 1 and len(calls[0].args) == 1 and ast.unparse(calls[0].args[0]) == rt_sol
    # the extend must be a sibling statement preceding (or following) the loop in the same block -> same paths
    sib = len(calls) == 1 and parent(parent(calls[0])) is parent(sol_loop)
    ctx.check(same and sib and ec.get("fall", (0, 0))[1] == 1, "R10b", c,
              f"`ray_paths[{ivar}].extend({rt_sol})` executes once, in the same block as the loop over `{rt_sol}`",
              f"calls={[ast.unparse(x) for x in calls]} counts={ec}", key_detail="ray_paths extend", loc=ctx.loc("pyrex.kernel", ant_loop))
    # no append to ray_paths / polarizations elsewhere with other indices
    others = [ast.unparse(n) for n in ast.walk(fn) if isinstance(n, ast.Call) and isinstance(n.func, ast.Attribute)
              and n.func.attr in ("append", "extend", "insert") and ast.unparse(n.func.value).split("[")[0] in ("ray_paths", "polarizations")
              and parent(parent(n)) is not parent(sol_loop) and not any(n in ast.walk(s) for s in sol_loop.body)]
    init_ok = all(o in ("ray_paths.append([])", "polarizations.append([])") for o in others)
    ctx.check(init_ok, "R10b", c, "ray_paths / polarizations are otherwise only initialised with one empty list per antenna",
              f"other growth sites: {others}", key_detail="other growth sites")
    # one *distinct* list per antenna (a repeated list `[[]] * n` would make all antennas share one list)
    for nm in ("ray_paths", "polarizations"):
        inits = [s_ for s_ in fn.body if isinstance(s_, ast.Assign) and len(s_.targets) == 1 and u(s_.targets[0]) == nm]
        ok, how = False, ""
        if len(inits) == 1:
            v = inits[0].value
            how = u(v)
            if isinstance(v, ast.List) and not v.elts:
                # filled by a loop over the antennas appending a fresh [] each time
                loops = [l for l in fn.body if isinstance(l, ast.For) and any(isinstance(c, ast.Call) and u(c.func) == f"{nm}.append" and len(c.args) == 1
                                                                              and isinstance(c.args[0], ast.List) and not c.args[0].elts for c in ast.walk(l))]
                ok = len(loops) == 1 and "len(self.antennas)" in u(loops[0].iter)
                how += " + " + (u(loops[0])[:60] if loops else "no filling loop")
            elif isinstance(v, ast.ListComp) and isinstance(v.elt, ast.List) and not v.elt.elts and "self.antennas" in u(v.generators[0].iter):
                ok = True
            elif isinstance(v, ast.BinOp) and isinstance(v.op, ast.Mult):
                ok = False
                how += "  (list repetition shares ONE inner list between all antennas)"
        ctx.check(ok, "R10b", c, f"`{nm}` holds one distinct empty list per antenna before the particle loop", how, key_detail=f"{nm} per-antenna lists",
                  loc=ctx.loc("pyrex.kernel", inits[0]) if inits else None)
    # the polarization appended is the one handed to propagate
    app = [n for n in ast.walk(sol_loop) if is_call("append", f"polarizations[{ivar}]")(n)]
    prop = [n for n in ast.walk(sol_loop) if is_call("propagate", pvar)(n)]
    if app and prop:
        a = ast.unparse(app[0].args[0])
        kw = {k.arg: ast.unparse(k.value) for k in prop[0].keywords}
        ctx.check(kw.get("polarization") == a, "R10b", c, "the polarization recorded for the writer is the one propagated along the path",
                  f"appended `{a}`, propagate(polarization={kw.get('polarization')})", key_detail="polarization identity")


def r10c(ctx):
    repo = ctx.repo
    ctx.rule("R10c", "off-cone cut only replaces the pulse by EmptySignal(signal_times + path.tof, field); otherwise the propagated "
             "signals are received with the path's received_direction and the returned polarizations", expected=3, kind="N")
    fn = repo.member(K, "event")
    ant_loop, sol_loop = find_loops(fn)
    c = K + ".event"
    pvar = sol_loop.target.id
    avar = ant_loop.target.elts[1].id
    tries = [n for n in ast.walk(sol_loop) if isinstance(n, ast.Try)]
    if len(tries) != 1:
        ctx.unknown("R10c", c, "one try/except/else around the signal model", f"{len(tries)} try statements")
        return
    tr = tries[0]
    h = [x for x in tr.handlers if x.type is not None and "ValueError" in ast.unparse(x.type)]
    if not h:
        ctx.bad("R10c", c, "ValueError from the off-cone cut / signal model is caught", "no ValueError handler", key_detail="handler")
        return
    recv = [n for s in h[0].body for n in ast.walk(s) if is_call("receive", avar)(n)]
    ok = False
    detail = ""
    if len(recv) == 1 and recv[0].args and isinstance(recv[0].args[0], ast.Call):
        e = recv[0].args[0]
        detail = ast.unparse(e)
        if ast.unparse(e.func) == "EmptySignal" and e.args:
            t_ok = NF().nf(e.args[0]).equals(NF().nf(parse_expr(f"self.signal_times + {pvar}.tof")))
            vt = {k.arg: ast.unparse(k.value) for k in e.keywords}.get("value_type", "")
            ok = t_ok and vt.endswith("Type.field")
    ctx.check(ok, "R10c", c, f"except-arm receives EmptySignal(self.signal_times + {pvar}.tof, value_type=field)", detail,
              key_detail="empty signal substitution", loc=ctx.loc("pyrex.kernel", h[0]))
    # the raise for the cut is inside the try body and compares |psi - theta_c| > offcone_max
    cut = [n for s in tr.body for n in ast.walk(s) if isinstance(n, ast.If) and any(isinstance(b, ast.Raise) for b in n.body)]
    ok = len(cut) == 1 and isinstance(cut[0].test, ast.Compare) and isinstance(cut[0].test.ops[0], ast.Gt) \
        and ast.unparse(cut[0].test.comparators[0]) == "self.offcone_max" and "abs" in ast.unparse(cut[0].test.left) \
        and "ValueError" in ast.unparse(cut[0].body[0])
    ctx.check(ok, "R10c", c, "off-cone cut raises ValueError inside the try when |psi - theta_c| > offcone_max",
              ast.unparse(cut[0].test) if cut else "not found", key_detail="offcone cut")
    # else arm
    prop = [n for s in tr.orelse for n in ast.walk(s) if is_call("propagate", pvar)(n)]
    recv2 = [n for s in tr.orelse for n in ast.walk(s) if is_call("receive", avar)(n)]
    ok = len(prop) == 1 and len(recv2) == 1
    detail = ""
    if ok:
        kw = {k.arg: ast.unparse(k.value) for k in prop[0].keywords}
        asg = parent(prop[0])
        names = [e.id for e in asg.targets[0].elts] if isinstance(asg, ast.Assign) and isinstance(asg.targets[0], ast.Tuple) else []
        rk = {k.arg: ast.unparse(k.value) for k in recv2[0].keywords}
        pulse_src = [n for s in tr.body for n in ast.walk(s) if isinstance(n, ast.Assign) and ast.unparse(n.value.func if isinstance(n.value, ast.Call) else n.value) == "self.signal_model"]
        pulse = ast.unparse(pulse_src[0].targets[0]) if pulse_src else None
        ok = (len(names) == 2 and kw.get("signal") == pulse and kw.get("attenuation_interpolation") == "self.attenuation_interpolation"
              and recv2[0].args and ast.unparse(recv2[0].args[0]) == names[0]
              and rk.get("direction") == f"{pvar}.received_direction" and rk.get("polarization") == names[1])
        detail = f"propagate({kw}); receive({ast.unparse(recv2[0].args[0]) if recv2[0].args else ''}, {rk})"
    ctx.check(ok, "R10c", c, "else-arm propagates the pulse of this particle along this path and receives the result with "
              "the path's received_direction and the returned polarizations", detail, key_detail="propagate/receive wiring")
    # the signal model is evaluated on the configured grid with this path's geometry
    sm = [n for s in tr.body for n in ast.walk(s) if isinstance(n, ast.Call) and ast.unparse(n.func) == "self.signal_model"]
    if sm:
        kw = {k.arg: ast.unparse(k.value) for k in sm[0].keywords}
        ok = kw.get("times") == "self.signal_times" and kw.get("viewing_distance") == f"{pvar}.path_length" and kw.get("ice_model") == "self.ice" \
            and kw.get("particle") == "particle"
        ctx.check(ok, "R10c", c, "signal model gets the configured time grid, this particle, this path's length and the kernel's ice",
                  str(kw), key_detail="signal model arguments")


def r10d(ctx):
    repo = ctx.repo
    ctx.rule("R10d", "weight cuts: `<` comparisons against weight_min (tuple form None-tolerant) lead to `continue` before any tracer is built",
             expected=2, kind="N")
    fn = repo.member(K, "event")
    c = K + ".event"
    ploop = [n for n in ast.walk(fn) if isinstance(n, ast.For) and ast.unparse(n.iter) == "event"]
    if len(ploop) != 1:
        raise AnalysisError("particle loop not found in EventKernel.event")
    body = ploop[0].body
    first_tracer = next((i for i, s in enumerate(body) if any(isinstance(n, ast.Call) and ast.unparse(n.func) == "self.ray_tracer" for n in ast.walk(s))), None)
    cuts = []
    for i, s in enumerate(body[: first_tracer if first_tracer is not None else len(body)]):
        for n in ast.walk(s):
            if isinstance(n, ast.If) and any(isinstance(b, ast.Continue) for b in n.body):
                cuts.append(n)
    comps = []
    for n in cuts:
        for cmp_ in ast.walk(n.test):
            if isinstance(cmp_, ast.Compare) and "weight_min" in ast.unparse(cmp_) and "weight" in ast.unparse(cmp_.left):
                comps.append(cmp_)
    ok = len(cuts) == 2 and len(comps) == 3 and all(isinstance(x.ops[0], ast.Lt) and "weight_min" in ast.unparse(x.comparators[0])
                                                    and "weight_min" not in ast.unparse(x.left) for x in comps)
    ctx.check(ok, "R10d", c, "two skip guards, three `weight < weight_min` comparisons, all before the first ray tracer",
              f"guards={[ast.unparse(n.test)[:90] for n in cuts]}", key_detail="weight comparisons", loc=ctx.loc("pyrex.kernel", ploop[0]))
    want = {("particle.survival_weight", "self.weight_min[0]"), ("particle.interaction_weight", "self.weight_min[1]"),
            ("particle.weight", "self.weight_min")}
    got = {(ast.unparse(x.left), ast.unparse(x.comparators[0])) for x in comps}
    ctx.check(got == want, "R10d", c, "survival weight is compared with weight_min[0], interaction weight with weight_min[1], total weight with weight_min",
              str(sorted(got)), key_detail="weight pairing")
    nn = [ast.unparse(x) for n in cuts for x in ast.walk(n.test) if isinstance(x, ast.Compare) and isinstance(x.ops[0], ast.IsNot)]
    ctx.check(len(nn) == 2, "R10d", c, "tuple form tolerates missing (None) weights", str(nn), key_detail="None tolerance")


def r10e(ctx):
    repo = ctx.repo
    ctx.rule("R10e", "trigger result is the supplied function(s) on the antennas; the writer gets the lists filled in the loop and "
             "events_thrown = gen.count - _gen_count", expected=3, kind="N")
    fn = repo.member(K, "event")
    c = K + ".event"
    trig = [n for n in ast.walk(fn) if isinstance(n, ast.Assign) and ast.unparse(n.targets[0]) == "triggered"]
    vals = sorted(ast.unparse(n.value) for n in trig)
    ok = (len(trig) == 3 and "None" in vals and "self.triggers(self.antennas)" in vals
          and any(isinstance(n.value, ast.DictComp) and ast.unparse(n.value.value).endswith("(self.antennas)")
                  and "self.triggers.items()" in ast.unparse(n.value.generators[0].iter) for n in trig))
    ctx.check(ok, "R10e", c, "triggered is None / self.triggers(self.antennas) / {key: f(self.antennas)} by the type decision", str(vals),
              key_detail="trigger evaluation")
    add = [n for n in ast.walk(fn) if is_call("add", "self.writer")(n)]
    ok = len(add) == 1
    if ok:
        kw = {k.arg: k.value for k in add[0].keywords}
        ok = (set(kw) >= {"event", "triggered", "ray_paths", "polarizations", "events_thrown"}
              and all(ast.unparse(kw[k]) == k for k in ("event", "triggered", "ray_paths", "polarizations"))
              and NF().nf(kw["events_thrown"]).equals(NF().nf(parse_expr("self.gen.count - self._gen_count"))))
        guard = parent(add[0])
        while guard is not None and not isinstance(guard, ast.If):
            guard = parent(guard)
        ok = ok and guard is not None and ast.unparse(guard.test) == "self.writer is not None"
    ctx.check(ok, "R10e", c, "writer.add receives event, triggered, the same ray_paths/polarizations lists and events_thrown = gen.count - _gen_count",
              ast.unparse(add[0])[:160] if add else "no call", key_detail="writer hand-over")
    # _gen_count updated after the add, unconditionally, from gen.count
    upd = [s for s in fn.body if isinstance(s, ast.Assign) and ast.unparse(s.targets[0]) == "self._gen_count"]
    ok = len(upd) == 1 and ast.unparse(upd[0].value) == "self.gen.count"
    if ok and add:
        order = [id(s) for s in fn.body]
        add_stmt = add[0]
        while parent(add_stmt) is not fn:
            add_stmt = parent(add_stmt)
        ok = order.index(id(upd[0])) > order.index(id(add_stmt))
    ctx.check(ok, "R10e", c, "_gen_count is refreshed from gen.count after the writer call on every path", "", key_detail="gen count refresh")
    rets = [ast.unparse(n.value) for n in ast.walk(fn) if isinstance(n, ast.Return) and n.value is not None]
    ctx.check(sorted(rets) == sorted(["event", "(event, triggered['global'])", "(event, triggered)"]), "R10e", c,
              "returns the generator's event (with the trigger result when triggers are configured)", str(rets), key_detail="return values")
    first = fn.body[1] if isinstance(fn.body[0], ast.Expr) else fn.body[0]
    ctx.check(ast.unparse(first) == "event = self.gen.create_event()", "R10e", c, "the event is the generator's create_event() result",
              ast.unparse(first), key_detail="event source")


def r10k(ctx):
    """Pointed: the per-antenna result lists are positional in self.antennas; an index that counts a *filtered* sequence of antennas files an antenna's
    paths under another antenna's slot as soon as one antenna has no solution.  Read off the loop header and the binding of its sequence."""
    repo = ctx.repo
    ctx.rule("R10k", "the index that files ray paths / polarizations per antenna enumerates all of self.antennas, never a filtered subsequence", expected=1, kind="N")
    fn = repo.member(K, "event")
    binds = {}
    for n in ast.walk(fn):
        if isinstance(n, ast.Assign) and len(n.targets) == 1 and isinstance(n.targets[0], ast.Name):
            binds.setdefault(n.targets[0].id, []).append(n.value)
    seen = 0
    for lp in [n for n in ast.walk(fn) if isinstance(n, ast.For)]:
        it = lp.iter
        if not (isinstance(it, ast.Call) and u(it.func) == "enumerate" and it.args and isinstance(lp.target, ast.Tuple) and isinstance(lp.target.elts[0], ast.Name)):
            continue
        idx = lp.target.elts[0].id
        slots = sorted({u(x.value) for x in ast.walk(lp) if isinstance(x, ast.Subscript) and isinstance(x.value, ast.Name) and x.value.id in ("ray_paths", "polarizations")
                        and isinstance(x.slice, ast.Name) and x.slice.id == idx})
        if not slots:
            continue
        seen += 1
        seq = it.args[0]
        k = 0
        while isinstance(seq, ast.Name) and len(binds.get(seq.id, [])) == 1 and k < 4:
            seq = binds[seq.id][0]
            k += 1
        filtered = (isinstance(seq, (ast.ListComp, ast.GeneratorExp)) and any(g.ifs for g in seq.generators)) or (isinstance(seq, ast.Call) and u(seq.func) in ("filter", "itertools.compress", "compress"))
        if isinstance(seq, ast.Call) and u(seq.func) in ("list", "tuple") and seq.args:
            inner = seq.args[0]
            filtered = filtered or (isinstance(inner, (ast.ListComp, ast.GeneratorExp)) and any(g.ifs for g in inner.generators)) or (isinstance(inner, ast.Call) and u(inner.func) == "filter")
        if filtered:
            ctx.bad("R10k", f"{K}.event", f"`{idx}` indexes {', '.join(slots)} by position in self.antennas",
                    f"`for {u(lp.target)} in {u(it)[:80]}` counts a filtered sequence ({u(seq)[:100]}): after the first antenna that is left out every later antenna is filed one slot early",
                    key_detail="index over filtered antennas", loc=ctx.loc("pyrex.kernel", lp), pointed=True)
        elif "self.antennas" in u(seq):
            ctx.ok("R10k", f"{K}.event", f"`{idx}` enumerates {u(seq)[:60]}", loc=ctx.loc("pyrex.kernel", lp))
        else:
            ctx.unknown("R10k", f"{K}.event", f"`{idx}` enumerates all of self.antennas", f"sequence {u(seq)[:80]} not read", required=False, loc=ctx.loc("pyrex.kernel", lp))
    if not seen:
        ctx.unknown("R10k", f"{K}.event", "an enumerate loop that files per-antenna results", "none found", required=False)


def r10f(ctx):
    repo = ctx.repo
    ctx.rule("R10f", "the off-cone cut compares the viewing angle with the Cherenkov angle of the ice *at the particle's vertex*: arccos(1 / ice.index(vertex depth))", expected=1, kind="N")
    fn = repo.member(K, "event")
    st = [n for n in ast.walk(fn) if isinstance(n, ast.Assign) and ast.unparse(n.targets[0]) == "theta_c"]
    want = NF().nf(parse_expr("np.arccos(1/self.ice.index(particle.vertex[2]))"))
    ok = len(st) == 1 and NF().nf(st[0].value).equals(want)
    ctx.check(ok, "R10f", K + ".event", "theta_c = arccos(1 / index of refraction at the vertex depth)", ast.unparse(st[0].value) if st else "no assignment to theta_c",
              key_detail="cherenkov angle", loc=ctx.loc("pyrex.kernel", st[0] if st else fn))
    use = [n for n in ast.walk(fn) if isinstance(n, ast.Compare) and "theta_c" in ast.unparse(n) and "offcone_max" in ast.unparse(n)]
    ok = len(use) == 1 and ast.unparse(use[0]).replace(" ", "") in ("np.abs(psi-theta_c)>self.offcone_max", "self.offcone_max<np.abs(psi-theta_c)")
    ctx.check(ok, "R10f", K + ".event", "the cut is |psi - theta_c| > offcone_max", ast.unparse(use[0]) if use else "", key_detail="off-cone comparison")


def run(ctx):
    fam = families(ctx.repo, ctx.tier)
    ctx.analysed["families"] = {k: [c.qual for c in v] for k, v in fam.items()}
    ctx.guard(r10k)         # pointed: reads its own statements, so it runs before the rules that need the confirmed loop shape
    pointed = bool(ctx.violations())
    for rule, args in ((r10a, (fam,)), (r10b, ()), (r10c, ()), (r10d, ()), (r10e, ()), (r10f, ())):
        try:
            ctx.guard(rule, *args)
        except AnalysisError as e:
            if not pointed:
                raise
            # a pointed finding stands on its own: the vanished anchor of a shape rule is recorded as undecided instead of hiding it
            ctx.unknown(rule.__name__.upper(), f"{K}.event", "the rule finds its anchor", str(e), required=True)


SELFTEST = {
    "faults": [
        {"name": "antenna index counts only the reachable antennas", "file": "pyrex/kernel.py",
         "old": "            for i, ant in enumerate(self.antennas):\n",
         "new": "            near = [a for a in self.antennas if a.position[2] <= 0]\n            for i, ant in enumerate(near):\n", "rule": "R10k"},
        {"name": "scalar weight cut recomputed from the component weights (generic dropped-read rule)", "file": "pyrex/kernel.py",
         "old": "            elif particle.weight<self.weight_min:", "new": "            elif particle.survival_weight*particle.interaction_weight<self.weight_min:", "rule": "R10v"},
        {"name": "Cherenkov angle from the tracer's lower endpoint", "file": "pyrex/kernel.py", "old": "theta_c = np.arccos(1/self.ice.index(particle.vertex[2]))",
         "new": "theta_c = np.arccos(1/rt.n0)", "rule": "R10f"},
        {"name": "per-antenna lists built by repetition (shared list)", "file": "pyrex/kernel.py",
         "old": "        ray_paths = []\n        polarizations = []\n        for i in range(len(self.antennas)):\n            ray_paths.append([])\n            polarizations.append([])\n",
         "new": "        ray_paths = [[]] * len(self.antennas)\n        polarizations = [[]] * len(self.antennas)\n", "rule": "R10b"},
        {"name": "continue instead of receiving the EmptySignal", "file": "pyrex/kernel.py",
         "old": "                        ant.receive(\n                            EmptySignal(self.signal_times+path.tof,\n                                        value_type=EmptySignal.Type.field)\n                        )",
         "new": "                        continue", "rule": "R10b"},
        {"name": "rename a keyword of propagate", "file": "pyrex/ray_tracing.py",
         "old": "    def propagate(self, signal=None, polarization=None,\n                  attenuation_interpolation=None):",
         "new": "    def propagate(self, signal=None, polarization=None,\n                  interpolation=None):", "occurrence": 1, "rule": "R10a", "construct": "propagate"},
        {"name": "polarization appended in the else arm only", "file": "pyrex/kernel.py",
         "old": "                    polarizations[i].append(nu_pol)\n", "new": "",
         "rule": "R10b"},
        {"name": "EmptySignal without the time of flight", "file": "pyrex/kernel.py",
         "old": "EmptySignal(self.signal_times+path.tof,", "new": "EmptySignal(self.signal_times,", "rule": "R10c"},
        {"name": "weight cut with <=", "file": "pyrex/kernel.py", "old": "elif particle.weight<self.weight_min:",
         "new": "elif particle.weight<=self.weight_min:", "rule": "R10d"},
        {"name": "events_thrown not differenced", "file": "pyrex/kernel.py", "old": "events_thrown=self.gen.count-self._gen_count)",
         "new": "events_thrown=self.gen.count)", "rule": "R10e"},
        {"name": "path constructor loses the direct flag", "file": "pyrex/ray_tracing.py",
         "old": "    def __init__(self, parent_tracer, launch_angle, direct):", "new": "    def __init__(self, parent_tracer, launch_angle):",
         "rule": "R10a", "construct": "solutions"},
    ],
    "benign": [
        {"name": "per-antenna lists by comprehension", "file": "pyrex/kernel.py",
         "old": "        ray_paths = []\n        polarizations = []\n        for i in range(len(self.antennas)):\n            ray_paths.append([])\n            polarizations.append([])\n",
         "new": "        ray_paths = [[] for _ in self.antennas]\n        polarizations = [[] for _ in self.antennas]\n"},
        {"name": "rename loop variable", "file": "pyrex/kernel.py", "old": "events_thrown=self.gen.count-self._gen_count)",
         "new": "events_thrown=-self._gen_count+self.gen.count)"},
        {"name": "extra debug log in loop", "file": "pyrex/kernel.py", "old": "                    polarizations[i].append(nu_pol)\n",
         "new": "                    polarizations[i].append(nu_pol)\n                    logger.debug('pol %s', nu_pol)\n"},
    ],
}
