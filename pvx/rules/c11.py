"""C11 -- HDF5 write/read round trip returns each event's own data (structural clauses on pyrex/io.py)."""
import ast

from ..core.source import AnalysisError, parent
from ..core import paths
from ..core.astutil import stmts_in_order, calls, is_call, kwargs_of, guards, u, enclosing_stmt, parse_expr
from ..core.exprnf import NF, local_env

META = {
    "explanation": "Writer side of io.py: R11a pairs every per-table counter increment with the resize of its dataset(s), the "
                   "(start,length) entry written to the event index table and the rows stored (def-use + normal-form equality of "
                   "start/length expressions); R11b the gating table of add(); R11c ordering (preset of all indices dominates the "
                   "writers, the event counter moves last and only there, argument checks raise first); R11d exhaustiveness of the "
                   "dataset-location table against the create/write dispatch arms and every constant key used by reader and writer; "
                   "R11e stores into a keyed table use the matched column; R11g the reader's slice comes from columns 0/1 of the same "
                   "index entry.  Together with R12a (C12) these are the structural necessary conditions for 'event i reads back the "
                   "rows written by add i', for every add sequence, option combination and rejected add.",
    "not_decided": ["h5py semantics (resize, variable-length types)", "value equality of what is read back",
                    "total_thrown after a rejected add"],
    "trusted_base": ["CPython ast", "h5py Dataset.resize(n, axis=0) keeps existing rows"],
    "assumptions": [],
}

W = "pyrex.io.HDF5Writer"
WRITERS = ["_write_particles", "_write_trigger", "_write_ray_data", "_write_noise_data", "_write_waveforms"]
GATE = {"_write_particles": "particles", "_write_trigger": "triggers", "_write_ray_data": "rays",
        "_write_noise_data": "noise", "_write_waveforms": "waveforms"}


def counter_key(node):
    if isinstance(node, ast.Subscript) and u(node.value) == "self._counters" and isinstance(node.slice, ast.Constant):
        return node.slice.value
    return None


def loc_key(node):
    if isinstance(node, ast.Subscript) and u(node.value) == "self._data_locs" and isinstance(node.slice, ast.Constant):
        return node.slice.value
    return None


def dataset_bindings(order):
    """local name -> (location key, sub-table or None)"""
    ds = {}
    for s in order:
        if isinstance(s, ast.Assign) and len(s.targets) == 1 and isinstance(s.targets[0], ast.Name):
            v = s.value
            if isinstance(v, ast.Call) and u(v.func) in ("self._create_dataset", "self._create_metadataset") and v.args:
                k = loc_key(v.args[0])
                if k:
                    ds[s.targets[0].id] = (k, None)
            elif (isinstance(v, ast.Subscript) and isinstance(v.value, ast.Name) and v.value.id in ds
                  and isinstance(v.slice, ast.Constant)):
                ds[s.targets[0].id] = (ds[v.value.id][0], v.slice.value)
    return ds


def r11a(ctx):
    repo = ctx.repo
    ctx.rule("R11a", "every counter increment is paired with the resize of its dataset(s) to the counter, an index entry "
             "(start = pre-increment counter, length = increment) and row stores inside [start, start+length)", expected=6, kind="S")
    total = 0
    for m in WRITERS:
        fn = repo.member(W, m)
        order = stmts_in_order(fn)
        simple = [s for s in order if not isinstance(s, (ast.If, ast.For, ast.While, ast.Try, ast.With))]
        pos = {id(s): i for i, s in enumerate(order)}
        ds = dataset_bindings(order)
        env = local_env(fn)
        incs = [(s, counter_key(s.target), s.value) for s in order
                if isinstance(s, ast.AugAssign) and isinstance(s.op, ast.Add) and counter_key(s.target)]
        # any other kind of store to a counter is outside the idiom
        odd = [s for s in order if isinstance(s, (ast.Assign, ast.AugAssign))
               and any(counter_key(t) for t in (s.targets if isinstance(s, ast.Assign) else [s.target]))
               and not (isinstance(s, ast.AugAssign) and isinstance(s.op, ast.Add))]
        for s in odd:
            ctx.bad("R11a", f"{W}.{m}", "counters only grow by `+=`", u(s), key_detail="counter store", loc=ctx.loc("pyrex.io", s))
        for inc, K, E in incs:
            total += 1
            construct = f"{W}.{m}[{K}]"
            ip = pos[id(inc)]
            nfE = NF(env).nf(E)
            block = parent(inc)
            # (a) resize of every dataset of K to the counter, after the increment
            need = {"str", "float"} if K.endswith("_meta") else {None}
            got = set()
            for s in [x for x in simple if pos[id(x)] > ip]:
                for c in calls(s, name="resize"):
                    if (isinstance(c.func.value, ast.Name) and c.func.value.id in ds and ds[c.func.value.id][0] == K
                            and c.args and counter_key(c.args[0]) == K
                            and any(k.arg == "axis" and u(k.value) == "0" for k in c.keywords)):
                        got.add(ds[c.func.value.id][1])
            ctx.check(need <= got, "R11a", construct, f"dataset(s) of '{K}' are resized to self._counters['{K}'] on axis 0 after the increment",
                      f"resized sub-tables={sorted(map(str, got))}, needed={sorted(map(str, need))}", key_detail="resize", loc=ctx.loc("pyrex.io", inc))
            # (b) the index entry
            wi = [c for s in simple for c in calls(s, func="self._write_indices") if c.args and loc_key(c.args[0]) == K]
            if len(wi) != 1:
                ctx.bad("R11a", construct, f"exactly one index entry is written for '{K}'", f"{len(wi)} _write_indices call(s)",
                        key_detail="index entry count", loc=ctx.loc("pyrex.io", inc))
                continue
            c = wi[0]
            kw = kwargs_of(c)
            S = c.args[1] if len(c.args) > 1 else kw.get("start_index")
            L = c.args[2] if len(c.args) > 2 else kw.get("length")
            nfL = NF(env).nf(L) if L is not None else NF().nf(parse_expr("1"))
            cpos = pos[id(enclosing_stmt_in(order, c))]
            start_ok, how = False, ""
            if isinstance(S, ast.Name):
                defs = [a for a in order if isinstance(a, ast.Assign) and len(a.targets) == 1
                        and isinstance(a.targets[0], ast.Name) and a.targets[0].id == S.id]
                if len(defs) == 1 and counter_key(defs[0].value) == K and pos[id(defs[0])] < ip and parent(defs[0]) is block:
                    start_ok, how = True, f"{S.id} = counter read before the increment"
                elif (len(defs) == 1 and ip < pos[id(defs[0])] < cpos and parent(defs[0]) is block
                      and NF({k: v for k, v in env.items() if k != S.id}).nf(defs[0].value).equals(NF().nf(parse_expr(f"self._counters['{K}']")) - nfE)
                      and not any(ip2 for inc2, K2, E2 in incs for ip2 in [pos[id(inc2)]] if K2 == K and pos[id(defs[0])] < ip2 < cpos)):
                    # `row = counter - increment` taken after the increment and before any further increment of the same counter
                    start_ok, how = True, f"{S.id} = counter - increment, read after the increment"
                else:
                    how = f"{S.id} defined by {[u(d) for d in defs]}"
            elif S is not None:
                want = NF().nf(parse_expr(f"self._counters['{K}']")) - nfE
                start_ok = cpos > ip and NF(env).nf(S).equals(want)
                how = f"start `{u(S)}` after the increment"
            ctx.check(start_ok, "R11a", construct, "index start is the counter value before the increment", how, key_detail="index start",
                      loc=ctx.loc("pyrex.io", c))
            ctx.check(nfL.equals(nfE), "R11a", construct, "index length equals the increment", f"length `{u(L) if L is not None else '1 (default)'}` vs increment `{u(E)}`",
                      key_detail="index length", loc=ctx.loc("pyrex.io", c))
            # (c) rows stored
            if isinstance(S, ast.Name):
                Snf = NF().nf(S)
            else:
                Snf = NF(env).nf(S) if S is not None else None
            for s in simple:
                if not isinstance(s, ast.Assign):
                    continue
                for t in s.targets:
                    if isinstance(t, ast.Subscript) and isinstance(t.value, ast.Name) and t.value.id in ds and ds[t.value.id][0] == K:
                        sl = t.slice
                        row = sl.elts[0] if isinstance(sl, ast.Tuple) else sl
                        rnf = NF({k: v for k, v in env.items() if not (isinstance(S, ast.Name) and k == S.id)}).nf(row)
                        off = rnf - Snf
                        ok, why = row_offset_ok(off, row, s, L, E, env)
                        ctx.check(ok, "R11a", construct, "stored row lies inside [start, start+length)", f"`{u(t)}`: {why}",
                                  key_detail=f"row index {u(row)}", loc=ctx.loc("pyrex.io", s))
            # rows written through _write_metadata(loc, data, index)
            for s in simple:
                for cm in calls(s, func="self._write_metadata"):
                    if cm.args and loc_key(cm.args[0]) == K and len(cm.args) > 2:
                        row = cm.args[2]
                        rnf = NF({k: v for k, v in env.items() if not (isinstance(S, ast.Name) and k == S.id)}).nf(row)
                        ok, why = row_offset_ok(rnf - Snf, row, s, L, E, env)
                        ctx.check(ok, "R11a", construct, "metadata rows start inside [start, start+length)", f"`{u(cm)[:70]}`: {why}",
                                  key_detail=f"metadata row {u(row)}", loc=ctx.loc("pyrex.io", s))
    ctx.analysed["counter_increments"] = total


def enclosing_stmt_in(order, node):
    ids = {id(s) for s in order}
    n = node
    while n is not None and id(n) not in ids:
        n = parent(n)
    return n


def row_offset_ok(off, row, stmt, L, E, env):
    """off = row - start (normal form).  OK if 0, or a loop variable ranging over [0, L)."""
    if off.num.is_zero():
        return True, "offset 0"
    rep = repr(off)
    # offset must be exactly one loop variable
    names = [n for n in ast.walk(row) if isinstance(n, ast.Name)]
    for nm in names:
        if repr(NF().nf(ast.Name(id=nm.id, ctx=ast.Load()))) == rep:
            loop = parent(stmt)
            while loop is not None:
                if isinstance(loop, ast.For) and nm.id in [x.id for x in ast.walk(loop.target) if isinstance(x, ast.Name)]:
                    it = loop.iter
                    Ltxt = u(env.get(L.id, L)) if isinstance(L, ast.Name) else (u(L) if L is not None else "1")
                    if is_call(it, func="range") and len(it.args) == 1 and NF(env).nf(it.args[0]).equals(NF(env).nf(L) if L is not None else NF().nf(parse_expr("1"))):
                        return True, f"offset {nm.id} in range(length)"
                    if is_call(it, func="enumerate") and it.args and f"len({u(it.args[0])})" in Ltxt and Ltxt.startswith("max("):
                        return True, f"offset {nm.id} enumerates {u(it.args[0])}, length = {Ltxt}"
                    return False, f"offset {nm.id} iterates `{u(it)}`, not bounded by the length `{Ltxt}`"
                loop = parent(loop)
    return False, f"row offset from start is `{rep}`"


def r11b(ctx):
    repo = ctx.repo
    ctx.rule("R11b", "add(): each writer is gated by _write_data[K] and (not _trig_only[K] or _check_trigger(triggered)) with its own K",
             expected=6, kind="N")
    fn = repo.member(W, "add")
    for m, K in GATE.items():
        cs = calls(fn, name=m, recv="self")
        construct = f"{W}.add->{m}"
        if len(cs) != 1:
            ctx.bad("R11b", construct, "writer is called exactly once from add()", f"{len(cs)} calls", key_detail="call count")
            continue
        g = guards(cs[0], stop=fn)
        ok = len(g) == 1 and g[0][1] and gate_matches(g[0][0], K)
        ctx.check(ok, "R11b", construct, f"guard is `self._write_data['{K}'] and (not self._trig_only['{K}'] or self._check_trigger(triggered))`",
                  u(g[0][0]) if g else "unguarded", key_detail="gate", loc=ctx.loc("pyrex.io", cs[0]))
    # antenna triggers
    ia = [s for s in ast.walk(fn) if isinstance(s, ast.Assign) and u(s.targets[0]) == "include_antennas"]
    ok = len(ia) == 1 and gate_matches(ia[0].value, "antenna_triggers")
    wt = calls(fn, name="_write_trigger", recv="self")
    ok = ok and wt and len(wt[0].args) >= 2 and u(wt[0].args[1]) == "include_antennas" and u(wt[0].args[0]) == "triggered"
    ctx.check(ok, "R11b", f"{W}.add->include_antennas", "antenna triggers are gated by the 'antenna_triggers' option and passed to _write_trigger",
              u(ia[0].value) if ia else "", key_detail="antenna gate")
    # __init__ table
    init = repo.member(W, "__init__")
    keys = None
    for n in ast.walk(init):
        if isinstance(n, ast.Assign) and u(n.targets[0]) == "self._write_data" and isinstance(n.value, ast.Dict):
            keys = {k.value: u(v) for k, v in zip(n.value.keys, n.value.values)}
    want = {"particles": "write_particles", "triggers": "write_triggers", "antenna_triggers": "write_antenna_triggers",
            "waveforms": "write_waveforms", "rays": "write_rays", "noise": "write_noise"}
    ctx.check(keys == want, "R11b", f"{W}.__init__", "each write_* option is stored under its own key of _write_data", str(keys), key_detail="option table")
    txt = [u(s) for s in ast.walk(init) if isinstance(s, ast.If) and "require_trigger" in u(s.test)]
    ok = False
    for s in ast.walk(init):
        if isinstance(s, ast.If) and u(s.test) == "isinstance(require_trigger, bool)":
            b = "\n".join(u(x) for x in s.body)
            e = "\n".join(u(x) for x in s.orelse)
            ok = ("self._trig_only = {key: require_trigger for key in self._write_data}" in b
                  and "always_write = ['particles', 'triggers', 'antenna_triggers']" in b
                  and "self._update_bool_dict(self._trig_only, always_write, False)" in b
                  and "self._trig_only = {key: False for key in self._write_data}" in e
                  and "self._update_bool_dict(self._trig_only, require_trigger, True)" in e)
    ctx.check(ok, "R11b", f"{W}.__init__", "_trig_only follows the documented table (bool: all but particles/triggers/antenna_triggers; list: exactly the listed keys)",
              "", key_detail="trig_only table")


def gate_matches(test, K):
    want = f"self._write_data['{K}'] and (not self._trig_only['{K}'] or self._check_trigger(triggered))"
    return u(test) == want


def r11c(ctx):
    repo = ctx.repo
    ctx.rule("R11c", "add(): argument checks raise first; _preset_all_indices() precedes every writer; the event counter is "
             "incremented exactly once, last, and nowhere else in the writer", expected=4, kind="N")
    fn = repo.member(W, "add")
    construct = f"{W}.add"
    body = [s for s in fn.body if not (isinstance(s, ast.Expr) and isinstance(s.value, ast.Constant))]
    idx = {}
    for i, s in enumerate(body):
        if calls(s, name="_preset_all_indices", recv="self") and isinstance(s, ast.Expr):
            idx.setdefault("preset", i)
        if any(calls(s, name=m, recv="self") for m in WRITERS):
            idx.setdefault("first_writer", i)
            idx["last_writer"] = i
        if isinstance(s, ast.AugAssign) and counter_key(s.target) == "indices":
            idx.setdefault("event_inc", i)
        if isinstance(s, ast.If) and any(isinstance(x, ast.Raise) for x in ast.walk(s)) and not any(calls(s, name=m, recv="self") for m in WRITERS):
            idx["last_check"] = i
    ok = all(k in idx for k in ("preset", "first_writer", "event_inc"))
    ctx.check(ok and idx["preset"] < idx["first_writer"], "R11c", construct, "_preset_all_indices() is an unconditional statement before the first writer",
              str(idx), key_detail="preset order", loc=ctx.loc("pyrex.io", fn))
    ctx.check(ok and idx.get("last_check", -1) < idx["preset"], "R11c", construct, "argument checks that raise precede the first file mutation", str(idx),
              key_detail="checks first")
    ctx.check(ok and idx["event_inc"] > idx["last_writer"] and idx["event_inc"] == len(body) - 1, "R11c", construct,
              "self._counters['indices'] += 1 is the last statement, after every writer", str(idx), key_detail="event counter last")
    if ok:
        inc = body[idx["event_inc"]]
        ctx.check(u(inc.value) == "1", "R11c", construct, "the event counter moves by exactly one per accepted add", u(inc), key_detail="event counter step")
    # nowhere else
    w = repo.cls(W)
    others = []
    for name, (kind, f) in w.methods.items():
        for s in ast.walk(f):
            if isinstance(s, (ast.AugAssign, ast.Assign)):
                for t in (s.targets if isinstance(s, ast.Assign) else [s.target]):
                    if counter_key(t) == "indices" and not (name == "add"):
                        others.append(f"{name}: {u(s)}")
    ctx.check(not others, "R11c", W, "no other method moves the event counter", str(others), key_detail="event counter elsewhere")
    # _preset_all_indices writes (count, 0) for every counter but 'indices'
    pf = repo.member(W, "_preset_all_indices")
    wi = calls(pf, func="self._write_indices")
    ok = (len(wi) == 1 and len(wi[0].args) == 3 and u(wi[0].args[0]) == "self._data_locs[key]" and u(wi[0].args[2]) == "0")
    loops = [n for n in ast.walk(pf) if isinstance(n, ast.For)]
    ok = ok and len(loops) == 1 and u(loops[0].iter) == "self._counters.items()" and u(wi[0].args[1]) == [e.id for e in loops[0].target.elts][1]
    ctx.check(ok, "R11c", f"{W}._preset_all_indices", "every table's index entry is preset to (current counter, 0)", u(pf.body[-1])[:150],
              key_detail="preset shape")
    exits = [n for n in ast.walk(pf) if isinstance(n, (ast.Return, ast.Break, ast.Raise))]
    ctx.check(not exits, "R11c", f"{W}._preset_all_indices", "the preset runs for every event: no return / break / raise before or inside the loop (a row left over from a rejected "
              "add must be reset too)", "; ".join(f"line {n.lineno}: {u(n)}" for n in exits)[:160], key_detail="preset unconditional")
    # _write_indices targets the row of the current event counter
    wf = repo.member(W, "_write_indices")
    txt = u(wf)
    ok = ("global_index_value = self._counters['indices']" in txt and "indices[global_index_value, i] = (start_index, length)" in txt)
    m = [n for n in ast.walk(wf) if isinstance(n, ast.For)]
    ok = ok and len(m) == 1 and u(m[0].iter) == "enumerate(indices.attrs['keys'])" and any(isinstance(x, ast.If) and u(x.test) == "key == encoded_name" for x in m[0].body)
    ctx.check(ok, "R11c", f"{W}._write_indices", "the (start, length) pair is stored at [event counter, column whose key matches the table name]",
              "", key_detail="index store shape")
    # ... for every call, also for length 0: the preset (current counter, 0) of tables an event does not contribute to is what the reader's
    # chunk bounds rely on, so the store must not be skipped on any condition other than the key match
    st = [n for n in ast.walk(wf) if isinstance(n, ast.Assign) and u(n.targets[0]).startswith("indices[global_index_value")]
    ok = len(st) == 1
    if ok:
        g = guards(st[0], stop=m[0]) if m else []
        ok = [u(t) for t, pol in g] == ["key == encoded_name"] and all(pol for _, pol in g)
    ctx.check(ok, "R11c", f"{W}._write_indices", "the index entry is written unconditionally once the column is found (zero-length entries included)",
              str([u(t) for t, _ in guards(st[0], stop=wf)]) if st else "", key_detail="index store unconditional")


def dict_keys_of_locations(fn):
    keys = {}
    for s in ast.walk(fn):
        if isinstance(s, ast.Assign) and isinstance(s.targets[0], ast.Subscript) and u(s.targets[0].value) == "locations" \
                and isinstance(s.targets[0].slice, ast.Constant) and isinstance(s.value, ast.Constant):
            keys[s.targets[0].slice.value] = s.value.value
    return keys


def dispatch_arms(fn):
    """Keys of the `if name == self._data_locs[K] / elif ...` chain and whether the chain ends in `else: raise`."""
    arms = set()
    has_else_raise = False
    for n in ast.walk(fn):
        if not (isinstance(n, ast.If) and isinstance(n.test, ast.Compare) and u(n.test.left) == "name"
                and isinstance(n.test.ops[0], ast.Eq) and loc_key(n.test.comparators[0])):
            continue
        par = parent(n)
        if isinstance(par, ast.If) and par.orelse == [n] and isinstance(par.test, ast.Compare) and u(par.test.left) == "name" \
                and loc_key(par.test.comparators[0]):
            continue            # not the head of the chain
        cur = n
        while True:
            if isinstance(cur.test, ast.Compare) and u(cur.test.left) == "name" and isinstance(cur.test.ops[0], ast.Eq):
                k = loc_key(cur.test.comparators[0])
                if k:
                    arms.add(k)
            if len(cur.orelse) == 1 and isinstance(cur.orelse[0], ast.If):
                cur = cur.orelse[0]
                continue
            if cur.orelse and any(isinstance(x, ast.Raise) for x in cur.orelse):
                has_else_raise = True
            break
    return arms, has_else_raise


def r11d(ctx):
    repo = ctx.repo
    ctx.rule("R11d", "the dataset-location table is exhaustive: every *_meta key has an arm in _create_metadataset and _write_metadata, "
             "every other data key an arm in _create_dataset; every constant key used by reader/writer is a key of the table", expected=10, kind="S")
    locs = dict_keys_of_locations(repo.member("pyrex.io.HDF5Base", "_dataset_locations"))
    if len(locs) < 8:
        raise AnalysisError("HDF5Base._dataset_locations: location table not recognised")
    ctx.analysed["location_keys"] = sorted(locs)
    vals = list(locs.values())
    ctx.check(len(set(vals)) == len(vals), "R11d", "pyrex.io.HDF5Base._dataset_locations", "no two keys share a file location", str(locs), key_detail="distinct locations")
    cd, e1 = dispatch_arms(repo.member(W, "_create_dataset"))
    cm, e2 = dispatch_arms(repo.member(W, "_create_metadataset"))
    wm, e3 = dispatch_arms(repo.member(W, "_write_metadata"))
    for k in sorted(locs):
        if k.endswith("_meta"):
            ctx.check(k in cm and k in wm, "R11d", f"{W}[{k}]", "metadata table has a creation arm and a write arm",
                      f"create={k in cm} write={k in wm}", key_detail="metadata arms")
        else:
            ctx.check(k in cd, "R11d", f"{W}[{k}]", "dataset has a creation arm", f"arms={sorted(cd)}", key_detail="dataset arm")
    ctx.check(e1 and e2 and e3, "R11d", W, "unknown table names are rejected (else: raise) in all three dispatchers", f"{e1},{e2},{e3}", key_detail="else raise")
    for arms, nm in ((cd, "_create_dataset"), (cm, "_create_metadataset"), (wm, "_write_metadata")):
        extra = arms - set(locs)
        ctx.check(not extra, "R11d", f"{W}.{nm}", "every dispatch arm names a key of the location table", str(sorted(extra)), key_detail="unknown arm key")
    # constant subscripts
    allowed = set(locs) | {k + "_str" for k in locs} | {k + "_float" for k in locs}
    n_use = 0
    for cname in ("EventIterator", "HDF5Reader", "HDF5Writer", "HDF5Base"):
        ci = repo.cls("pyrex.io." + cname)
        for name, (kind, f) in ci.methods.items():
            for n in ast.walk(f):
                key = None
                if isinstance(n, ast.Subscript) and isinstance(n.slice, ast.Constant) and isinstance(n.slice.value, str) \
                        and u(n.value) in ("self._data_locs", "self._locations", "self._locations_original", "self._counters", "self._bool_dict"):
                    key = n.slice.value
                elif is_call(n, func="self._get_event_data") and n.args and isinstance(n.args[0], ast.Constant):
                    key = n.args[0].value
                if key is None:
                    continue
                n_use += 1
                if key not in allowed:
                    ctx.bad("R11d", f"pyrex.io.{cname}.{name}", "constant table key is a key of the location table", f"`{u(n)[:60]}`",
                            key_detail=f"unknown key {key}", loc=ctx.loc("pyrex.io", n))
    ctx.check(n_use >= 40, "R11d", "pyrex.io", "constant table keys used by reader and writer were enumerated", f"{n_use} uses checked", key_detail="key uses")
    ctx.analysed["constant_key_uses"] = n_use


def keyed_tables(fn):
    """locals bound to a dataset whose columns are addressed through attrs['keys'] in this function"""
    out = set()
    for n in ast.walk(fn):
        if isinstance(n, ast.Subscript) and u(n).endswith(".attrs['keys']") and isinstance(n.value, ast.Attribute) and isinstance(n.value.value, ast.Name):
            out.add(n.value.value.id)
    return out


def r11e(ctx):
    repo = ctx.repo
    ctx.rule("R11e", "every store into a table whose columns are named by attrs['keys'] happens inside a search loop `for K, match in enumerate(<table>.attrs['keys'])` "
             "and uses K on the key axis", expected=3, kind="N")
    w = repo.cls(W)
    for name, (kind, fn) in w.methods.items():
        if name in ("_write_metadata", "_write_indices"):
            continue            # their own protocol is R11h / R11c
        tabs = keyed_tables(fn)
        for n in ast.walk(fn):
            if not (isinstance(n, ast.Assign) and isinstance(n.targets[0], ast.Subscript) and isinstance(n.targets[0].value, ast.Name) and n.targets[0].value.id in tabs):
                continue
            tgt = n.targets[0]
            ds = tgt.value.id
            sl = tgt.slice
            if not isinstance(sl, ast.Tuple):
                continue            # whole-row stores do not address a key column
            key_axis = sl.elts[-1]
            loop = parent(n)
            idx = None
            while loop is not None and loop is not fn:
                if (isinstance(loop, ast.For) and is_call(loop.iter, func="enumerate") and loop.iter.args and u(loop.iter.args[0]) == f"{ds}.attrs['keys']"
                        and isinstance(loop.target, ast.Tuple)):
                    idx = loop.target.elts[0].id
                    break
                loop = parent(loop)
            if idx is None:
                ctx.bad("R11e", f"{W}.{name}", f"store into the keyed table `{ds}` is made inside a search over {ds}.attrs['keys']", f"`{u(tgt)}` addresses a column without looking its key up",
                        key_detail=f"column of {u(tgt)} not looked up", loc=ctx.loc("pyrex.io", n))
                continue
            ctx.check(u(key_axis) == idx, "R11e", f"{W}.{name}", f"store into {ds} inside the key search uses the matched column `{idx}`", f"`{u(tgt)}`",
                      key_detail=f"column index of {u(tgt).split('=')[0]}", loc=ctx.loc("pyrex.io", n))


def r11g(ctx):
    repo = ctx.repo
    ctx.rule("R11g", "HDF5Reader._get_table_slice returns slice(start, start+length) from columns 0/1 of the same index entry", expected=1, kind="N")
    fn = repo.member("pyrex.io.HDF5Reader", "_get_table_slice")
    env = local_env(fn)
    rets = [n for n in ast.walk(fn) if isinstance(n, ast.Return)]
    ok = False
    detail = ""
    if len(rets) == 1 and is_call(rets[0].value, func="slice") and len(rets[0].value.args) == 2:
        a, b = rets[0].value.args
        sa, sb = env.get(a.id) if isinstance(a, ast.Name) else a, None
        if isinstance(a, ast.Name) and isinstance(b, ast.BinOp) and isinstance(b.op, ast.Add):
            ln = b.right if u(b.left) == a.id else (b.left if u(b.right) == a.id else None)
            if ln is not None and isinstance(ln, ast.Name):
                s_e, l_e = env.get(a.id), env.get(ln.id)
                if isinstance(s_e, ast.Subscript) and isinstance(l_e, ast.Subscript) and isinstance(s_e.slice, ast.Tuple) and isinstance(l_e.slice, ast.Tuple):
                    se, le = s_e.slice.elts, l_e.slice.elts
                    ok = (u(s_e.value) == u(l_e.value) and len(se) == 3 and len(le) == 3 and u(se[0]) == u(le[0]) == "event_index"
                          and u(se[1]) == u(le[1]) and u(se[2]) == "0" and u(le[2]) == "1" and "indices" in u(s_e.value))
                    detail = f"start={u(s_e)[-60:]} length={u(l_e)[-60:]}"
    ctx.check(ok, "R11g", "pyrex.io.HDF5Reader._get_table_slice", "slice(start, start+length) with start/length = columns 0/1 of [event_index, table column]",
              detail, key_detail="table slice")


def r11h(ctx):
    """key -> column protocol of the metadata tables: the writer stores a value in the column whose position in attrs['keys'] is that key
    (appending the key and growing the key axis when new); the reader maps keys to positions from the same attribute and indexes the last axis."""
    from ..core.astutil import canon
    repo = ctx.repo
    ctx.rule("R11h", "metadata key->column protocol: writer column = position of the key in attrs['keys'] (appended if new, key axis resized), key axis is the last axis; "
             "reader builds {key: position} from the same attribute and indexes the last axis with it", expected=10, kind="S")
    wm = repo.member(W, "_write_metadata")
    c = f"{W}._write_metadata"
    arms = [n for n in ast.walk(wm) if isinstance(n, ast.If) and u(n.test) in ("val_type == 'string'", "val_type == 'float'") and any(isinstance(x, ast.For) for x in n.body)]
    bodies = {}
    for n in arms:
        ds = "str_data" if "string" in u(n.test) else "float_data"
        bodies[ds] = canon(n.body)
    ok = set(bodies) == {"str_data", "float_data"} and [t.replace("str_data", "D") for t in bodies["str_data"]] == [t.replace("float_data", "D") for t in bodies["float_data"]]
    ctx.check(ok, "R11h", c, "string and float values go through the same key search / append / store sequence on their own table (sibling arms)", "", key_detail="type arms clone",
              loc=ctx.loc("pyrex.io", wm))
    for n in arms:
        ds = "str_data" if "string" in u(n.test) else "float_data"
        loops = [x for x in n.body if isinstance(x, ast.For)]
        ok = len(loops) == 1 and u(loops[0].iter) == f"enumerate({ds}.attrs['keys'])"
        if ok:
            lp = loops[0]
            j = lp.target.elts[0].id
            m = lp.target.elts[1].id
            t = [x for x in lp.body if isinstance(x, ast.If)]
            ok = len(t) == 1 and u(t[0].test) in (f"self._decode_attr({m}) == key", f"key == self._decode_attr({m})") and isinstance(t[0].body[-1], ast.Break)
            els = [u(x) for x in lp.orelse]
            ok = ok and els == [f"{j} = len({ds}.attrs['keys'])", f"{ds}.attrs['keys'] = list({ds}.attrs['keys']) + [self._encode_attr(key)]", f"{ds}.resize({j} + 1, axis=data_axis)"]
            wv = [x for x in n.body if isinstance(x, ast.Expr) and is_call(x.value, func="write_value")]
            ok = ok and len(wv) == 1 and [u(a) for a in wv[0].value.args] == ["val", ds, j, "i", "index"]
        ctx.check(ok, "R11h", c, f"[{ds}] the column is the position of the key in attrs['keys']; a new key is appended, the key axis grows by one, and the value is stored at that column",
                  "", key_detail=f"{ds} key search")
    # write_value arms: key index last, data_axis = position of the key axis
    chain = [n for n in strip_doc_(wm) if isinstance(n, ast.If) and isinstance(n.test, ast.Compare) and u(n.test.left) == "name" and loc_key(n.test.comparators[0])]
    want = {"file_meta": (0, "dataset[indices[0]]"), "particles_meta": (1, "dataset[indices[1] + indices[2], indices[0]]"), "antennas_meta": (1, "dataset[indices[1], indices[0]]"),
            "rays_meta": (2, "dataset[indices[2], indices[1], indices[0]]")}
    got = {}
    cur = chain[0] if chain else None
    while cur is not None and isinstance(cur, ast.If):
        k = loc_key(cur.test.comparators[0]) if isinstance(cur.test, ast.Compare) and u(cur.test.left) == "name" else None
        if k:
            ax = [x for x in cur.body if isinstance(x, ast.Assign) and u(x.targets[0]) == "data_axis"]
            fd = [x for x in cur.body if isinstance(x, ast.FunctionDef) and x.name == "write_value"]
            st = [u(x.targets[0]) for x in ast.walk(fd[0]) if isinstance(x, ast.Assign)] if fd else []
            got[k] = (int(u(ax[0].value)) if ax and u(ax[0].value).isdigit() else None, st[0] if len(st) == 1 else None)
        cur = cur.orelse[0] if len(cur.orelse) == 1 and isinstance(cur.orelse[0], ast.If) else None
    ctx.check(got == want, "R11h", c, "per table: the key is the last index of the store and data_axis is the position of that axis (particles: [start + i, key]; rays: [row, antenna, key])",
              str(got), key_detail="store layout")
    gk = repo.member("pyrex.io.HDF5Base", "_get_keys_dict")
    r = [x for x in returns(gk) if isinstance(x.value, ast.DictComp)]
    ok = len(r) == 1 and canon([ast.Expr(value=r[0].value)]) == canon_src_("{self._decode_attr(key): i for i, key in enumerate(file[group].attrs['keys'])}")
    ctx.check(ok, "R11h", "pyrex.io.HDF5Base._get_keys_dict", "the reader's key table is {decoded key: position in attrs['keys']}", u(r[0].value) if r else "", key_detail="keys dict")
    rm = repo.member("pyrex.io.HDF5Base", "_read_metadata_to_dicts")
    inner = [x for x in ast.walk(rm) if isinstance(x, ast.FunctionDef) and x is not rm]
    ok = len(inner) == 1
    if ok:
        loops = [x for x in ast.walk(inner[0]) if isinstance(x, ast.For)]
        pairs = sorted((u(x.iter), u(x.body[0])) for x in loops)
        ok = pairs == sorted([("enumerate(str_keys)", "meta_dict[key] = self._decode_string_data(str_data[j])"), ("enumerate(float_keys)", "meta_dict[key] = float_data[j]")])
        ok = ok and "key_dim = -1" in [u(x) for x in strip_doc_(rm)]
    ctx.check(ok, "R11h", "pyrex.io.HDF5Base._read_metadata_to_dicts", "dictionaries are built by pairing the j-th key with the j-th entry of the last (key) axis", "", key_detail="dict construction")
    for m, table, nd in (("get_particle_info", "particles_meta", 2), ("get_rays_info", "rays_meta", 3)):
        fn = repo.member(IT_, m)
        kl = [c_ for c_ in ast.walk(fn) if is_call(c_, name="_read_metadata_to_dicts", recv="self")]
        ok = len(kl) == 1
        if ok:
            kw = {k: u(v) for k, v in kwargs_of(kl[0]).items()}
            ok = kw.get("name") == f"'{table}'" and kw.get("index") == "self._iter_counter" and kw.get("data") == "self._data" \
                and kw.get("str_keys") == f"[item[0] for item in sorted(self._keys['{table}_str'].items(), key=lambda x: x[1])]" \
                and kw.get("float_keys") == f"[item[0] for item in sorted(self._keys['{table}_float'].items(), key=lambda x: x[1])]"
        ctx.check(ok, "R11h", f"{IT_}.{m}", "whole-event read passes the key lists ordered by their stored positions, for this event's chunk entry", "", key_detail="ordered key lists")
        subs = [x for x in ast.walk(fn) if isinstance(x, ast.Subscript) and u(x.value) in ("float_data", "str_data") and isinstance(x.slice, ast.Tuple)]
        ok = bool(subs) and all(len(x.slice.elts) == nd and all(u(e) == ":" for e in x.slice.elts[:-1]) and u(x.slice.elts[-1]).startswith(("index", "value")) for x in subs)
        idx = [x for x in ast.walk(fn) if isinstance(x, ast.Assign) and u(x.targets[0]) == "index"]
        ok = ok and all(u(x.value).startswith(f"self._keys['{table}_") for x in idx) and idx
        ctx.check(ok, "R11h", f"{IT_}.{m}", f"single attributes are read from the last of {nd} axes at the position stored for that key", str([u(x)[:40] for x in subs][:4]), key_detail="attribute column")
    tc = repo.member(IT_, "get_triggered_components")
    r = returns(tc)
    ok = any(isinstance(x.value, ast.ListComp) and u(x.value) == "[key for key, val in self._keys['mc_triggers'].items() if triggers[val]]" for x in r)
    ctx.check(ok, "R11h", f"{IT_}.get_triggered_components", "a component is reported iff the flag in its own key column is set", "", key_detail="trigger columns")
    # what the writer stores for rays: one metadata dict per antenna per wave, written at row start_index + i
    wr = repo.member(W, "_write_ray_data")
    cm = [c_ for c_ in ast.walk(wr) if is_call(c_, func="self._write_metadata")]
    ok = len(cm) == 1 and [u(a) for a in cm[0].args] == ["self._data_locs['rays_meta']", "ray_metadata", "start_index + i"]
    lp = parent(parent(cm[0])) if cm else None
    ok = ok and isinstance(lp, ast.For) and u(lp.iter) == "range(max_waves)"
    inner = [x for x in ast.walk(wr) if isinstance(x, ast.For) and u(x.iter) == "zip(ray_paths, polarizations)"]
    ok = ok and len(inner) == 1 and "if i < len(paths):" in u(inner[0]) and "ray_metadata.append({})" in u(inner[0])
    ctx.check(ok, "R11h", f"{W}._write_ray_data", "wave i of the event is written as one row (start + i) holding one dictionary per antenna, empty where the antenna has fewer rays", "",
              key_detail="ray rows")


IT_ = "pyrex.io.EventIterator"


def strip_doc_(fn):
    from ..core.astutil import strip_doc
    return strip_doc(fn)


def canon_src_(src):
    from ..core.astutil import canon_src
    return canon_src(src)


def returns(fn):
    from ..core.astutil import returns as r_
    return r_(fn)


def r11i(ctx):
    """the reading half of 'event i gets its own rows' (= R12a of C12)"""
    from . import c12
    ctx.rule("R11i", "the reader cuts each event's rows with that event's own start entry (= R12a)", expected=1, kind="N")
    sub = type(ctx)(ctx.repo, ctx.prop, ctx.tier)
    c12.r12a(sub)
    for o in sub.obs:
        o.rule = "R11i"
        ctx.obs.append(o)


def r11j(ctx):
    repo = ctx.repo
    ctx.rule("R11j", "the writer's per-antenna loops treat every antenna alike: no `continue` / `break` that leaves an antenna's rows allocated and indexed but unwritten", expected=3, kind="N")
    for m in ("_write_waveforms", "_write_noise_data", "_write_ray_data", "_write_trigger"):
        fn = repo.member(W, m)
        loops = [n for n in ast.walk(fn) if isinstance(n, ast.For) and "self._detector" in u(n.iter)]
        for lp in loops:
            skips = [n for b in lp.body for n in ast.walk(b) if isinstance(n, (ast.Continue, ast.Break))]
            # a skip inside an inner loop over something else (keys of a table) belongs to that loop
            inner = {id(x) for b in lp.body for l2 in ast.walk(b) if isinstance(l2, (ast.For, ast.While)) for b2 in l2.body for x in ast.walk(b2)}
            skips = [x for x in skips if id(x) not in inner]
            ctx.check(not skips, "R11j", f"{W}.{m}", "every antenna of the detector is written in the per-antenna loop", "; ".join(f"line {x.lineno}: {type(x).__name__.lower()}" for x in skips),
                      key_detail="antenna skipped", loc=ctx.loc("pyrex.io", lp))


def run(ctx):
    ctx.guard(r11j)
    ctx.guard(r11i)
    ctx.guard(r11h)
    ctx.guard(r11a)
    ctx.guard(r11b)
    ctx.guard(r11c)
    ctx.guard(r11d)
    ctx.guard(r11e)
    ctx.guard(r11g)


SELFTEST = {
    "faults": [
        {"name": "waveforms of antennas without a hit are not written", "file": "pyrex/io.py", "old": "            for j, wave in enumerate(ant.all_waveforms):\n                data[start_index+j, i] = np.array([wave.times, wave.values])",
         "new": "            if not ant.is_hit:\n                continue\n            for j, wave in enumerate(ant.all_waveforms):\n                data[start_index+j, i] = np.array([wave.times, wave.values])", "rule": "R11j"},
        {"name": "preset skipped when the row already exists", "file": "pyrex/io.py", "old": "        for key, count in self._counters.items():\n            if key==\"indices\":",
         "new": "        if self._file[self._data_locs['indices']].shape[0]>self._counters['indices']:\n            return\n        for key, count in self._counters.items():\n            if key==\"indices\":", "rule": "R11c"},
        {"name": "antenna flags written straight into column i (no key search)", "file": "pyrex/io.py",
         "old": "                    for k, match in enumerate(extra_data.attrs['keys']):\n                        if \"antenna_\"+str(i)==self._decode_attr(match):\n                            for j, wave in enumerate(ant.all_waveforms):\n                                extra_data[start_index+j, k] = ant.trigger(wave)",
         "new": "                    for j, wave in enumerate(ant.all_waveforms):\n                        extra_data[start_index+j, i] = ant.trigger(wave)", "rule": "R11e"},
        {"name": "zero-length index entries skipped", "file": "pyrex/io.py", "old": "                indices[global_index_value, i] = (start_index, length)\n",
         "new": "                if length>0:\n                    indices[global_index_value, i] = (start_index, length)\n", "rule": "R11c"},
        {"name": "float key stored at the string table's column", "file": "pyrex/io.py", "old": "                    write_value(val, float_data, j, i, index)", "new": "                    write_value(val, float_data, i, j, index)",
         "rule": "R11h"},
        {"name": "particle rows ignore the start index", "file": "pyrex/io.py", "old": "                dataset[indices[1]+indices[2], indices[0]] = value", "new": "                dataset[indices[1], indices[0]] = value",
         "rule": "R11h"},
        {"name": "reader key table off by one", "file": "pyrex/io.py", "old": "            return {self._decode_attr(key): i\n", "new": "            return {self._decode_attr(key): i+1\n", "rule": "R11h"},
        {"name": "start_index read after the increment", "file": "pyrex/io.py",
         "old": "        start_index = self._counters['waveforms']\n        self._counters['waveforms'] += max_waves\n",
         "new": "        self._counters['waveforms'] += max_waves\n        start_index = self._counters['waveforms']\n", "rule": "R11a", "construct": "_write_waveforms"},
        {"name": "length off by one", "file": "pyrex/io.py",
         "old": "        self._write_indices(self._data_locs['waveforms'],\n                            start_index, max_waves)",
         "new": "        self._write_indices(self._data_locs['waveforms'],\n                            start_index, max_waves+1)", "rule": "R11a", "construct": "_write_waveforms"},
        {"name": "wrong key in a gate", "file": "pyrex/io.py",
         "old": "        if (self._write_data['noise'] and\n                (not self._trig_only['noise']", "new": "        if (self._write_data['noise'] and\n                (not self._trig_only['rays']",
         "rule": "R11b"},
        {"name": "event counter moved before the writers", "file": "pyrex/io.py",
         "old": "        self._preset_all_indices()\n", "new": "        self._preset_all_indices()\n        self._counters['indices'] += 1\n", "rule": "R11c"},
        {"name": "noise row not at counter-1", "file": "pyrex/io.py", "old": "            data[self._counters['noise']-1, i] = self._get_noise_bases(ant)",
         "new": "            data[self._counters['noise'], i] = self._get_noise_bases(ant)", "rule": "R11a", "construct": "_write_noise_data"},
        {"name": "one sub-table not resized", "file": "pyrex/io.py",
         "old": "        str_data.resize(self._counters['rays_meta'], axis=0)\n", "new": "", "rule": "R11a", "construct": "rays_meta"},
        {"name": "reader key typo", "file": "pyrex/io.py", "old": "self._get_event_data(\"particles_meta\")", "new": "self._get_event_data(\"particle_meta\")",
         "occurrence": 1, "rule": "R11d"},
        {"name": "extra trigger stored in the wrong column", "file": "pyrex/io.py", "old": "extra_data[start_index+j, k] = val[j]",
         "new": "extra_data[start_index+j, i] = val[j]", "rule": "R11e"},
        {"name": "table slice from the wrong column", "file": "pyrex/io.py",
         "old": "                                                        self._event_indices_key[group],\n                                                        1]",
         "new": "                                                        self._event_indices_key[group],\n                                                        0]", "rule": "R11g"},
    ],
    "benign": [
        {"name": "counter-1 written as a local", "file": "pyrex/io.py",
         "old": "        self._write_indices(self._data_locs['noise'], self._counters['noise']-1)",
         "new": "        self._write_indices(self._data_locs['noise'], -1+self._counters['noise'])"},
        {"name": "rename start_index", "file": "pyrex/io.py",
         "edits": [
             {"file": "pyrex/io.py", "old": "        start_index = self._counters['waveforms']\n        self._counters['waveforms'] += max_waves\n",
              "new": "        first = self._counters['waveforms']\n        self._counters['waveforms'] += max_waves\n"},
             {"file": "pyrex/io.py", "old": "                data[start_index+j, i] = np.array([wave.times, wave.values])",
              "new": "                data[j+first, i] = np.array([wave.times, wave.values])"},
             {"file": "pyrex/io.py", "old": "        self._write_indices(self._data_locs['waveforms'],\n                            start_index, max_waves)",
              "new": "        self._write_indices(self._data_locs['waveforms'],\n                            first, max_waves)"}]},

    ],
}
