"""C12 -- every way of reading or continuing a file yields the same event stream (structural clauses)."""
import ast

from ..core.source import AnalysisError, parent
from ..core.astutil import stmts_in_order, calls, is_call, kwargs_of, guards, u, parse_expr, names_in
from ..core.exprnf import NF, local_env
from ..core import paths

META = {
    "explanation": "R12a def-use in EventIterator._load_data: the rows handed to each event must be data-dependent on that event's own "
                   "start column of the index table (the writer does not guarantee contiguity: step>1 slices, orphan rows after a rejected "
                   "add); R12b typestate raw->normalised for slice bounds in HDF5Reader.__getitem__ (a count built by subtracting raw, "
                   "possibly negative, bounds must not reach min/range/slice_range); R12c one normal form for the event number at all its "
                   "uses and the reload arithmetic of __next__; R12d append-mode counter recovery covers the same key set as a fresh file "
                   "and reads every counter from its dataset's first axis; R12e keys read by FileGenerator are keys the writer's metadata "
                   "tables produce and every replayed quantity is read and assigned; R12f parallel-list discipline of the replay buffers.",
    "not_decided": ["data equality itself (h5py semantics)", "files produced by other software"],
    "trusted_base": ["CPython ast", "slice.indices / range normalisation semantics of Python"],
    "assumptions": [],
}

IT = "pyrex.io.EventIterator"
RD = "pyrex.io.HDF5Reader"
WR = "pyrex.io.HDF5Writer"


# ------------------------------------------------------------------------------------------------ R12a
def r12a(ctx):
    repo = ctx.repo
    ctx.rule("R12a", "each per-event chunk appended to self._data[key] is sliced with bounds that depend on that event's own start "
             "entry (column 0) of the index table", expected=1, kind="N")
    fn = repo.member(IT, "_load_data")
    construct = IT + "._load_data"
    # name of the local holding the (n_events, 2) index rows of this table
    idx_names = set()
    for n in ast.walk(fn):
        if isinstance(n, ast.Assign) and len(n.targets) == 1 and isinstance(n.targets[0], ast.Name) and isinstance(n.value, ast.Subscript) \
                and "indices" in u(n.value.value):
            idx_names.add(n.targets[0].id)
    if not idx_names:
        ctx.unknown("R12a", construct, "index rows of the chunk are loaded into a local", "pattern not recognised")
        return
    found = 0
    for loop in ast.walk(fn):
        if not isinstance(loop, ast.For):
            continue
        appends = [c for c in ast.walk(loop) if is_call(c, name="append") and u(c.func.value).startswith("self._data[")]

        def nearest_loop(n):
            q = parent(n)
            while q is not None and not isinstance(q, (ast.For, ast.While)):
                q = parent(q)
            return q
        appends = [c for c in appends if nearest_loop(c) is loop]
        if not appends:
            continue

        def cols_of(expr, deps):
            cols = set()
            for n in ast.walk(expr):
                if isinstance(n, ast.Subscript):
                    base = n.value
                    root = base
                    while isinstance(root, ast.Subscript):
                        root = root.value
                    if isinstance(root, ast.Name) and root.id in idx_names:
                        sl = n.slice
                        last = sl.elts[-1] if isinstance(sl, ast.Tuple) else sl
                        if isinstance(last, ast.Constant) and isinstance(last.value, int) and (isinstance(sl, ast.Tuple) or base is not root):
                            cols.add(last.value)
                        elif base is root and not isinstance(sl, ast.Tuple):
                            cols |= {0, 1}          # a whole row
                if isinstance(n, ast.Name) and n.id in deps:
                    cols |= deps[n.id]
                if isinstance(n, ast.Name) and n.id in idx_names and not isinstance(parent(n), ast.Subscript):
                    cols |= {0, 1}
            return cols
        deps = {}
        itx = loop.iter
        if isinstance(itx, ast.Name) and itx.id in idx_names and isinstance(loop.target, (ast.Tuple, ast.List)):
            for i, t in enumerate(loop.target.elts):
                if isinstance(t, ast.Name):
                    deps[t.id] = {i}
        elif is_call(itx, func="zip"):
            for a, t in zip(itx.args, loop.target.elts if isinstance(loop.target, (ast.Tuple, ast.List)) else []):
                if isinstance(t, ast.Name):
                    deps[t.id] = cols_of(a, {})
        else:
            c0 = cols_of(itx, {})
            for t in ast.walk(loop.target):
                if isinstance(t, ast.Name):
                    deps[t.id] = set(c0)
        # flow-sensitive walk of the loop body: plain assignments at the top level of the body are strong updates,
        # nested ones are weak; a second pass feeds loop-carried values back (union with the first pass)
        seen_at = {}

        def walk(body, top):
            for st in body:
                if isinstance(st, ast.Assign) and len(st.targets) == 1 and isinstance(st.targets[0], ast.Name):
                    c = cols_of(st.value, deps)
                    deps[st.targets[0].id] = c if top else (deps.get(st.targets[0].id, set()) | c)
                elif isinstance(st, ast.AugAssign) and isinstance(st.target, ast.Name):
                    deps[st.target.id] = deps.get(st.target.id, set()) | cols_of(st.value, deps)
                elif isinstance(st, (ast.If, ast.For, ast.While, ast.Try, ast.With)):
                    for f in ("body", "orelse", "finalbody"):
                        walk(getattr(st, f, []) or [], False)
                    for h in getattr(st, "handlers", []):
                        walk(h.body, False)
                for c in appends:
                    if any(c is x for x in ast.walk(st)) and not isinstance(st, (ast.If, ast.For, ast.While, ast.Try, ast.With)):
                        arg = c.args[0]
                        lower = arg.slice.lower if isinstance(arg, ast.Subscript) and isinstance(arg.slice, ast.Slice) else None
                        cols = cols_of(lower if lower is not None else arg, deps)
                        seen_at[id(c)] = cols
        target_deps = dict(deps)
        first_pass = None
        for pss in range(2):
            walk(loop.body, True)
            if pss == 0:
                first_pass = {k: set(v) for k, v in seen_at.items()}
                # loop-carried: names not rebound by the loop header keep their end-of-body dependencies
                for k, v in target_deps.items():
                    deps[k] = set(v)
        for c in appends:
            found += 1
            arg = c.args[0]
            a, b = first_pass.get(id(c), set()), seen_at.get(id(c), set())
            cols_all = [first_pass.get(id(c), set()), seen_at.get(id(c), set())]
            every = all(0 in x for x in cols_all)
            if isinstance(arg, ast.Subscript) and isinstance(arg.slice, ast.Slice) and arg.slice.lower is not None:
                ctx.check(every, "R12a", construct, "lower bound of each event's row slice depends on that event's start entry (index column 0)",
                          f"`{u(c)[:80]}`: lower bound `{u(arg.slice.lower)}` depends on index columns {sorted(a)} (first event) / {sorted(b)} (later events)",
                          key_detail="per-event start not used", loc=ctx.loc("pyrex.io", c))
            elif every:
                ctx.ok("R12a", construct, "each event's rows are selected through that event's start entry", u(c)[:80])
            else:
                ctx.unknown("R12a", construct, "each event's rows are selected through that event's start entry",
                            f"unrecognised selection `{u(arg)[:60]}`")
    if not found:
        # no per-event loop: the chunk is cut in one expression.  Cutting at accumulated lengths (np.split / cumsum of the length column) assumes
        # that the rows of consecutive loaded events are adjacent -- the defect repaired in 0f02627
        whole = [n for n in ast.walk(fn) if isinstance(n, ast.Assign) and u(n.targets[0]).startswith("self._data[") and not (isinstance(n.value, ast.List) and not n.value.elts)]
        for n in whole:
            env = {}
            for st in ast.walk(fn):
                if isinstance(st, ast.Assign) and isinstance(st.targets[0], ast.Name):
                    env[st.targets[0].id] = st.value
            txt = u(n.value)
            seen, work = set(), [x.id for x in ast.walk(n.value) if isinstance(x, ast.Name)]
            while work:
                nm = work.pop()
                if nm in seen or nm not in env:
                    continue
                seen.add(nm)
                txt += " ; " + u(env[nm])
                work += [x.id for x in ast.walk(env[nm]) if isinstance(x, ast.Name)]
            uses_cumlen = ("cumsum" in txt or "np.split" in txt) and any(f"{i}[:, 1]" in txt for i in idx_names)
            per_event_start = any(isinstance(x, (ast.ListComp, ast.GeneratorExp)) and any(nm in u(x) for nm in idx_names) and "0]" in u(x) for x in ast.walk(n.value))
            found += 1
            if uses_cumlen and not per_event_start:
                ctx.bad("R12a", construct, "each event's rows are selected through that event's start entry (index column 0)",
                        f"`{u(n)[:90]}` cuts the loaded block at accumulated lengths: rows of loaded events are assumed adjacent", key_detail="per-event start not used",
                        loc=ctx.loc("pyrex.io", n))
            elif per_event_start:
                ctx.ok("R12a", construct, "each event's rows are selected through that event's start entry", u(n)[:80])
            else:
                ctx.unknown("R12a", construct, "each event's rows are selected through that event's start entry", f"unrecognised selection `{u(n.value)[:60]}`")
    if not found:
        ctx.unknown("R12a", construct, "per-event split of the loaded chunk found", "no append / assignment to self._data[...]")


# ------------------------------------------------------------------------------------------------ R12b
RAW, NORM, DIFF, OTHER = "raw", "norm", "rawdiff", "other"


def r12b(ctx):
    repo = ctx.repo
    ctx.rule("R12b", "a count derived by subtracting un-normalised (possibly negative / None) slice bounds never reaches "
             "min/max/range/slice_range", expected=2, kind="N")
    fn = repo.member(RD, "__getitem__")
    construct = RD + ".__getitem__"
    key = fn.args.args[1].arg
    env = {}

    def ev(n):
        if isinstance(n, ast.Constant):
            return NORM if isinstance(n.value, int) and not isinstance(n.value, bool) and n.value >= 0 else OTHER
        if isinstance(n, ast.Name):
            if n.id == key:
                return RAW
            return env.get(n.id, OTHER)
        if isinstance(n, ast.Attribute):
            if isinstance(n.value, ast.Name) and n.value.id == key and n.attr in ("start", "stop"):
                return RAW
            if u(n) in ("self._num_events", "self._slice_range"):
                return NORM
            return OTHER
        if isinstance(n, ast.IfExp):
            a, b = ev(n.body), ev(n.orelse)
            return join(a, b)
        if isinstance(n, ast.BinOp):
            l, r = ev(n.left), ev(n.right)
            if isinstance(n.op, ast.Sub):
                if RAW in (l, r) or DIFF in (l, r):
                    return DIFF
                return NORM if l == r == NORM else OTHER
            if isinstance(n.op, ast.Add):
                if DIFF in (l, r):
                    return DIFF
                if RAW in (l, r):
                    return RAW
                return NORM if l == r == NORM else OTHER
            return DIFF if DIFF in (l, r) else OTHER
        if isinstance(n, ast.Subscript):
            v = ev(n.value)
            return v if v in (NORM,) else OTHER
        if isinstance(n, ast.Call):
            f = u(n.func)
            if f.endswith(".indices") and isinstance(n.func, ast.Attribute) and isinstance(n.func.value, ast.Name) and n.func.value.id == key:
                return NORM
            if f in ("range",) and n.args:
                return NORM
            if f == "len":
                return NORM
            if f in ("min", "max"):
                vals = [ev(a) for a in n.args]
                return DIFF if DIFF in vals else (NORM if all(v == NORM for v in vals) else OTHER)
            return OTHER
        if isinstance(n, ast.Tuple):
            return NORM if all(ev(e) == NORM for e in n.elts) else OTHER
        return OTHER

    def join(a, b):
        if a == b:
            return a
        if DIFF in (a, b):
            return DIFF
        if RAW in (a, b):
            return RAW
        return OTHER
    sinks = 0
    bad = []
    for st in stmts_in_order(fn):
        if isinstance(st, ast.Assign) and len(st.targets) == 1:
            t = st.targets[0]
            v = ev(st.value)
            if isinstance(t, ast.Name):
                env[t.id] = v
            elif isinstance(t, (ast.Tuple, ast.List)):
                for e in t.elts:
                    if isinstance(e, ast.Name):
                        env[e.id] = v
        elif isinstance(st, ast.AugAssign) and isinstance(st.target, ast.Name):
            # `x += n` under `if x < 0` normalises a raw bound
            g = guards(st, stop=fn)
            if g and isinstance(g[0][0], ast.Compare) and u(g[0][0].left) == st.target.id and isinstance(g[0][0].ops[0], ast.Lt) and g[0][1]:
                env[st.target.id] = NORM
        for c in ast.walk(st) if not isinstance(st, (ast.If, ast.For, ast.While, ast.Try, ast.With)) else []:
            if isinstance(c, ast.Call):
                f = u(c.func)
                args = list(c.args) + [k.value for k in c.keywords if k.arg in ("slice_range",)]
                if f in ("min", "max", "range") or any(k.arg == "slice_range" for k in c.keywords):
                    sinks += 1
                    for a in args:
                        if ev(a) == DIFF:
                            bad.append((c, a))
    for c, a in bad:
        ctx.bad("R12b", construct, "count passed to min/max/range/slice_range is computed from normalised bounds",
                f"`{u(a)}` in `{u(c)[:70]}` subtracts slice bounds that may be negative or were only defaulted for None",
                key_detail="raw bound difference reaches a count", loc=ctx.loc("pyrex.io", c))
    if not bad:
        ctx.ok("R12b", construct, "count passed to min/max/range/slice_range is computed from normalised bounds", f"{sinks} count sink(s) examined")
    # the integer branch: stop is start+1, with the -1 wrap handled (key+1 stays raw and is normalised by the iterator)
    ints = [n for n in ast.walk(fn) if isinstance(n, ast.If) and u(n.test) == f"isinstance({key}, int)"]
    ok = False
    if ints:
        b = ints[0]
        it = calls(b, func="EventIterator")
        if it:
            kw = {k: u(v) for k, v in kwargs_of(it[0]).items()}
            stop_def = [s for s in b.body if isinstance(s, ast.Assign) and u(s.targets[0]) == kw.get("stop_event")]
            ok = (kw.get("start_event") == key and kw.get("slice_range") == "1" and kw.get("step") == "1" and stop_def
                  and u(stop_def[0].value).replace(" ", "") in (f"self._num_eventsif{key}==-1else{key}+1",))
            ok = ok and any(isinstance(r, ast.Return) and u(r.value) == "next(it)" for r in b.body)
    ctx.check(ok, "R12b", construct, "integer index k reads exactly event k: iterator over [k, k+1) (k = -1 handled), first element returned",
              "", key_detail="integer branch")
    # EventIterator.__init__ normalises both bounds the same way before use
    init = repo.member(IT, "__init__")
    txt = u(init)
    ok = ("if start_event < 0:\n    start_event += self._max_events" in txt.replace("        ", "") or
          "if start_event < 0:" in txt) and "start_event += self._max_events" in txt and "stop_event += self._max_events" in txt
    order = stmts_in_order(init)
    pos = {id(s): i for i, s in enumerate(order)}
    norm_pos = max((pos[id(s)] for s in order if isinstance(s, ast.AugAssign) and u(s.target) in ("start_event", "stop_event")), default=None)
    use_pos = min((pos[id(s)] for s in order if isinstance(s, ast.Assign) and u(s.targets[0]) in ("self._slice_start_event", "self._iter_stop_event")), default=None)
    ctx.check(ok and norm_pos is not None and use_pos is not None and norm_pos < use_pos, "R12b", IT + ".__init__",
              "negative start/stop are shifted by the number of events before they are stored", "", key_detail="iterator normalisation")


# ------------------------------------------------------------------------------------------------ R12c
def r12c(ctx):
    repo = ctx.repo
    ctx.rule("R12c", "event number = _iter_counter*_slice_step + _slice_start_event at every use; __next__ stops before reloading; the reload "
             "resets the counter and loads slice(start, min(start+range, max), step)", expected=8, kind="N")
    want = NF().nf(parse_expr("self._iter_counter * self._slice_step + self._slice_start_event"))
    ci = repo.cls(IT)
    n_uses = 0
    for name, (kind, fn) in ci.methods.items():
        for n in ast.walk(fn):
            if isinstance(n, ast.BinOp) and not isinstance(parent(n), ast.BinOp):
                names = {x.attr for x in ast.walk(n) if isinstance(x, ast.Attribute)}
                if {"_iter_counter", "_slice_start_event"} <= names or {"_iter_counter", "_slice_step"} <= names:
                    n_uses += 1
                    ctx.check(NF().nf(n).equals(want), "R12c", f"{IT}.{name}", "event number expression has the one normal form",
                              u(n), key_detail=f"event number formula", loc=ctx.loc("pyrex.io", n))
    ctx.analysed["event_number_uses"] = n_uses
    fn = repo.member(IT, "__next__")
    c = IT + ".__next__"
    body = [s for s in fn.body if not (isinstance(s, ast.Expr) and isinstance(s.value, ast.Constant))]
    txt = [u(s) for s in body]
    ok = len(body) >= 4 and txt[0] == "self._iter_counter += 1"
    ctx.check(ok, "R12c", c, "the counter advances by one first", txt[0] if txt else "", key_detail="counter increment")
    stop_i = next((i for i, s in enumerate(body) if isinstance(s, ast.If) and any(isinstance(x, ast.Raise) and "StopIteration" in u(x) for x in s.body)), None)
    reload_i = next((i for i, s in enumerate(body) if isinstance(s, ast.If) and calls(s, name="_load_data", recv="self")), None)
    ok = stop_i is not None and reload_i is not None and stop_i < reload_i
    if ok:
        ok = u(body[stop_i].test) == "event_number >= self._iter_stop_event" and u(body[reload_i].test) == "event_number >= self._slice_end_event"
    ctx.check(ok, "R12c", c, "stop test (>= _iter_stop_event) precedes the reload test (>= _slice_end_event)", "", key_detail="stop before reload")
    if reload_i is not None:
        rb = [u(s) for s in body[reload_i].body]
        ok = ("self._iter_counter = 0" in rb and "self._slice_start_event = event_number" in rb
              and any(NF().nf(parse_expr(r.split(" = ", 1)[1])).equals(NF().nf(parse_expr("min(self._slice_start_event + self._slice_range, self._max_events)")))
                      for r in rb if r.startswith("self._slice_end_event = "))
              and rb[-1] == "self._load_data()")
        ctx.check(ok, "R12c", c, "reload: counter = 0, start = this event, end = min(start + range, max events), then load", str(rb), key_detail="reload arithmetic")
    ctx.check(isinstance(body[-1], ast.Return) and u(body[-1].value) == "self", "R12c", c, "returns the iterator positioned on the event", "", key_detail="return self")
    ld = repo.member(IT, "_load_data")
    sl = [n for n in ast.walk(ld) if is_call(n, func="slice")]
    ok = len(sl) == 1 and [u(a) for a in sl[0].args] == ["self._slice_start_event", "self._slice_end_event", "self._slice_step"]
    ctx.check(ok, "R12c", IT + "._load_data", "the chunk is slice(_slice_start_event, _slice_end_event, _slice_step) of the index table",
              u(sl[0]) if sl else "", key_detail="chunk slice")
    ge = repo.member(IT, "_get_event_data")
    subs = [u(n.slice) for n in ast.walk(ge) if isinstance(n, ast.Subscript) and u(n.value).startswith("self._data[")]
    ctx.check(subs and all(s == "self._iter_counter" for s in subs), "R12c", IT + "._get_event_data", "per-event data are read at the in-chunk counter",
              str(subs), key_detail="in-chunk index")


# ------------------------------------------------------------------------------------------------ R12d
def r12d(ctx):
    repo = ctx.repo
    ctx.rule("R12d", "append mode: counters cover the same key set as a fresh file and each is the first-axis length of its dataset "
             "(max over float/str for *_meta, 0 if absent)", expected=3, kind="N")
    fn = repo.member(WR, "open")
    c = WR + ".open"
    fresh = [n for n in ast.walk(fn) if isinstance(n, ast.DictComp) and "self._counters" in u(parent(n))]
    app_loops = [n for n in ast.walk(fn) if isinstance(n, ast.For) and u(n.iter) == "self._data_locs.items()"]
    if len(fresh) != 1 or len(app_loops) != 1:
        ctx.unknown("R12d", c, "fresh and append arms both build self._counters", f"fresh={len(fresh)} append loops={len(app_loops)}")
        return
    excl_fresh = None
    for cond in fresh[0].generators[0].ifs:
        if isinstance(cond, ast.Compare) and isinstance(cond.ops[0], ast.NotIn):
            excl_fresh = sorted(ast.literal_eval(cond.comparators[0]))
    loop = app_loops[0]
    excl_app = None
    for s in loop.body:
        if isinstance(s, ast.If) and any(isinstance(x, ast.Continue) for x in s.body) and isinstance(s.test, ast.Compare) and isinstance(s.test.ops[0], ast.In):
            excl_app = sorted(ast.literal_eval(s.test.comparators[0]))
    ctx.check(excl_fresh is not None and excl_fresh == excl_app, "R12d", c, "both arms exclude the same keys from the counters",
              f"fresh excludes {excl_fresh}, append excludes {excl_app}", key_detail="counter key sets", loc=ctx.loc("pyrex.io", loop))
    kvar, vvar = [e.id for e in loop.target.elts]
    shapes = [n for n in ast.walk(loop) if isinstance(n, ast.Attribute) and n.attr == "shape"]
    idx = [u(parent(n).slice) if isinstance(parent(n), ast.Subscript) else None for n in shapes]
    ctx.check(len(shapes) == 2 and all(i == "0" for i in idx), "R12d", c, "every recovered counter is shape[0] of its dataset",
              str([u(parent(n)) for n in shapes]), key_detail="counter source axis")
    txt = u(loop)
    ok = (f"if {vvar} not in self._file:\n        self._counters[{kvar}] = 0" in txt and f"self._counters[{kvar}] = count" in txt
          and "max(count," in txt and "for table in ['float', 'str']" in txt and f"if {kvar}.endswith('meta')" in txt)
    ctx.check(ok, "R12d", c, "absent table -> 0; *_meta -> max over its float/str tables; otherwise the dataset itself", "", key_detail="counter recovery shape")
    # the append arm returns before the fresh-file initialisation and is entered only for an existing pyrex file in mode a / r+
    g = guards(loop, stop=fn)
    ok = bool(g) and "self._mode == 'a' or self._mode == 'r+'" in u(g[-1][0]) and "file_meta" in u(g[-1][0])
    blk = parent(loop)
    ok = ok and isinstance(blk, ast.If) and isinstance(blk.body[-1], ast.Return)
    ctx.check(ok, "R12d", c, "append arm is taken for mode a/r+ on a file that already has file metadata and returns before re-initialising", "",
              key_detail="append arm guard")


# ------------------------------------------------------------------------------------------------ R12e
def dict_literal_keys(fn):
    keys = []
    for n in ast.walk(fn):
        if isinstance(n, ast.Dict):
            keys += [k.value for k in n.keys if isinstance(k, ast.Constant)]
    return keys


def r12e(ctx):
    repo = ctx.repo
    ctx.rule("R12e", "keys read by FileGenerator._load_events are produced by Particle._metadata / 'interaction_'+Interaction._metadata; "
             "every replayed quantity is read and assigned to the rebuilt particle", expected=14, kind="S")
    fg = repo.member("pyrex.generation.FileGenerator", "_load_events")
    pkeys = set(dict_literal_keys(repo.member("pyrex.particle.Particle", "_metadata")))
    ikeys = {"interaction_" + k for k in dict_literal_keys(repo.member("pyrex.particle.Interaction", "_metadata"))}
    pm = repo.member("pyrex.particle.Particle", "_metadata")
    prefix_ok = any(isinstance(n, ast.Assign) and u(n.targets[0]) == "meta['interaction_' + key]" for n in ast.walk(pm))
    ctx.check(prefix_ok, "R12e", "pyrex.particle.Particle._metadata", "interaction metadata are stored under 'interaction_'+key", "", key_detail="interaction prefix")
    produced = pkeys | ikeys
    read = {}
    for n in ast.walk(fg):
        if isinstance(n, ast.Subscript) and isinstance(n.value, ast.Name) and n.value.id == "p" and isinstance(n.slice, ast.Constant):
            read[n.slice.value] = n
    c = "pyrex.generation.FileGenerator._load_events"
    for k, n in sorted(read.items()):
        ctx.check(k in produced, "R12e", c, f"key '{k}' read on replay is written by the particle metadata table", f"produced keys: {len(produced)}",
                  key_detail=f"key {k}", loc=ctx.loc("pyrex.generation", n))
    need = {"particle_id", "vertex_x", "vertex_y", "vertex_z", "direction_x", "direction_y", "direction_z", "energy", "interaction_kind",
            "interaction_inelasticity", "interaction_em_frac", "interaction_had_frac", "survival_weight", "interaction_weight"}
    ctx.check(need <= set(read), "R12e", c, "type, vertex(3), direction(3), energy, interaction kind, inelasticity, em/had fraction and both weights are all read",
              f"missing: {sorted(need - set(read))}", key_detail="replayed quantities")
    # role pairing: which key feeds which constructor argument / attribute
    want = {"particle_id": "p['particle_id']", "vertex": "(p['vertex_x'], p['vertex_y'], p['vertex_z'])",
            "direction": "(p['direction_x'], p['direction_y'], p['direction_z'])", "energy": "p['energy']", "interaction_type": "p['interaction_kind']"}
    pc = calls(fg, func="Particle")
    got = {k: u(v) for k, v in kwargs_of(pc[0]).items()} if pc else {}
    ctx.check(all(got.get(k) == v for k, v in want.items()), "R12e", c, "constructor arguments of the rebuilt particle are fed by their own keys",
              str({k: got.get(k) for k in want}), key_detail="constructor pairing")
    want_attr = {"part.interaction.inelasticity": "p['interaction_inelasticity']", "part.interaction.em_frac": "p['interaction_em_frac']",
                 "part.interaction.had_frac": "p['interaction_had_frac']", "part.survival_weight": "p['survival_weight']",
                 "part.interaction_weight": "p['interaction_weight']"}
    got_attr = {u(n.targets[0]): u(n.value) for n in ast.walk(fg) if isinstance(n, ast.Assign) and isinstance(n.targets[0], ast.Attribute)}
    ctx.check(all(got_attr.get(k) == v for k, v in want_attr.items()), "R12e", c, "inelasticity, shower fractions and weights are restored from their own keys",
              str({k: got_attr.get(k) for k in want_attr}), key_detail="attribute pairing")
    # metadata values come from the same-named attributes
    pmd = {}
    for n in ast.walk(pm):
        if isinstance(n, ast.Dict):
            pmd = {k.value: u(v) for k, v in zip(n.keys, n.values) if isinstance(k, ast.Constant)}
    want_w = {"particle_id": "self.id.value", "vertex_x": "self.vertex[0]", "vertex_y": "self.vertex[1]", "vertex_z": "self.vertex[2]",
              "direction_x": "self.direction[0]", "direction_y": "self.direction[1]", "direction_z": "self.direction[2]", "energy": "self.energy"}
    ctx.check(all(pmd.get(k) == v for k, v in want_w.items()), "R12e", "pyrex.particle.Particle._metadata", "each written key holds the same-named particle quantity",
              str({k: pmd.get(k) for k in want_w if pmd.get(k) != want_w[k]}), key_detail="writer pairing")
    im = repo.member("pyrex.particle.Interaction", "_metadata")
    imd = {}
    for n in ast.walk(im):
        if isinstance(n, ast.Dict):
            imd = {k.value: u(v) for k, v in zip(n.keys, n.values) if isinstance(k, ast.Constant)}
    want_i = {"kind": "self.kind.value", "inelasticity": "self.inelasticity", "em_frac": "self.em_frac", "had_frac": "self.had_frac"}
    ctx.check(all(imd.get(k) == v for k, v in want_i.items()), "R12e", "pyrex.particle.Interaction._metadata", "each written key holds the same-named interaction quantity",
              str(imd), key_detail="interaction writer pairing")


# ------------------------------------------------------------------------------------------------ R12f
def r12f(ctx):
    repo = ctx.repo
    ctx.rule("R12f", "replay buffers: _events/_event_counts appended once per file event and popped together at 0; _file_counts has "
             "len(files)+1 slots written at _file_index+1; reload iff empty; StopIteration past the last file", expected=5, kind="N")
    q = "pyrex.generation.FileGenerator"
    le = repo.member(q, "_load_events")
    loops = [n for n in ast.walk(le) if isinstance(n, ast.For) and "self._file[" in u(n.iter)]
    ok = len(loops) == 1
    if ok:
        lp = loops[0]
        a1 = paths.seq(lp.body, lambda n: is_call(n, name="append", recv="self._events"))
        a2 = paths.seq(lp.body, lambda n: is_call(n, name="append", recv="self._event_counts"))
        ok = a1 == {"fall": (1, 1)} and a2 == {"fall": (1, 1)}
        ctx.check(ok, "R12f", q + "._load_events", "one event and one count are appended per file event", f"{a1} / {a2}", key_detail="parallel append",
                  loc=ctx.loc("pyrex.generation", lp))
        ctx.check(u(lp.iter) == "self._file[start:stop]", "R12f", q + "._load_events", "the chunk is the file slice [start:stop]", u(lp.iter), key_detail="chunk slice")
    else:
        ctx.unknown("R12f", q + "._load_events", "loop over the file chunk found", "")
    env = local_env(le)
    txt = [u(s) for s in stmts_in_order(le)]
    ok = ("start = self._event_index" in txt and "stop = self._event_index + self.slice_range" in txt and "self._event_index += self.slice_range" in txt
          and any(t.startswith("if stop > len(self._file):") for t in txt) and "self._events = []" in txt and "self._event_counts = []" in txt)
    order = {t: i for i, t in enumerate(txt)}
    ok = ok and order["start = self._event_index"] < order["self._event_index += self.slice_range"]
    ctx.check(ok, "R12f", q + "._load_events", "chunk bounds: start = cursor, stop = min(cursor + slice_range, len(file)); cursor advances by slice_range; buffers reset",
              "", key_detail="chunk bounds")
    first = [s for s in le.body if isinstance(s, ast.If)][0]
    ctx.check(u(first.test) == "self._file_index < 0 or self._event_index >= len(self._file)" and calls(first, name="_next_file", recv="self"),
              "R12f", q + "._load_events", "the next file is opened exactly when no file is open or the cursor passed the end", u(first.test), key_detail="next file test")
    ce = repo.member(q, "create_event")
    body = [u(s) for s in ce.body if not (isinstance(s, ast.Expr) and isinstance(s.value, ast.Constant))]
    ok = (len(body) == 3 and body[0].replace(" ", "") in ("iflen(self._events)==0:\nself._load_events()".replace(" ", ""), "ifnotself._events:\nself._load_events()")
          or (len(body) == 3 and body[0].startswith("if len(self._events) == 0:") and "self._load_events()" in body[0]))
    ok = ok and body[1] == "self._file_counts[self._file_index + 1] = self._event_counts.pop(0)" and body[2] == "return self._events.pop(0)"
    ctx.check(ok, "R12f", q + ".create_event", "reload iff the buffer is empty; count and event are popped together at index 0; count lands in slot _file_index+1",
              str(body), key_detail="create_event shape")
    init = repo.member(q, "__init__")
    ctx.check("self._file_counts = [0] * (len(self.files) + 1)" in u(init) and "self._file_index = -1" in u(init), "R12f", q + ".__init__",
              "_file_counts has len(files)+1 slots and the file cursor starts at -1", "", key_detail="count slots")
    nf_ = repo.member(q, "_next_file")
    st = [u(s) for s in stmts_in_order(nf_)]
    ok = st[0 if not st[0].startswith("'") else 1] == "self._file_index += 1" and any(s.startswith("if self._file_index >= len(self.files):") and "raise StopIteration" in s for s in st) \
        and "self._event_index = 0" in st
    ctx.check(ok, "R12f", q + "._next_file", "file cursor advances by one, event cursor resets, StopIteration past the last file", "", key_detail="next file")
    cg = repo.member(q, "count")
    cs = repo.lookup(q, "count.setter")[2]
    g = NF().nf(cg.body[-1].value)
    ctx.check(u(cg.body[-1].value) == "sum(self._file_counts)" and u(cs.body[-1]) == "self._file_counts[0] = custom_count - sum(self._file_counts[1:])",
              "R12f", q + ".count", "count getter sums the slots; the setter adjusts slot 0 so that the getter returns the assigned value", "", key_detail="count get/set")


def r12g(ctx):
    """chunk bounds: _load_data takes the end of a chunk from the last event with the largest start entry; that is only right because every event
    carries an entry for every table -- (running counter, 0) when it contributes nothing (= R11c preset / unconditional index store)"""
    from . import c11
    repo = ctx.repo
    ctx.rule("R12g", "chunk end = start + length of the LAST event with the largest start entry; every event has an index entry for every table (preset, never skipped)",
             expected=3, kind="N")
    fn = repo.member(IT, "_load_data")
    env = {}
    for st in ast.walk(fn):
        if isinstance(st, ast.Assign) and isinstance(st.targets[0], ast.Name):
            env[st.targets[0].id] = st.value
    ok = u(env.get("tmp_start")) == "np.min(tmp_indices[:, 0])" and u(env.get("tmp_end_idx")) == "np.where(tmp_indices[:, 0] == np.max(tmp_indices[:, 0]))[0][-1]" \
        and u(env.get("tmp_end")) == "tmp_indices[tmp_end_idx][0] + tmp_indices[tmp_end_idx][1]" and u(env.get("tmp")) == "self._object[val][tmp_start:tmp_end]"
    ctx.check(ok, "R12g", f"{IT}._load_data", "loaded block = rows [min start, start + length of the last event with the maximal start)", "", key_detail="chunk bounds",
              loc=ctx.loc("pyrex.io", fn))
    sub = type(ctx)(ctx.repo, ctx.prop, ctx.tier)
    c11.r11c(sub)
    for o in sub.obs:
        if "_write_indices" in o.construct or "_preset_all_indices" in o.construct:
            o.rule = "R12g"
            ctx.obs.append(o)


def run(ctx):
    ctx.guard(r12g)
    ctx.guard(r12a)
    ctx.guard(r12b)
    ctx.guard(r12c)
    ctx.guard(r12d)
    ctx.guard(r12e)
    ctx.guard(r12f)


SELFTEST = {
    "faults": [
        {"name": "length of the open file remembered and not dropped when the next file is opened (generic stale-value rule)", "file": "pyrex/generation.py",
         "old": "        if stop>len(self._file):\n            stop = len(self._file)",
         "new": "        if getattr(self, '_n_in_file', None) is None:\n            self._n_in_file = len(self._file)\n        if stop>self._n_in_file:\n            stop = self._n_in_file",
         "rule": "R12t"},
        {"name": "np.split at cumulative lengths", "file": "pyrex/io.py",
         "old": "                for start, length in tmp_indices:\n                    start = start - tmp_start\n                    self._data[key].append(tmp[start:start+length])",
         "new": "                lengths = tmp_indices[:, 1]\n                self._data[key] = np.split(tmp, np.cumsum(lengths)[:-1])", "rule": "R12a"},
        {"name": "zero-length index entries skipped", "file": "pyrex/io.py", "old": "                indices[global_index_value, i] = (start_index, length)\n",
         "new": "                if length>0:\n                    indices[global_index_value, i] = (start_index, length)\n", "rule": "R12g"},
        {"name": "split the chunk by accumulated lengths (the defect repaired by 0f02627)", "file": "pyrex/io.py",
         "old": "                for start, length in tmp_indices:\n                    start = start - tmp_start\n                    self._data[key].append(tmp[start:start+length])",
         "new": "                start = 0\n                for length in tmp_indices[:, 1]:\n                    self._data[key].append(tmp[start:start+length])\n                    start = start+length",
         "rule": "R12a"},
        {"name": "chunk size from raw slice bounds (the defect repaired by b090335)", "file": "pyrex/io.py",
         "old": "            start, stop, _ = key.indices(self._num_events)\n",
         "new": "            start = 0 if key.start is None else key.start\n            stop = self._num_events if key.stop is None else key.stop\n", "rule": "R12b"},
        {"name": "start column ignored through a helper variable", "file": "pyrex/io.py",
         "old": "                    start = start - tmp_start\n", "new": "                    start = length - length\n", "rule": "R12a"},
        {"name": "append-mode counter from the wrong axis", "file": "pyrex/io.py", "old": "                        count = self._file[val].shape[0]",
         "new": "                        count = self._file[val].shape[1]", "rule": "R12d"},
        {"name": "reader-side key renamed", "file": "pyrex/generation.py", "old": "p['interaction_em_frac']", "new": "p['interaction_emfrac']", "rule": "R12e"},
        {"name": "event number with swapped roles", "file": "pyrex/io.py",
         "old": "        event_number = (self._iter_counter * self._slice_step\n                        + self._slice_start_event)\n        return int(",
         "new": "        event_number = (self._iter_counter\n                        + self._slice_start_event * self._slice_step)\n        return int(", "rule": "R12c"},
        {"name": "reload before stop", "file": "pyrex/io.py",
         "old": "        if event_number >= self._iter_stop_event:\n            raise StopIteration\n\n        if event_number >= self._slice_end_event:",
         "new": "        if event_number > self._iter_stop_event:\n            raise StopIteration\n\n        if event_number >= self._slice_end_event:", "rule": "R12c"},
        {"name": "weights swapped on replay", "file": "pyrex/generation.py", "old": "part.survival_weight = p['survival_weight']",
         "new": "part.survival_weight = p['interaction_weight']", "rule": "R12e"},
        {"name": "count popped from the end", "file": "pyrex/generation.py", "old": "self._event_counts.pop(0)", "new": "self._event_counts.pop()", "rule": "R12f"},
        {"name": "excluded key differs in append mode", "file": "pyrex/io.py", "old": "                if key in [\"file_meta\", \"antennas\", \"antennas_meta\"]:\n                    continue",
         "new": "                if key in [\"file_meta\", \"antennas\"]:\n                    continue", "rule": "R12d"},
    ],
    "benign": [
        {"name": "length of the open file remembered AND dropped when the next file is opened (a complete cache: the stale-value rule must stay silent)", "silent": ["R12t"],
         "edits": [{"file": "pyrex/generation.py", "old": "        if stop>len(self._file):\n            stop = len(self._file)",
                    "new": "        if getattr(self, '_n_in_file', None) is None:\n            self._n_in_file = len(self._file)\n        if stop>self._n_in_file:\n            stop = self._n_in_file"},
                   {"file": "pyrex/generation.py", "old": "        self._file.open()\n\n    def create_event(self):", "new": "        self._file.open()\n        self._n_in_file = None\n\n    def create_event(self):"}]},
        {"name": "per-event start via zip of the two columns", "file": "pyrex/io.py",
         "old": "                for start, length in tmp_indices:\n                    start = start - tmp_start\n",
         "new": "                for begin, length in zip(tmp_indices[:, 0], tmp_indices[:, 1]):\n                    start = begin - tmp_start\n"},
        {"name": "normalise with range()", "file": "pyrex/io.py", "old": "            start, stop, _ = key.indices(self._num_events)\n            slice_range = min(self._slice_range, stop-start)",
         "new": "            n_sel = len(range(self._num_events)[key])\n            slice_range = min(self._slice_range, max(n_sel, 1))"},
        {"name": "event number operands reordered", "file": "pyrex/io.py",
         "old": "        event_number = (self._iter_counter * self._slice_step\n                        + self._slice_start_event)\n        return int(",
         "new": "        event_number = (self._slice_start_event\n                        + self._slice_step * self._iter_counter)\n        return int("},
    ],
}
