"""C19 -- detector composition visits every antenna once; triggers and clears as the union."""
import ast

from ..core.source import AnalysisError, parent
from ..core import paths
from ..core.astutil import strip_doc, stmts_in_order, calls, is_call, kwargs_of, guards, u, returns, self_attr
from . import c09

META = {
    "explanation": "R19a Detector.__iter__/__len__/__getitem__ (and every override in the package) consume flatten(self.subsets) and "
                   "nothing else, so the three views agree for every nesting; R19b operand order of CombinedDetector.__add__/__radd__/"
                   "__iadd__ and Detector.__add__/__radd__ (so flattened content is the concatenation, hence associative); R19c flatten "
                   "recursion forwards dont_flatten and keeps str/bytes whole; R19d the three antenna-level any-hit tests are one clone; R19k (pointed) no flattening of the subsets is stored on the instance; R19j (pointed) every return inside the loop over the union's members returns True; "
                   "R19e clear iterates self and forwards reset_noise; R19f the three position comparisons are `z > 0 -> raise` and the "
                   "test plus build mirroring run in every constructor and in +=; R19g keyword dispatch of build_antennas/triggered; "
                   "R19h MC-truth sibling agreement (shared with C09).",
    "not_decided": ["associativity as equality of flattened lists (follows informally from R19a + R19b)", "behaviour of user subclasses' set_positions"],
    "trusted_base": ["CPython ast"],
    "assumptions": [],
}

D = "pyrex.detector.Detector"
CD = "pyrex.detector.CombinedDetector"
MOD = "pyrex.detector"


def r19a(ctx):
    repo = ctx.repo
    ctx.rule("R19a", "__iter__, __len__ and __getitem__ all consume flatten(self.subsets) and nothing else", expected=3, kind="S")
    want = {"__iter__": ["yield from flatten(self.subsets)"], "__len__": ["return len(list(flatten(self.subsets)))"],
            "__getitem__": ["return list(flatten(self.subsets))[key]"]}
    classes = [c for c in repo.classes.values() if c.is_subclass_of("Detector")]
    n = 0
    for ci in classes:
        for m, w in want.items():
            if m not in ci.methods:
                continue
            n += 1
            fn = ci.methods[m][1]
            body = [u(s) for s in strip_doc(fn)]
            srcs = {u(c) for c in ast.walk(fn) if is_call(c, func="flatten")}
            ok = srcs == {"flatten(self.subsets)"} and not any(isinstance(x, ast.Attribute) and self_attr(x) and x.attr not in ("subsets",) for x in ast.walk(fn))
            ok = ok and (body == w or equivalent_view(m, fn))
            ctx.check(ok, "R19a", f"{ci.qual}.{m}", "view is built from flatten(self.subsets) only", str(body), key_detail="flatten view",
                      loc=ctx.loc(ci.module, fn))
    if n < 3:
        raise AnalysisError("Detector.__iter__/__len__/__getitem__ not found")
    fl = repo.resolve_function(MOD, "flatten")
    ctx.check(fl is not None and fl[0] == "pyrex.internal_functions", "R19a", MOD, "flatten is pyrex.internal_functions.flatten", str(fl and fl[0]), key_detail="flatten import")


def equivalent_view(m, fn):
    body = [u(s) for s in strip_doc(fn)]
    if m == "__iter__":
        return body in (["return iter(flatten(self.subsets))"], ["for ant in flatten(self.subsets):\n    yield ant"])
    if m == "__len__":
        return body in (["return sum((1 for _ in flatten(self.subsets)))"],)
    return False


def r19b(ctx):
    repo = ctx.repo
    ctx.rule("R19b", "operand order: self's subsets come first in __add__ / __iadd__, other's first in __radd__; `0 + d` is d", expected=5, kind="N")

    def arms(fn):
        """list of (guard text or None, return/action text)"""
        out = []
        body = strip_doc(fn)

        def walk(stmts, g):
            for st in stmts:
                if isinstance(st, ast.If):
                    walk(st.body, g + [u(st.test)])
                    walk(st.orelse, g + ["not " + u(st.test)])
                elif isinstance(st, ast.Return):
                    out.append((tuple(g), "return " + u(st.value)))
                elif isinstance(st, ast.Expr):
                    out.append((tuple(g), u(st)))
        walk(body, [])
        return out
    table = {
        (D, "__add__"): [((), "return CombinedDetector(self, other)")],
        (D, "__radd__"): [(("other == 0",), "return self"), (("not other == 0",), "return CombinedDetector(other, self)")],
        (CD, "__add__"): [(("isinstance(other, CombinedDetector)",), "return CombinedDetector(*self.subsets, *other.subsets)"),
                          (("not isinstance(other, CombinedDetector)",), "return CombinedDetector(*self.subsets, other)")],
        (CD, "__radd__"): [(("other == 0",), "return self"),
                           (("not other == 0", "isinstance(other, CombinedDetector)"), "return CombinedDetector(*other.subsets, *self.subsets)"),
                           (("not other == 0", "not isinstance(other, CombinedDetector)"), "return CombinedDetector(other, *self.subsets)")],
    }
    for (q, m), want in table.items():
        fn = repo.member(q, m)
        got = arms(fn)
        ctx.check(got == want, "R19b", f"{q}.{m}", "decision table of the operator (guard -> constructor argument order)", f"got {got}",
                  key_detail="operand order", loc=ctx.loc(MOD, fn))
    fn = repo.member(CD, "__iadd__")
    got = arms(fn)
    want = [(("isinstance(other, CombinedDetector)",), "self.subsets.extend(other.subsets)"),
            (("not isinstance(other, CombinedDetector)",), "self.subsets.append(other)"),
            ((), "self._test_positions()"), ((), "self._mirror_build_function()"), ((), "return self")]
    ctx.check(got == want, "R19b", f"{CD}.__iadd__", "+= extends/appends at the end, re-tests positions, re-mirrors the build function, returns self",
              f"got {got}", key_detail="iadd")
    init = repo.member(CD, "__init__")
    body = [u(s) for s in strip_doc(init)]
    ctx.check(body[:1] == ["self.subsets = list(detectors)"] and init.args.vararg is not None and init.args.vararg.arg == "detectors", "R19b", f"{CD}.__init__",
              "the combined detector's subsets are its arguments in order (a fresh list)", str(body), key_detail="constructor order")


def r19c(ctx):
    repo = ctx.repo
    ctx.rule("R19c", "flatten: recursion forwards dont_flatten; str/bytes and dont_flatten types are yielded whole; every element yields", expected=3, kind="N")
    fn = repo.func("pyrex.internal_functions.flatten")
    c = "pyrex.internal_functions.flatten"
    loops = [n for n in fn.body if isinstance(n, ast.For)]
    ok = len(loops) == 1 and u(loops[0].iter) == fn.args.args[0].arg
    if not ok:
        ctx.unknown("R19c", c, "single loop over the iterator argument", "")
        return
    lp = loops[0]
    el = lp.target.id
    ifs = [s for s in lp.body if isinstance(s, ast.If)]
    ok = len(ifs) == 1 and len(lp.body) == 1
    if ok:
        t = ifs[0].test
        atoms = t.values if isinstance(t, ast.BoolOp) and isinstance(t.op, ast.And) else [t]
        txt = [u(a) for a in atoms]
        ok = (f"isinstance({el}, Iterable)" in txt and any(a.startswith(f"not isinstance({el}, ") and "dont_flatten" in a and "str" in a and "bytes" in a for a in txt)
              and len(txt) == 2)
        rec = [s for s in ifs[0].body]
        ok_rec = len(rec) == 1 and isinstance(rec[0], ast.Expr) and isinstance(rec[0].value, ast.YieldFrom) and is_call(rec[0].value.value, func="flatten") \
            and u(rec[0].value.value.args[0]) == el and {k: u(v) for k, v in kwargs_of(rec[0].value.value).items()} == {"dont_flatten": "dont_flatten"}
        els = ifs[0].orelse
        ok_else = len(els) == 1 and isinstance(els[0], ast.Expr) and isinstance(els[0].value, ast.Yield) and u(els[0].value.value) == el
        ctx.check(ok, "R19c", c, "an element is expanded iff it is Iterable and not of a dont_flatten type nor str/bytes", str(txt), key_detail="expansion test",
                  loc=ctx.loc("pyrex.internal_functions", fn))
        ctx.check(ok_rec, "R19c", c, "expansion recurses with the same dont_flatten", u(rec[0]) if rec else "", key_detail="recursion forwards dont_flatten")
        ctx.check(ok_else, "R19c", c, "every other element is yielded itself, once", u(els[0]) if els else "", key_detail="leaf yield")
    else:
        ctx.unknown("R19c", c, "loop body is one if/else", "")


def any_hit_tests(fn):
    out = []
    for n in ast.walk(fn):
        if isinstance(n, ast.If) and "is_hit" in u(n.test) and len(n.body) == 1 and isinstance(n.body[0], ast.Return):
            out.append(n)
    return out


def r19d(ctx):
    repo = ctx.repo
    ctx.rule("R19d", "any-hit: the antenna-level tests are `(mc and x.is_hit_mc_truth) or (not mc and x.is_hit)` -> return True; False only after all subsets",
             expected=3, kind="N")
    n = 0
    for q, m in ((D, "triggered"), (CD, "triggered")):
        fn = repo.member(q, m)
        for t in any_hit_tests(fn):
            n += 1
            test = t.test
            var = None
            for x in ast.walk(test):
                if isinstance(x, ast.Attribute) and x.attr == "is_hit" and isinstance(x.value, ast.Name):
                    var = x.value.id
            want = f"require_mc_truth and {var}.is_hit_mc_truth or (not require_mc_truth and {var}.is_hit)"
            ctx.check(u(test) == want and u(t.body[0]) == "return True", "R19d", f"{q}.{m}", "antenna-level any-hit test is the canonical clone and returns True",
                      u(test), key_detail=f"any-hit test on {var}", loc=ctx.loc(MOD, t))
            # the tested variable is the loop variable over the antennas / the subset itself
        last = strip_doc(fn)[-1]
        ctx.check(isinstance(last, ast.Return) and u(last.value) == "False" and len([r for r in returns(fn) if u(r.value) == "False"]) == 1, "R19d", f"{q}.{m}",
                  "False is returned only after every subset was examined", u(last), key_detail="final False")
    if n < 3:
        ctx.unknown("R19d", f"{CD}.triggered", "three antenna-level any-hit tests (Detector, antenna list in a combination, single antenna in a combination)",
                    f"only {n} found", required=True)
    fn = repo.member(D, "triggered")
    lp = [x for x in strip_doc(fn) if isinstance(x, ast.For)]
    ctx.check(len(lp) == 1 and u(lp[0].iter) == "self", "R19d", f"{D}.triggered", "the default trigger examines every antenna of the detector (iterates self)", "",
              key_detail="iterates self")
    fn = repo.member(CD, "triggered")
    lp = [x for x in strip_doc(fn) if isinstance(x, ast.For)]
    ctx.check(len(lp) == 1 and u(lp[0].iter) == "self.subsets", "R19d", f"{CD}.triggered", "the combined trigger examines every subset", "", key_detail="iterates subsets")
    # decision list per subset kind: has triggered -> delegate ; Iterable -> antennas ; else -> single antenna
    chain = [s for s in lp[0].body if isinstance(s, ast.If)] if lp else []
    ok = len(chain) == 1
    if ok:
        tests = []
        cur = chain[0]
        while True:
            tests.append(u(cur.test))
            if len(cur.orelse) == 1 and isinstance(cur.orelse[0], ast.If):
                cur = cur.orelse[0]
            else:
                break
        # `else: if X:` and `elif X:` are one AST shape: the third test, when present, is the single-antenna any-hit test
        ok = tests[:2] == ["hasattr(sub, 'triggered')", "isinstance(sub, Iterable)"] and (
            (len(tests) == 2 and bool(cur.orelse)) or (len(tests) == 3 and "sub.is_hit" in tests[2]))
    ctx.check(ok, "R19d", f"{CD}.triggered", "per subset: own triggered() if it has one, else its antennas, else the antenna itself", "", key_detail="subset kinds")


def r19j(ctx):
    """Pointed: a `return` inside the loop over the members of the union ends the examination at that member; the only value a union may leave early with
    is True (one member triggered).  Read off the return statement itself, whatever else the function does."""
    repo = ctx.repo
    ctx.rule("R19j", "inside the loop over a detector's antennas / a combination's subsets every early `return` hands back True (a member that is not triggered "
             "must not end the union)", expected=2, kind="N")
    for q, it in ((D, "self"), (CD, "self.subsets")):
        fn = repo.member(q, "triggered")
        loops = [x for x in ast.walk(fn) if isinstance(x, ast.For) and u(x.iter) == it]
        if not loops:
            ctx.unknown("R19j", f"{q}.triggered", f"a loop over {it}", "none found (the union is spelt another way)", required=False)
            continue
        for lp in loops:
            bad = []
            for r in [n for n in ast.walk(lp) if isinstance(n, ast.Return)]:
                v = r.value
                if isinstance(v, ast.Constant) and v.value is True:
                    continue
                pr = parent(r)
                if v is not None and isinstance(pr, ast.If) and r in pr.body and u(pr.test) == u(v):
                    continue            # `if x: return x` hands back a true value
                bad.append(r)
            for r in bad:
                ctx.bad("R19j", f"{q}.triggered", f"an early return inside the loop over {it} returns True", f"`{u(r)[:120]}` leaves the loop with a value that can be false: "
                        "the members after this one are never examined", key_detail="early return in union loop", loc=ctx.loc(MOD, r), pointed=True)
            if not bad:
                ctx.ok("R19j", f"{q}.triggered", f"every early return inside the loop over {it} returns True", loc=ctx.loc(MOD, lp))


def r19k(ctx):
    """Pointed: the flattened antenna list depends on the subsets' own content, which a sub-detector changes when it is built or rebuilt on its own --
    no mutator of *this* object runs then, so a flattening stored on the instance cannot be kept fresh."""
    repo = ctx.repo
    ctx.rule("R19k", "no detector class stores a flattening of its subsets on the instance (len / index / iteration read flatten(self.subsets) at call time: "
             "a sub-detector rebuilt on its own changes the content without touching the container)", expected=2, kind="N")
    for ci in [repo.cls(D), repo.cls(CD)] + [c for c in repo.subclasses("Detector") if c.qual not in (D, CD)]:
        found = False
        for fn in [st for st in ci.node.body if isinstance(st, ast.FunctionDef)]:
            loc_assign = {}
            for n in ast.walk(fn):
                if isinstance(n, ast.Assign) and len(n.targets) == 1 and isinstance(n.targets[0], ast.Name):
                    loc_assign.setdefault(n.targets[0].id, []).append(n.value)

            def has_flatten(v, depth=0):
                for x in ast.walk(v):
                    if isinstance(x, ast.Call) and u(x.func).split(".")[-1] == "flatten" and x.args and "subsets" in u(x.args[0]):
                        return True
                    if isinstance(x, ast.Name) and isinstance(x.ctx, ast.Load) and depth < 3 and any(has_flatten(w, depth + 1) for w in loc_assign.get(x.id, [])):
                        return True
                return False
            for n in ast.walk(fn):
                tg = n.targets if isinstance(n, ast.Assign) else [n.target] if isinstance(n, (ast.AugAssign, ast.AnnAssign)) and n.value is not None else []
                for t in tg:
                    if isinstance(t, ast.Attribute) and u(t.value) == "self" and t.attr != "subsets" and has_flatten(n.value):
                        found = True
                        ctx.bad("R19k", f"{ci.qual}.{fn.name}", "the flattened content is computed when asked for, not stored on the instance",
                                f"`{u(n)[:120]}` keeps a flattening of the subsets in self.{t.attr}; a subset built or rebuilt on its own leaves it stale",
                                key_detail=f"stored flattening self.{t.attr}", loc=ctx.loc(ci.module, n), pointed=True)
        if not found and ci.qual in (D, CD):
            ctx.ok("R19k", ci.qual, "no method stores flatten(self.subsets) on the instance")


def r19e(ctx):
    repo = ctx.repo
    ctx.rule("R19e", "Detector.clear iterates self and forwards reset_noise", expected=1, kind="N")
    fn = repo.member(D, "clear")
    body = [u(s) for s in strip_doc(fn)]
    ctx.check(body == ["for ant in self:\n    ant.clear(reset_noise=reset_noise)"], "R19e", f"{D}.clear", "every antenna of the flattened detector is cleared with the same flag",
              str(body), key_detail="clear", loc=ctx.loc(MOD, fn))
    for ci in repo.classes.values():
        if ci.is_subclass_of("Detector") and ci.name != "Detector" and "clear" in ci.methods:
            f2 = ci.methods["clear"][1]
            ok = any(is_call(c, name="clear") and "super()" in u(c.func) for c in ast.walk(f2)) or [u(s) for s in strip_doc(f2)] == body
            ctx.check(ok, "R19e", f"{ci.qual}.clear", "override still clears all antennas (delegates to Detector.clear)", "", key_detail="clear override")


def r19f(ctx):
    repo = ctx.repo
    ctx.rule("R19f", "position test: the three comparisons are `z > 0 -> raise ValueError`; _test_positions() and _mirror_build_function() run in "
             "Detector.__init__, CombinedDetector.__init__ and __iadd__", expected=4, kind="N")
    fn = repo.member(D, "_test_positions")
    comps = [n for n in ast.walk(fn) if isinstance(n, ast.If) and any(isinstance(x, ast.Raise) for x in n.body)]
    forms = []
    for n in comps:
        t = n.test
        ok = (isinstance(t, ast.Compare) and len(t.ops) == 1 and isinstance(t.ops[0], ast.Gt) and u(t.comparators[0]) == "0"
              and isinstance(t.left, ast.Subscript) and u(t.left.slice) == "2" and "ValueError" in u(n.body[0]))
        forms.append((u(t), ok))
    ctx.check(len(comps) == 3 and all(ok for _, ok in forms), "R19f", f"{D}._test_positions", "three clones of `position[2] > 0 -> raise ValueError`", str(forms),
              key_detail="position comparisons", loc=ctx.loc(MOD, fn))
    want_l = ["pos[2]", "ant.position[2]", "sub.position[2]"]
    got_l = [u(n.test.left) for n in comps if isinstance(n.test, ast.Compare)]
    ctx.check(sorted(got_l) == sorted(want_l), "R19f", f"{D}._test_positions", "the comparisons test own positions, antennas of iterable subsets and single-antenna subsets",
              str(got_l), key_detail="position operands")
    first = strip_doc(fn)[0]
    ctx.check(isinstance(first, ast.If) and u(first.test) == "not self.test_antenna_positions" and isinstance(first.body[0], ast.Return), "R19f", f"{D}._test_positions",
              "the test can only be disabled through the class switch test_antenna_positions", "", key_detail="switch")
    ca = repo.cls(D).class_attrs.get("test_antenna_positions")
    ctx.check(ca is not None and u(ca) == "True", "R19f", D, "position testing is on by default", u(ca) if ca is not None else "", key_detail="switch default")
    for q, m in ((D, "__init__"), (CD, "__init__"), (CD, "__iadd__")):
        f = repo.member(q, m)
        top = [u(s) for s in strip_doc(f)]
        ok = "self._test_positions()" in top and "self._mirror_build_function()" in top and top.index("self._test_positions()") < top.index("self._mirror_build_function()")
        # they come after the subsets are in place
        sub_i = max([i for i, t in enumerate(top) if "subsets" in t and "_test" not in t and "_mirror" not in t] or [-1])
        ok = ok and sub_i < top.index("self._test_positions()")
        ctx.check(ok, "R19f", f"{q}.{m}", "positions are tested and the build function mirrored after the subsets are set, unconditionally", str(top[-4:]),
                  key_detail="test call")


def r19g(ctx):
    repo = ctx.repo
    ctx.rule("R19g", "keyword dispatch: build_antennas filters kwargs by each subset's signature when signatures differ and rejects positionals; "
             "triggered strips exactly the keyword named in the TypeError and always passes require_mc_truth; a keyword build_antennas consumes itself is removed before kwargs are passed on", expected=5, kind="N")
    fn = repo.member(D, "build_antennas")
    txt = u(fn)
    comp = [n for n in ast.walk(fn) if isinstance(n, ast.DictComp)]
    ok = len(comp) == 1 and u(comp[0]) == "{key: val for key, val in kwargs.items() if key in keys}"
    env_ok = "sig = inspect.signature(sub.build_antennas)" in txt and "keys = sig.parameters.keys()" in txt and "sub.build_antennas(**sub_kwargs)" in txt
    ctx.check(ok and env_ok, "R19g", f"{D}.build_antennas", "kwargs are filtered by the parameters of the subset's own build_antennas", "", key_detail="kwarg filter",
              loc=ctx.loc(MOD, fn))
    # `args` is the function's own *args tuple: its truth is the truth of its length, whichever way the test is written
    va = fn.args.vararg.arg if fn.args.vararg else None
    nonempty = {f"len({va}) > 0", f"len({va}) != 0", f"len({va}) >= 1", f"0 < len({va})", f"0 != len({va})", f"1 <= len({va})", f"len({va})", f"{va}"}
    rej = [n for n in ast.walk(fn) if isinstance(n, ast.If) and va and u(n.test) in nonempty and any(isinstance(x, ast.Raise) and "TypeError" in u(x) for x in n.body)]
    ok = len(rej) == 1
    if ok:
        g = guards(rej[0], stop=fn)
        ok = any(u(t) == "self._subset_builds_match" and not pol for t, pol in g)
    ctx.check(ok, "R19g", f"{D}.build_antennas", "positional arguments are rejected when the subsets' signatures differ", "", key_detail="positional rejection")
    # a keyword the detector consumes itself (`antenna_class`) is taken OUT of kwargs before kwargs are handed on: left in, it would reach
    # every antenna constructor / sub-detector, none of which was meant to get it
    kw = fn.args.kwarg.arg if fn.args.kwarg else None
    taken = [n for n in ast.walk(fn) if isinstance(n, ast.If) and kw and u(n.test) == f"'antenna_class' in {kw}"]
    ok = len(taken) == 1 and any((isinstance(x, ast.Call) and u(x.func) == f"{kw}.pop" and len(x.args) >= 1 and u(x.args[0]) == "'antenna_class'")
                                 or (isinstance(x, ast.Delete) and any(u(t) == f"{kw}['antenna_class']" for t in x.targets))
                                 for st in (taken[0].body if taken else []) for x in ast.walk(st))
    ctx.check(ok, "R19g", f"{D}.build_antennas", "a keyword the detector consumes itself (antenna_class) is removed from kwargs before they are passed on",
              "" if ok else ("no `if 'antenna_class' in kwargs` arm found" if len(taken) != 1 else u(taken[0])[:200]), key_detail="consumed keyword removed")
    both = [c for c in ast.walk(fn) if is_call(c, name="build_antennas", recv="sub")]
    ok = len(both) == 2 and all(any(u(t) == "hasattr(sub, 'build_antennas')" and pol for t, pol in guards(c, stop=fn)) for c in both)
    ctx.check(ok, "R19g", f"{D}.build_antennas", "only subsets that have build_antennas are asked to build", "", key_detail="hasattr guard")
    base = [c for c in ast.walk(fn) if isinstance(c, ast.Call) and u(c.func) == "antenna_class"]
    ok = len(base) == 1 and u(base[0]) == "antenna_class(*args, position=p, **kwargs)"
    lp = parent(parent(parent(base[0]))) if base else None
    ctx.check(ok and isinstance(lp, ast.For) and u(lp.iter) == "self.antenna_positions", "R19g", f"{D}.build_antennas",
              "a base detector builds one antenna per position, in position order, into a fresh subsets list", u(base[0]) if base else "", key_detail="base build")
    fn = repo.member(CD, "triggered")
    txt = u(fn)
    ok = ("kwargs['require_mc_truth'] = require_mc_truth" in txt and "bad_kw = parts[1]" in txt and "parts = msg.split(\"'\")" in txt
          and "{key: val for key, val in sub_kwargs.items() if key != bad_kw}" in txt and "'got an unexpected keyword argument' in msg" in txt)
    ctx.check(ok, "R19g", f"{CD}.triggered", "require_mc_truth is always passed; on TypeError exactly the named keyword is removed and the call retried", "",
              key_detail="trigger kwarg stripping")
    # the working copy of the keywords starts from the full set for EVERY subset: a keyword rejected by one subset must still reach the next one
    resets = [n for n in ast.walk(fn) if isinstance(n, ast.Assign) and u(n.targets[0]) == "sub_kwargs" and u(n.value) == "kwargs"]
    ok_r = len(resets) == 1
    if ok_r:
        q = parent(resets[0])
        inside = False
        while q is not None and q is not fn:
            if isinstance(q, ast.For) and u(q.iter) == "self.subsets":
                inside = True
            q = parent(q)
        wl = [n for n in ast.walk(fn) if isinstance(n, ast.While)]
        ok_r = inside and len(wl) == 1 and not any(resets[0] is x for x in ast.walk(wl[0]))
    ctx.check(ok_r, "R19g", f"{CD}.triggered", "the keyword set is reset to the full kwargs for each subset (inside the subset loop, before the retry loop)", "",
              key_detail="per-subset keyword reset")
    ok = "if sub_kwargs == prev_kwargs:\n" in txt and "raise e" in txt
    ctx.check(ok, "R19g", f"{CD}.triggered", "other TypeErrors propagate and a retry that removes nothing stops the loop", "", key_detail="retry termination")


def r19h(ctx):
    ctx.rule("R19h", "MC-truth sibling agreement between Antenna and AntennaSystem (= R09f)", expected=1, kind="N")
    import difflib
    repo = ctx.repo
    m = "is_hit_mc_truth"
    a = c09.norm_body(repo.member(c09.A, m), [])
    s = c09.norm_body(repo.member(c09.S, m), c09.SUBST)
    d = [l for l in difflib.unified_diff(a, s, lineterm="", n=0) if not l.startswith(("---", "+++", "@@"))]
    ctx.check(a == s, "R19h", f"{c09.S}.{m}", "the system's MC-truth hit status equals the antenna's after substitution", f"deviation: {d}",
              key_detail="deviates from Antenna sibling", loc=ctx.loc("pyrex.detector", repo.member(c09.S, m)))


def r19i(ctx):
    repo = ctx.repo
    ctx.rule("R19i", "whether build keywords can be passed to all subsets alike is decided by the subsets' build_antennas *signatures* (inspect.signature), "
             "not by their classes", expected=1, kind="N")
    fn = repo.lookup("pyrex.detector.Detector", "_subset_builds_match")[2]
    sigs = [c for c in ast.walk(fn) if isinstance(c, ast.Call) and u(c.func) == "inspect.signature" and c.args and u(c.args[0]).endswith(".build_antennas")]
    sets = [c for c in ast.walk(fn) if isinstance(c, ast.Call) and u(c.func) == "set" and any(s_ in list(ast.walk(c)) for s_ in sigs)]
    ctx.check(bool(sigs) and bool(sets), "R19i", "pyrex.detector.Detector._subset_builds_match", "the set of inspect.signature(sub.build_antennas) over the subsets has one element",
              u(fn.body[-1])[:160], key_detail="signature comparison", loc=ctx.loc("pyrex.detector", fn))


def run(ctx):
    ctx.guard(r19j)         # pointed rules first (see Ctx.guard)
    ctx.guard(r19k)         # pointed rules first (see Ctx.guard)
    ctx.guard(r19i)
    ctx.guard(r19a)
    ctx.guard(r19b)
    ctx.guard(r19c)
    ctx.guard(r19d)
    ctx.guard(r19e)
    ctx.guard(r19f)
    ctx.guard(r19g)
    ctx.guard(r19h)


SELFTEST = {
    "faults": [
        {"name": "flattened antenna list kept on the instance by __len__", "file": "pyrex/detector.py",
         "old": "        return len(list(flatten(self.subsets)))\n",
         "new": "        if getattr(self, '_flat', None) is None:\n            self._flat = list(flatten(self.subsets))\n        return len(self._flat)\n", "rule": "R19k"},
        {"name": "subset trigger result returned as it is (a quiet first subset ends the union)", "file": "pyrex/detector.py",
         "old": "                            if triggered:\n                                return True\n                            else:\n                                break\n",
         "new": "                            return triggered\n", "rule": "R19j"},
        {"name": "keyword reset hoisted out of the subset loop", "file": "pyrex/detector.py",
         "edits": [{"file": "pyrex/detector.py", "old": "                    sub_kwargs = kwargs\n                    while True:", "new": "                    while True:"},
                   {"file": "pyrex/detector.py", "old": "        kwargs['require_mc_truth'] = require_mc_truth\n", "new": "        kwargs['require_mc_truth'] = require_mc_truth\n        sub_kwargs = kwargs\n"}],
         "rule": "R19g"},
        {"name": "operands swapped in CombinedDetector.__add__", "file": "pyrex/detector.py", "old": "            return CombinedDetector(*self.subsets, other)",
         "new": "            return CombinedDetector(other, *self.subsets)", "rule": "R19b"},
        {"name": "len counts subsets", "file": "pyrex/detector.py", "old": "        return len(list(flatten(self.subsets)))", "new": "        return len(self.subsets)", "rule": "R19a"},
        {"name": "dont_flatten dropped in the recursion", "file": "pyrex/internal_functions.py", "old": "yield from flatten(element, dont_flatten=dont_flatten)",
         "new": "yield from flatten(element)", "rule": "R19c"},
        {"name": "z >= 0 in one clone", "file": "pyrex/detector.py", "old": "                        if ant.position[2]>0:", "new": "                        if ant.position[2]>=0:", "rule": "R19f"},
        {"name": "mc truth ignored for single antennas", "file": "pyrex/detector.py",
         "old": "                if ((require_mc_truth and sub.is_hit_mc_truth) or\n                        (not require_mc_truth and sub.is_hit)):",
         "new": "                if sub.is_hit:", "rule": "R19d"},
        {"name": "iadd without position test", "file": "pyrex/detector.py", "old": "            self.subsets.append(other)\n        self._test_positions()\n",
         "new": "            self.subsets.append(other)\n", "rule": ["R19b", "R19f"]},
        {"name": "clear drops the flag", "file": "pyrex/detector.py", "old": "            ant.clear(reset_noise=reset_noise)", "new": "            ant.clear()", "rule": "R19e"},
        {"name": "antenna_class read from kwargs but left in them", "file": "pyrex/detector.py", "old": "                kwargs.pop(\"antenna_class\")\n", "new": "", "rule": "R19g"},
        {"name": "positional rejection only beyond one argument", "file": "pyrex/detector.py", "old": "                if len(args)>0:\n                    raise TypeError(\"Detector build_antennas",
         "new": "                if len(args)>1:\n                    raise TypeError(\"Detector build_antennas", "rule": "R19g"},
        {"name": "kwargs not filtered", "file": "pyrex/detector.py", "old": "                                      if key in keys}", "new": "                                      }", "rule": "R19g"},
    ],
    "benign": [
        {"name": "debug log in flatten", "file": "pyrex/detector.py", "old": "    def __len__(self):\n        return len(list(flatten(self.subsets)))",
         "new": "    def __len__(self):\n        \"\"\"number of antennas\"\"\"\n        return len(list(flatten(self.subsets)))"},
    ],
}
