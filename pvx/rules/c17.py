"""C17 -- thermal noise is band-limited, has the requested RMS and is reproducible in absolute time."""
import ast

from ..core.source import AnalysisError, parent
from ..core.astutil import strip_doc, calls, is_call, kwargs_of, guards, u, returns, names_in, parse_expr
from ..core.exprnf import NF, local_env
from ..core.sigbind import bind, param_names
from ._ai import degree_interp, degree_verdict, lam
from ..core.ai import Obj, Tup

META = {
    "explanation": "R17a band: the FFT implementation builds the same band mask (all_freqs >= f_min) & (all_freqs <= f_max) on the same rfftfreq grid in the "
                   "constructor and in the sampled function (clone) and publishes freqs = all_freqs[band]; the full implementation publishes "
                   "linspace(f_min, f_max, n, endpoint=False); f_min >= f_max is rejected -- so every published frequency lies inside the band.  R17b "
                   "rms = sqrt(k_B T R (f_max - f_min)) unless given, neither -> ValueError; degree domain: the waveform is Hom(1) in rms and linear in the "
                   "amplitudes.  R17c normalisations: sum(amp cos(2 pi f t + phase)) sqrt(2/N) rms  /  irfft(amps exp(-i phases), n) n sqrt(1/(2 N)) rms; DC "
                   "amplitude zeroed; default amplitudes rayleigh(1/sqrt 2), phases 2 pi rand.  R17d the sampled functions read only attributes assigned in the "
                   "constructor (never self.times), and the FFT grid fields are assigned only there: the noise is a function of absolute time.  R17e the two "
                   "implementations are interchangeable (same constructor signature, same published basis freqs/amps/phases), the writer reads exactly those, "
                   "and Antenna.make_noise's constructor calls bind both.",
    "not_decided": ["RMS as a statistic", "interpolation error of the FFT noise between grid points and its period choice", "independence of separate objects"],
    "trusted_base": ["CPython ast", "degree-domain summary table", "numpy.random draws are independent"],
    "assumptions": [],
}

FULL = "pyrex.signals.FullThermalNoise"
FFT = "pyrex.signals.FFTThermalNoise"


def nested(fn):
    return [n for n in ast.walk(fn) if isinstance(n, ast.FunctionDef) and n is not fn]


def assigns(fn, target):
    return [s for s in ast.walk(fn) if isinstance(s, ast.Assign) and any(u(t) == target for t in s.targets)]


def r17a(ctx):
    repo = ctx.repo
    ctx.rule("R17a", "band: FFT mask and frequency grid identical in __init__ and get_fft_values, freqs = all_freqs[band]; Full: linspace(f_min, f_max, n, endpoint=False); "
             "f_min >= f_max raises", expected=5, kind="S")
    init = repo.member(FFT, "__init__")
    inner = nested(init)
    if len(inner) != 1:
        raise AnalysisError("FFTThermalNoise.__init__: expected one nested sampled function")
    g = inner[0]

    def outer_env(fn, skip):
        env = {}
        for st in fn.body:
            if st is skip:
                continue
            for s in ast.walk(st):
                if isinstance(s, ast.Assign) and isinstance(s.targets[0], ast.Name):
                    env.setdefault(s.targets[0].id, s.value)
        return env
    e1 = outer_env(init, g)
    e2 = local_env(g)
    for nm, want in (("all_freqs", "scipy.fft.rfftfreq(self._n_all_freqs, self._dt)"), ("band", "(all_freqs >= self.f_min) & (all_freqs <= self.f_max)")):
        a, b = e1.get(nm), e2.get(nm)
        ok = a is not None and b is not None and u(a) == u(b)
        ctx.check(ok, "R17a", f"{FFT}.__init__", f"`{nm}` is computed identically in the constructor and in the sampled function (clone)",
                  f"constructor: {u(a) if a is not None else None} | function: {u(b) if b is not None else None}", key_detail=f"{nm} clone", loc=ctx.loc("pyrex.signals", g))
        ctx.check(a is not None and u(a) == want, "R17a", f"{FFT}.__init__", f"`{nm}` has the closed-band / rfftfreq form", u(a) if a is not None else "", key_detail=f"{nm} form")
    fr = assigns(init, "self.freqs")
    ctx.check(len(fr) == 1 and u(fr[0].value) == "all_freqs[band]", "R17a", f"{FFT}.__init__", "published frequencies are the in-band bins of the grid", u(fr[0].value) if fr else "",
              key_detail="published freqs")
    st = [s for s in ast.walk(g) if isinstance(s, ast.Assign) and isinstance(s.targets[0], ast.Subscript) and u(s.targets[0].slice) == "band"]
    pairs = sorted((u(s.targets[0].value), u(s.value)) for s in st)
    ctx.check(pairs == [("amps", "self.amps"), ("phases", "self.phases")], "R17a", f"{FFT}.__init__", "published amplitudes and phases are placed on exactly the in-band bins; all others stay zero",
              str(pairs), key_detail="in-band placement")
    zs = {u(s.targets[0]): u(s.value) for s in ast.walk(g) if isinstance(s, ast.Assign) and u(s.targets[0]) in ("amps", "phases")}
    ctx.check(zs == {"amps": "np.zeros(len(all_freqs))", "phases": "np.zeros(len(all_freqs))"}, "R17a", f"{FFT}.__init__", "out-of-band bins start at zero", str(zs), key_detail="zero outside")
    finit = repo.member(FULL, "__init__")
    fr = assigns(finit, "self.freqs")
    ok = len(fr) == 1 and is_call(fr[0].value, func="np.linspace") and [u(a) for a in fr[0].value.args] == ["self.f_min", "self.f_max", "self._n_freqs"] \
        and u(kwargs_of(fr[0].value).get("endpoint")) == "False"
    ctx.check(ok, "R17a", f"{FULL}.__init__", "published frequencies are linspace(f_min, f_max, n, endpoint=False): all inside [f_min, f_max)", u(fr[0].value) if fr else "",
              key_detail="full freqs")
    for q in (FULL, FFT):
        fn = repo.member(q, "__init__")
        body = strip_doc(fn)
        ok = u(body[0]) == "self.f_min, self.f_max = f_band" and isinstance(body[1], ast.If) and u(body[1].test).replace(" ", "") == "self.f_min>=self.f_max" \
            and any(isinstance(x, ast.Raise) and "ValueError" in u(x) for x in body[1].body)
        ctx.check(ok, "R17a", f"{q}.__init__", "an empty or reversed band is rejected before anything else", "", key_detail="band check")


def r17b(ctx):
    repo = ctx.repo
    ctx.rule("R17b", "rms = rms_voltage, else sqrt(k_B T R (f_max - f_min)), else ValueError; waveform Hom(1) in rms and Lin in the amplitudes", expected=8, kind="S")
    for q in (FULL, FFT):
        fn = repo.member(q, "__init__")
        r = assigns(fn, "self.rms")
        vals = [s.value for s in r]
        given = [v for v in vals if u(v) == "rms_voltage"]
        comp = [v for v in vals if u(v) != "rms_voltage"]
        ok = len(given) == 1 and len(comp) == 1 and NF().nf(comp[0]).equals(NF().nf(parse_expr("np.sqrt(scipy.constants.k * temperature * resistance * (self.f_max - self.f_min))")))
        ctx.check(ok, "R17b", f"{q}.__init__", "rms is the given value, else sqrt(k_B * T * R * bandwidth)", str([u(v)[:80] for v in vals]), key_detail="rms formula",
                  loc=ctx.loc("pyrex.signals", fn))
        chain = [n for n in strip_doc(fn) if isinstance(n, ast.If) and u(n.test) == "rms_voltage is not None"]
        ok = len(chain) == 1 and len(chain[0].orelse) == 1 and isinstance(chain[0].orelse[0], ast.If) \
            and u(chain[0].orelse[0].test) == "temperature is not None and resistance is not None" \
            and any(isinstance(x, ast.Raise) and "ValueError" in u(x) for x in chain[0].orelse[0].orelse)
        ctx.check(ok, "R17b", f"{q}.__init__", "decision: explicit rms first, then temperature and resistance, otherwise ValueError", "", key_detail="rms decision")
    # degree domain on the sampled functions
    dom, it = degree_interp(repo)
    U, LIN = dom.U, dom.LIN
    for q in (FULL, FFT):
        fn = repo.member(q, "__init__")
        g = nested(fn)[-1]
        for tracked, want_lin in (("rms", False), ("amps", True)):
            it.notes.clear()
            it.assume = {"self._n_freqs == 0": False}
            fields = {"freqs": U, "amps": U, "phases": U, "rms": U, "_n_freqs": U, "_n_all_freqs": U, "_dt": U, "_fft_start": U, "_fft_end": U, "_unique": U,
                      "f_min": U, "f_max": U}
            fields[tracked] = LIN
            if q == FULL:
                fields = {k: (Tup([v]) if k in ("freqs", "amps", "phases") else v) for k, v in fields.items()}
            obj = Obj(repo.cls(q), fields)
            from ..core.ai import Fn, Scope
            sc = Scope(it.menv("pyrex.signals"))
            sc.ci, sc.module = repo.cls(q), "pyrex.signals"
            sc.set("self", obj)
            out = it.call_fn(Fn(g, sc, ci=repo.cls(q), module="pyrex.signals"), [U], {}, 0)
            degree_verdict(ctx, "R17b", f"{q}.__init__.<{g.name}>", f"noise values are of degree 1 in {tracked}", it.flat(out), 1, want_lin=want_lin, notes=it.notes,
                           loc=ctx.loc("pyrex.signals", g))
    it.assume = {}


def r17c(ctx):
    repo = ctx.repo
    ctx.rule("R17c", "normalisation: Full sum(amp cos(2 pi f t + phase)) * sqrt(2/N) * rms; FFT irfft(amps exp(-1j phases), n=n_all) * n_all * sqrt(1/(2 N)) * rms; "
             "DC amplitude zeroed; default amplitudes rayleigh(1/sqrt(2)), phases 2 pi rand", expected=8, kind="N")
    finit = repo.member(FULL, "__init__")
    f = nested(finit)[-1]
    t = f.args.args[0].arg
    gens = [n for n in ast.walk(f) if isinstance(n, ast.GeneratorExp)]
    ok = len(gens) == 1
    if ok:
        ge = gens[0]
        tv = [e.id for e in ge.generators[0].target.elts]
        ok = u(ge.generators[0].iter) == "zip(self.freqs, self.amps, self.phases)" and len(tv) == 3
        if ok:
            fr, am, ph = tv
            ok = NF().nf(ge.elt).equals(NF().nf(parse_expr(f"{am} * np.cos(2*np.pi*{fr}*{t} + {ph})")))
            ok = ok and is_call(parent(ge), func="sum")
    ctx.check(ok, "R17c", f"{FULL}.__init__.<f>", "waveform is the sum over the published basis of amp * cos(2 pi f t + phase)", u(gens[0])[:120] if gens else "",
              key_detail="sum of cosines", loc=ctx.loc("pyrex.signals", f))
    muls = [u(s.value) for s in ast.walk(f) if isinstance(s, ast.AugAssign) and isinstance(s.op, ast.Mult)]
    ok = len(muls) == 2 and NF().nf(parse_expr(muls[0])).equals(NF().nf(parse_expr("np.sqrt(2/len(self.freqs))"))) and muls[1] == "self.rms"
    ctx.check(ok, "R17c", f"{FULL}.__init__.<f>", "scaled once by sqrt(2/N) and once by rms", str(muls), key_detail="full normalisation")
    init = repo.member(FFT, "__init__")
    g = nested(init)[-1]
    ir = [c for c in ast.walk(g) if is_call(c, func="scipy.fft.irfft")]
    ok = len(ir) == 1 and NF().nf(ir[0].args[0]).equals(NF().nf(parse_expr("amps * np.exp(-1j*phases)"))) and u(kwargs_of(ir[0]).get("n")) == "self._n_all_freqs"
    ctx.check(ok, "R17c", f"{FFT}.__init__.<{g.name}>", "time series is irfft(amps * exp(-i phases), n = grid length)", u(ir[0]) if ir else "", key_detail="irfft")
    muls = [u(s.value) for s in ast.walk(g) if isinstance(s, ast.AugAssign) and isinstance(s.op, ast.Mult)]
    ok = len(muls) == 2 and NF().nf(parse_expr(muls[0])).equals(NF().nf(parse_expr("self._n_all_freqs * np.sqrt(1/(2*self._n_freqs))"))) and muls[1] == "self.rms"
    ctx.check(ok, "R17c", f"{FFT}.__init__.<{g.name}>", "scaled once by n_all * sqrt(1/(2 N)) and once by rms", str(muls), key_detail="fft normalisation")
    ip = [c for c in ast.walk(g) if is_call(c, func="np.interp")]
    ok = len(ip) == 1 and [u(a) for a in ip[0].args] == [g.args.args[0].arg, "fft_times", "fft_values"] and u(kwargs_of(ip[0]).get("period")) == "length"
    ctx.check(ok, "R17c", f"{FFT}.__init__.<{g.name}>", "values at the requested absolute times are read off the periodic grid (np.interp with period = grid span)", u(ip[0]) if ip else "",
              key_detail="periodic interpolation")
    # the periodic grid on which the inverse FFT lives has exactly the constructor's sampling step: with end - start = (N-1) dt and n_all = unique*N,
    # length must equal (n_all - 1) dt so that linspace(start, start + length, n_all) steps by dt
    genv = local_env(g)
    N_ = "NPTS"
    sub = {"self._fft_end": parse_expr(f"self._fft_start + ({N_} - 1)*self._dt"), "self._n_all_freqs": parse_expr(f"self._unique*{N_}")}
    ok = "length" in genv and "fft_times" in genv
    if ok:
        got = NF({}, {}).nf(genv["length"])
        # substitute the constructor's relations (attribute atoms) by re-parsing the text
        txt_len = u(genv["length"]).replace("self._fft_end", f"(self._fft_start + ({N_} - 1)*self._dt)")
        got = NF().nf(parse_expr(txt_len))
        want = NF().nf(parse_expr(f"(self._unique*{N_} - 1)*self._dt"))
        ft = genv["fft_times"]
        ok = got.equals(want) and is_call(ft, func="np.linspace") and [u(a) for a in ft.args] == ["self._fft_start", "self._fft_start + length", "self._n_all_freqs"]
    ctx.check(ok, "R17c", f"{FFT}.__init__.<{g.name}>", "the FFT time grid spans (n_all - 1) sampling steps over n_all points: its spacing is the constructor's dt for every uniqueness factor",
              u(genv.get("length")) if "length" in genv else "", key_detail="fft grid spacing")
    z = [n for n in strip_doc(g) if isinstance(n, ast.If) and u(n.test) == "self._n_freqs == 0"]
    ok = len(z) == 1 and u(z[0].body[0]) == f"return np.zeros(len({g.args.args[0].arg}))"
    ctx.check(ok, "R17c", f"{FFT}.__init__.<{g.name}>", "an empty band gives an all-zero waveform of the requested length", "", key_detail="empty band")
    for q in (FULL, FFT):
        fn = repo.member(q, "__init__")
        dc = [n for n in ast.walk(fn) if isinstance(n, ast.If) and u(n.test) == "0 in self.freqs"]
        ok = len(dc) == 1 and [u(s) for s in dc[0].body] == ["self.amps[np.where(self.freqs == 0)[0]] = 0"]
        ctx.check(ok, "R17c", f"{q}.__init__", "a zero-frequency (DC) basis element gets amplitude 0", "", key_detail="DC amplitude")
        dfl = [s for s in ast.walk(fn) if isinstance(s, ast.Assign) and u(s.targets[0]) == "f_amplitude" and isinstance(s.value, ast.Lambda)]
        ok = len(dfl) == 1 and u(dfl[0].value.body).replace(" ", "") == "np.random.rayleigh(1/np.sqrt(2),size=f.shape)"
        ph = assigns(fn, "self.phases")
        ok = ok and len(ph) == 1 and NF().nf(ph[0].value).equals(NF().nf(parse_expr(f"np.random.rand({'len(self.freqs)' if q == FULL else 'self._n_freqs'}) * 2*np.pi")))
        ctx.check(ok, "R17c", f"{q}.__init__", "default amplitudes are Rayleigh(1/sqrt 2) (unit mean square), phases uniform in [0, 2 pi)", "", key_detail="default basis")


def r17d(ctx):
    repo = ctx.repo
    ctx.rule("R17d", "function of absolute time: the sampled functions read no self.times and only attributes assigned in __init__; FFT grid fields assigned only in __init__",
             expected=4, kind="S")
    for q in (FULL, FFT):
        ci = repo.cls(q)
        fn = repo.member(q, "__init__")
        g = nested(fn)[-1]
        reads = sorted({n.attr for n in ast.walk(g) if isinstance(n, ast.Attribute) and isinstance(n.value, ast.Name) and n.value.id == "self"})
        set_in_init = {t.attr for s in ast.walk(fn) if isinstance(s, ast.Assign) for tt in s.targets for t in ([tt] if not isinstance(tt, ast.Tuple) else tt.elts)
                       if isinstance(t, ast.Attribute) and u(t.value) == "self"}
        bad = [r for r in reads if r in ("times", "dt", "values") or r not in set_in_init]
        ctx.check(not bad, "R17d", f"{q}.__init__.<{g.name}>", "the waveform depends on the requested absolute times and on constructor-time attributes only",
                  f"reads {reads}; offending: {bad}", key_detail="reads of mutable grid", loc=ctx.loc("pyrex.signals", g))
        # parameters of the sampled function: exactly the times
        ctx.check(len(g.args.args) == 1, "R17d", f"{q}.__init__.<{g.name}>", "the sampled function takes the absolute times as its only argument", "", key_detail="function signature")
        elsewhere = []
        for c in ci.mro():
            for name, (kind, m) in c.methods.items():
                if c is ci and name == "__init__":
                    continue
                for s in ast.walk(m):
                    if isinstance(s, (ast.Assign, ast.AugAssign)):
                        for t in (s.targets if isinstance(s, ast.Assign) else [s.target]):
                            if isinstance(t, ast.Attribute) and u(t.value) == "self" and t.attr in reads and t.attr.startswith("_"):
                                elsewhere.append(f"{c.name}.{name}: {t.attr}")
        ctx.check(not elsewhere, "R17d", q, "private grid/basis fields read by the sampled function are assigned only in the constructor", str(elsewhere), key_detail="grid reassigned")
    init = repo.member(FFT, "__init__")
    want = {"self._fft_start": "times[0]", "self._fft_end": "times[-1]", "self._dt": "times[1] - times[0]", "self._n_all_freqs": "self._unique * len(times)"}
    got = {k: u(assigns(init, k)[0].value) if assigns(init, k) else None for k in want}
    ctx.check(got == want, "R17d", f"{FFT}.__init__", "the FFT grid is anchored at the constructor's time window (start, end, dt, unique * len)", str(got), key_detail="fft grid anchor")


def r17e(ctx):
    repo = ctx.repo
    ctx.rule("R17e", "the two implementations are interchangeable: same constructor signature; both publish freqs, amps, phases; the writer reads exactly those; "
             "Antenna.make_noise's calls bind both", expected=6, kind="S")
    a, b = repo.member(FULL, "__init__"), repo.member(FFT, "__init__")
    ctx.check(u(a.args) == u(b.args), "R17e", f"{FFT}.__init__", "constructor signatures (names, order, defaults) are identical", f"{u(a.args)} | {u(b.args)}", key_detail="signature")
    for q in (FULL, FFT):
        fn = repo.member(q, "__init__")
        pub = {t for t in ("freqs", "amps", "phases") if assigns(fn, f"self.{t}")}
        ctx.check(pub == {"freqs", "amps", "phases"}, "R17e", f"{q}.__init__", "publishes the basis as freqs, amps, phases", str(sorted(pub)), key_detail="basis attributes")
    al = repo.aliases.get("pyrex.signals", {}).get("ThermalNoise")
    ctx.check(al in ("FFTThermalNoise", "FullThermalNoise"), "R17e", "pyrex.signals.ThermalNoise", "the preferred model is an alias of one of the two implementations", str(al),
              key_detail="alias")
    w = repo.member("pyrex.io.HDF5Writer", "_get_noise_bases")
    r = [u(x.value) for x in returns(w)]
    ok = sorted(r) == sorted(["([], [], [])", "(noise.freqs, noise.amps, noise.phases)"]) and "noise = antenna._noise_master" in [u(s) for s in strip_doc(w)]
    ctx.check(ok, "R17e", "pyrex.io.HDF5Writer._get_noise_bases", "the stored noise basis is (freqs, amps, phases) of the antenna's noise master, empty when none exists", str(r),
              key_detail="writer basis")
    mk = repo.member("pyrex.antenna.Antenna", "make_noise")
    cs = [c for c in ast.walk(mk) if isinstance(c, ast.Call) and u(c.func) in ("ThermalNoise", "FFTThermalNoise", "FullThermalNoise")]
    for c in cs:
        for q in (FULL, FFT):
            msg = bind(c, repo.member(q, "__init__"))
            ctx.check(msg is None, "R17e", f"{q}.__init__", f"binds Antenna.make_noise's call `{u(c)[:70]}`", msg or "", key_detail=f"make_noise call {sorted(kwargs_of(c))}")
    what = "one constructor call per way of specifying the amplitude (temperature+resistance / rms)"
    if len(cs) != 2 and any(k.arg is None for c in cs for k in c.keywords):
        # the amplitude arguments travel in a ** dictionary: which keys it holds on which path is not read here
        ctx.unknown("R17e", "pyrex.antenna.Antenna.make_noise", what, f"{len(cs)} call(s), amplitude passed as **mapping")
    else:
        ctx.check(len(cs) == 2, "R17e", "pyrex.antenna.Antenna.make_noise", what, str(len(cs)), key_detail="constructor calls")


def r17f(ctx):
    """`the same noise at the same absolute times` needs one noise realisation per antenna that callers can never modify: make_noise builds
    the master once and always hands out a with_times() copy.  C09's R09d, reported here as well."""
    from . import c09
    from ._cross import relay
    relay(ctx, "R17f", "one noise realisation per antenna, handed out only as with_times() copies (= R09d)", "C09", c09.r09d, "R09d", kind="N")


def run(ctx):
    ctx.guard(r17f)
    ctx.guard(r17a)
    ctx.guard(r17b)
    ctx.guard(r17c)
    ctx.guard(r17d)
    ctx.guard(r17e)


SELFTEST = {
    "faults": [
        {"name": "FFT trace length 'simplified'", "file": "pyrex/signals.py", "old": "            length = ((self._fft_end-self._fft_start+self._dt) * self._unique\n                      - self._dt)",
         "new": "            length = (self._fft_end-self._fft_start) * self._unique", "rule": "R17c"},
        {"name": "< for <= in one copy of the band mask", "file": "pyrex/signals.py", "old": "            band = (all_freqs>=self.f_min) & (all_freqs<=self.f_max)", "new": "            band = (all_freqs>=self.f_min) & (all_freqs<self.f_max)",
         "rule": "R17a"},
        {"name": "4 k_B T R", "file": "pyrex/signals.py", "old": "            self.rms = np.sqrt(scipy.constants.k * temperature * resistance\n                               * (self.f_max - self.f_min))",
         "new": "            self.rms = np.sqrt(4 * scipy.constants.k * temperature * resistance\n                               * (self.f_max - self.f_min))", "occurrence": 1, "rule": "R17b"},
        {"name": "closure reads self.times", "file": "pyrex/signals.py", "old": "            values = np.interp(ts, fft_times, fft_values, period=length)",
         "new": "            values = np.interp(ts - self.times[0], fft_times, fft_values, period=length)", "rule": ["R17d", "R17c"]},
        {"name": "phases renamed", "file": "pyrex/signals.py", "old": "        self.phases = np.random.rand(self._n_freqs) * 2*np.pi", "new": "        self.phase = np.random.rand(self._n_freqs) * 2*np.pi",
         "rule": ["R17e", "R17c", "R17d"]},
        {"name": "rms applied twice", "file": "pyrex/signals.py", "old": "            values *= self.rms\n\n            return values\n\n        super().__init__(times, function=f,",
         "new": "            values *= self.rms * self.rms\n\n            return values\n\n        super().__init__(times, function=f,", "rule": ["R17b", "R17c"]},
        {"name": "sin instead of cos changes nothing structural? no: amplitude squared", "file": "pyrex/signals.py", "old": "            values = sum(amp * np.cos(2*np.pi*freq * ts + phase)",
         "new": "            values = sum(amp * amp * np.cos(2*np.pi*freq * ts + phase)", "rule": ["R17b", "R17c"]},
        {"name": "normalisation sqrt(1/N)", "file": "pyrex/signals.py", "old": "            values *= np.sqrt(2/len(self.freqs))", "new": "            values *= np.sqrt(1/len(self.freqs))", "rule": "R17c"},
        {"name": "endpoint included", "file": "pyrex/signals.py", "old": "        self.freqs = np.linspace(self.f_min, self.f_max, self._n_freqs,\n                                 endpoint=False)",
         "new": "        self.freqs = np.linspace(self.f_min, self.f_max*1.5, self._n_freqs,\n                                 endpoint=False)", "rule": "R17a"},
        {"name": "keyword renamed in one implementation", "file": "pyrex/signals.py", "old": "    def __init__(self, times, f_band, f_amplitude=None, rms_voltage=None,\n                 temperature=None, resistance=None, uniqueness_factor=1):",
         "new": "    def __init__(self, times, f_band, f_amplitude=None, rms=None,\n                 temperature=None, resistance=None, uniqueness_factor=1):", "occurrence": 2, "rule": "R17e"},
    ],
    "benign": [
        {"name": "bandwidth written first", "file": "pyrex/signals.py", "old": "            self.rms = np.sqrt(scipy.constants.k * temperature * resistance\n                               * (self.f_max - self.f_min))",
         "new": "            self.rms = np.sqrt((self.f_max - self.f_min) * scipy.constants.k * temperature\n                               * resistance)", "occurrence": 1},
    ],
}
