"""pvx -- static checkers for the 20 given properties of bhokansonfasig/pyrex (see DESIGN.md)."""
