"""Demonstration (dynamic, NOT part of any check) of the C06 known findings R06a': class-level knobs that lazy
values read are not static attributes, so assigning one on an instance after a read leaves the cached value stale.
Run:  /venv/bin/python known_demos/c06_knobs.py      (prints one line per finding; 'STALE' = defect reproduced)"""
import warnings
warnings.simplefilter("ignore")
import numpy as np
import pyrex
from pyrex.ray_tracing import (UniformRayTracer, UniformRayTracePath, BasicRayTracer, BasicRayTracePath,
                               SpecializedRayTracer, SpecializedRayTracePath)
from pyrex.ice_model import UniformIce, AntarcticIce
from pyrex.askaryan import ARZAskaryanSignal
from pyrex.custom.layered_ice import LayeredRayTracer, LayeredIce
from pyrex.custom.layered_ice.ray_tracing import LayeredRayTracePath

def report(name, stale, fresh):
    print(f"{name:60s} {'STALE' if stale != fresh else 'ok'}  after-read={stale!r} fresh={fresh!r}")

A, B = (0, 0, -100), (300, 0, -200)
ice = UniformIce(1.5, valid_range=(-3000, 0))
t = UniformRayTracer(A, B, ice); n0 = len(t.solutions); t.max_reflections = 2
f = UniformRayTracer(A, B, ice); f.max_reflections = 2
report("UniformRayTracer.max_reflections", len(t.solutions), len(f.solutions))
class P2(UniformRayTracePath): pass
t = UniformRayTracer(A, B, ice); t.solutions; t.solution_class = P2
f = UniformRayTracer(A, B, ice); f.solution_class = P2
report("UniformRayTracer.solution_class", type(t.solutions[0]).__name__, type(f.solutions[0]).__name__)
for T, P in ((BasicRayTracer, BasicRayTracePath), (SpecializedRayTracer, SpecializedRayTracePath)):
    class Q(P): pass
    t = T(A, B, AntarcticIce()); t.solutions; t.solution_class = Q
    f = T(A, B, AntarcticIce()); f.solution_class = Q
    report(T.__name__ + ".solution_class", type(t.solutions[0]).__name__, type(f.solutions[0]).__name__)
p = SpecializedRayTracer(A, B, AntarcticIce()).solutions[0]
z = p.z_uniform; p.uniformity_factor = 0.9
q = SpecializedRayTracer(A, B, AntarcticIce()).solutions[0]; q.uniformity_factor = 0.9
report("SpecializedRayTracePath.uniformity_factor", round(float(p.z_uniform), 3), round(float(q.z_uniform), 3))
part = pyrex.Particle("nu_e", (0, 0, -1000), (0, 0, 1), 1e8); part.interaction.em_frac, part.interaction.had_frac = 1, 0
times = np.linspace(-20e-9, 80e-9, 500)
ang = np.arccos(1/1.78) + 1e-4
s = ARZAskaryanSignal(times, part, ang, 1000); v = s.values.copy(); s.oncone_range = np.radians(1)
g = ARZAskaryanSignal(times, part, ang, 1000); g.oncone_range = np.radians(1)
report("ARZAskaryanSignal.oncone_range", float(np.max(np.abs(s.values))), float(np.max(np.abs(g.values))))
lice = LayeredIce([UniformIce(1.3, valid_range=(-50, 0)), UniformIce(1.6, valid_range=(-3000, -50))])
t = LayeredRayTracer((0, 0, -100), (100, 0, -200), lice); n = len(t.solutions); t.max_reflections = 0
f = LayeredRayTracer((0, 0, -100), (100, 0, -200), lice); f.max_reflections = 0
report("LayeredRayTracer.max_reflections", len(t.solutions), len(f.solutions))
class LP(LayeredRayTracePath): pass
t = LayeredRayTracer((0, 0, -100), (100, 0, -200), lice); t.solutions; t.solution_class = LP
f = LayeredRayTracer((0, 0, -100), (100, 0, -200), lice); f.solution_class = LP
report("LayeredRayTracer.solution_class", type(t.solutions[0]).__name__, type(f.solutions[0]).__name__)
t = LayeredRayTracer((0, 0, -100), (100, 0, -200), lice); t.solutions; t.ray_tracer_map = {}
f = LayeredRayTracer((0, 0, -100), (100, 0, -200), lice); f.ray_tracer_map = {}
def safe(fn):
    try: return len(fn())
    except Exception as e: return type(e).__name__
report("LayeredRayTracer.ray_tracer_map", safe(lambda: t.solutions), safe(lambda: f.solutions))
